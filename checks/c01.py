"""C01 - untrusted bytes become a message only if spec-valid, and always safely."""
import json
import struct

from vf import build, gen, hrun, msgoracle, report, wire
from vf.wire import Variant

PROP = "C01"
RULE = ("blobs = structurally generated valid messages (all type codes, 4 message types + unknown, "
        "random field subsets/orders, unknown fields, both byte orders), one single-site corruption of "
        "each per class (length words, padding, bool, utf8, path, signature, nul, field code, fixed "
        "header bytes, truncate, trailing, bit flips), field-level structural variants, nesting ladders, "
        "size-limit header words, random bytes; each blob goes through dbus_message_demarshal (exact-size "
        "heap copy under ASan) and a DBusMessageLoader; oracle = vf/wire.py. distinct = "
        "(generation class, oracle verdict, reason class, byte order, message type bucket)")


def _mk_cases(seed, shard, count):
    rng = gen.rng_for(seed, PROP, shard)
    cases = []   # (class, bytes)
    while len(cases) < count:
        r = rng.random()
        if r < 0.04:
            n = rng.choice([0, 1, 8, 15, 16, 17, 40, 200])
            cases.append(("random-bytes", bytes(rng.getrandbits(8) for _ in range(n))))
            continue
        if r < 0.08:
            # header-shaped random bytes
            order = rng.choice("lB")
            e = "<" if order == "l" else ">"
            b = bytearray(bytes(rng.getrandbits(8) for _ in range(rng.choice([16, 24, 64]))))
            b[0] = ord(order)
            b[1] = rng.choice([1, 2, 3, 4, 0, 9])
            b[3] = 1
            struct.pack_into(e + "I", b, 4, rng.choice([0, 8, len(b), 1 << 27, (1 << 27) - 16, 0xFFFFFFFF]))
            struct.pack_into(e + "I", b, 12, rng.choice([0, 8, len(b) - 16, 1 << 26, (1 << 26) + 1, 0xFFFFFFFF]))
            cases.append(("random-header", bytes(b)))
            continue
        if r < 0.13:
            # nesting ladders: signature depth and variant depth
            if rng.random() < 0.5:
                sig = gen.deep_signature(rng) if rng.random() < 0.7 else gen.misnested_signature(rng)
                ok = wire.signature_ok(sig)
                msg = gen.rand_message(rng, mtype=4)
                msg["fields"] = [(c, v) for c, v in msg["fields"] if c != 8]
                if rng.random() < 0.5 and ok:
                    ts = wire.parse_signature(sig)
                    msg["body_sig"], msg["body"] = sig, [gen.rand_value(rng, t, 0, [40]) for t in ts]
                    msg["fields"].append((8, Variant(b"g", sig)))
                else:
                    # signature carried as a 'g' value in the body (and, when invalid, as SIGNATURE with empty body)
                    msg["body_sig"], msg["body"] = b"g", [sig[:255]]
                    msg["fields"].append((8, Variant(b"g", b"g")))
                cases.append(("deep-signature", gen.encode(msg)))
            else:
                n = rng.choice([1, 30, 62, 63, 64, 65, 66, 70])
                sig, v = gen.nested_variant_value(n)
                wrap = rng.choice(["", "a", "r"])
                msg = gen.rand_message(rng, mtype=1)
                msg["fields"] = [(c, vv) for c, vv in msg["fields"] if c != 8]
                if wrap == "a":
                    sig, v = b"a" + sig, [v]
                elif wrap == "r":
                    sig, v = b"(" + sig + b")", (v,)
                msg["body_sig"], msg["body"] = sig, [v]
                msg["fields"].append((8, Variant(b"g", sig)))
                cases.append(("deep-variant", gen.encode(msg)))
            continue
        msg = gen.rand_message(rng, fds=(rng.random() < 0.1))
        if r >= 0.13 and r < 0.17:
            # messages announcing descriptors, handed to a loader that holds more / as many / fewer of them
            claimed = rng.choice([0, 1, 1, 2, 3, 17])
            msg["fields"] = [(c, v) for c, v in msg["fields"] if c != 9]
            msg["fields"].insert(rng.randint(0, len(msg["fields"])), (9, Variant(b"u", claimed)))
            attached = rng.choice([0, 0, 1, 2, 3, claimed if claimed < 8 else 4])
            cases.append(("fds:%d" % attached, gen.encode(msg)))
            continue
        if r >= 0.17 and r < 0.1715 and msg["mtype"] <= 4:
            # a large unknown header field in front of the known ones pushes their offsets past 2^15 / 2^16: the header
            # may be as long as the message limit allows, and every known field must still be found where it is
            big = rng.choice([32600, 32760, 33000, 40000, 65400, 65530, 66000, 70000, 131100])
            payload = bytes(rng.getrandbits(8) for _ in range(64)) * (big // 64)
            m2 = dict(msg)
            m2["fields"] = [(rng.choice([11, 77, 127, 200, 255]), Variant(b"ay", list(payload)))] + list(msg["fields"])
            d2 = gen.encode(m2)
            if wire.validate(d2).kind == wire.VALID:
                cases.append(("big-unknown-field", d2))
            continue
        data, sites = gen.encode(msg, want_sites=True)
        if r < 0.33:
            cases.append(("valid", data))
            if rng.random() < 0.15:
                cases.append(("twin-of-prev:valid", gen.encode(dict(msg, order="B" if msg["order"] == "l" else "l"))))
            if rng.random() < 0.12 and len(data) >= 32:
                # a loader with a configured maximum message size around this message's length (and around the sizes of
                # its parts): the message is accepted exactly when its total length is within the limit
                fl = struct.unpack_from("<I" if data[:1] == b"l" else ">I", data, 12)[0]
                bl = struct.unpack_from("<I" if data[:1] == b"l" else ">I", data, 4)[0]
                lim = rng.choice([len(data) - 1, len(data), len(data) + 1, max(fl, bl) + 1, fl + bl, len(data) - 8, len(data) // 2 + 1])
                if lim > 16:
                    cases.append(("limit:%d" % lim, data))
        elif r < 0.45:
            m2, cls = gen.structural_variant(rng, msg)
            cases.append((cls, gen.encode(m2)))
            if rng.random() < 0.5:
                # the same logical message in the other byte order: acceptance must not depend on the byte order
                cases.append(("twin-of-prev:" + cls, gen.encode(dict(m2, order="B" if m2["order"] == "l" else "l"))))
        elif r < 0.50 and len(data) <= 200:
            for cut in range(0, len(data), max(1, len(data) // 24)):
                cases.append(("truncate-sweep", data[:cut]))
        elif r < 0.53:
            msg2 = gen.rand_message(rng)
            cases.append(("two-messages", data + gen.encode(msg2)))
        else:
            d2, cls = gen.corrupt(rng, data, sites)
            cases.append((cls, d2))
            if rng.random() < 0.2:
                d3, cls3 = gen.corrupt(rng, d2, sites)
                cases.append(("double:" + cls3, d3))
    return cases[:count]


def _judge_one(part, cls, data, dres, lres, nfds=0):
    se = msgoracle.StreamExpect(data, nfds)
    first = wire.validate(data, nfds)
    verdict = first.kind
    reason = first.reason or ""
    order = chr(data[0]) if data[:1] in (b"l", b"B") else "?"
    tb = data[1] if len(data) > 1 and data[1] <= 4 else 5
    part.sig(cls.split(":")[0], verdict, reason, order, tb)
    part.count("verdict:" + verdict)
    wit = {"class": cls, "hex": data.hex() if len(data) <= 4096 else data[:4096].hex() + "...",
           "oracle": repr(first)}

    for which, res in (("demarshal", dres), ("loader", lres)):
        if res == "SKIP":
            continue
        if res is None:
            part.inconclusive.append("no result for a case (harness output missing)")
            return
        if "crash" in res:
            c = res["crash"]
            if c.get("timeout"):
                key = "%s:hang:%s" % (PROP, which)
            elif c.get("class"):
                key = "%s:%s:%s" % (PROP, c["class"][0], c["class"][1])
            else:
                key = "%s:crash:%s:rc%s" % (PROP, which, c.get("rc"))
            w = dict(wit)
            w["stderr"] = c.get("stderr", "")[-3000:]
            part.violation(key, "%s crashed/hung/sanitizer report" % which, w)
            return

    # ---- demarshal (not for the descriptor-carrying loader cases)
    if dres == "SKIP":
        dres = {"msg": None, "needed": first.need if verdict == wire.VALID else None, "skip": True}
    msg = dres.get("msg")
    total = None
    fixed_bad = False
    if len(data) >= 16:
        try:
            total = wire.frame_length(data)
        except wire.Invalid:
            fixed_bad = True
    needed = dres.get("needed")
    if verdict == wire.VALID and needed != first.need:
        part.violation("%s:bytes-needed-mismatch" % PROP, "demarshal_bytes_needed=%r, valid frame is %d bytes" % (needed, first.need), wit)

    def check_msg(which, hd, r, frame):
        dups = msgoracle.dup_known_codes(r.msg)
        diffs = msgoracle.compare(r.msg, hd, dups)
        if diffs:
            w = dict(wit)
            w["which"] = which
            w["diffs"] = diffs
            w["harness"] = {k: hd.get(k) for k in diffs if k in hd}
            part.violation("%s:accessor-differs:%s" % (PROP, diffs[0].split(":")[0]),
                           "%s: accessor values differ from independent decoding: %s" % (which, diffs), w)
            return
        hb = hd.get("bytes")
        if hb is not None:
            rb = bytes.fromhex(hb)
            r2 = wire.validate(rb, nfds=None)
            if r2.msg is None or r2.kind not in (wire.VALID, wire.UNSPECIFIED):
                part.violation("%s:remarshal-invalid" % PROP, "%s: accepted message re-marshals to invalid bytes (%r)" % (which, r2),
                               dict(wit, remarshal=hb[:4096]))
            elif (r2.msg.fields, r2.msg.body, r2.msg.type, r2.msg.flags, r2.msg.serial) != \
                    (r.msg.fields, r.msg.body, r.msg.type, r.msg.flags, r.msg.serial):
                part.violation("%s:remarshal-differs" % PROP, "%s: accepted message re-marshals to different content" % which,
                               dict(wit, remarshal=hb[:4096]))
        part.count("messages-compared")

    if verdict == wire.VALID:
        exact = (first.need == len(data)) and not dres.get("skip")
        if msg is None:
            if exact:
                part.violation("%s:rejected-but-valid:reason%s" % (PROP, lres.get("reason")), "dbus_message_demarshal rejected a valid message (%s; loader reason %s)" % (dres.get("err"), lres.get("reason")), wit)
        else:
            check_msg("demarshal", msg, first, data[:first.need])
    elif verdict == wire.UNSPECIFIED:
        part.count("unspecified:" + reason)
        if msg is not None and first.msg is not None:
            check_msg("demarshal", msg, first, data)
    else:
        if msg is not None:
            part.violation("%s:accepted-but-invalid:%s" % (PROP, reason if verdict == wire.INVALID else "incomplete"),
                           "dbus_message_demarshal accepted bytes the oracle calls %s (%s)" % (verdict, reason), wit)

    # ---- loader
    msgs = lres.get("msgs", [])
    corrupt = bool(lres.get("corrupt"))
    exp = se.frames
    ncmp = min(len(msgs), len(exp))
    for i in range(ncmp):
        off, r = exp[i]
        check_msg("loader#%d" % i, msgs[i], r, data[off:off + r.need])
    if len(msgs) < len(exp):
        part.violation("%s:rejected-but-valid:reason%s" % (PROP, lres.get("reason")),
                       "loader yielded %d messages, oracle frames %d valid ones (corrupt=%s reason=%s)"
                       % (len(msgs), len(exp), corrupt, lres.get("reason")), wit)
        return
    extra = msgs[len(exp):]
    if se.terminal == "clean":
        if extra or corrupt:
            part.violation("%s:loader-extra-after-clean-end" % PROP, "loader produced extra messages or flagged corruption after a clean stream", wit)
    elif se.terminal == "incomplete":
        if extra:
            part.violation("%s:accepted-but-invalid:incomplete" % PROP, "loader yielded a message from an incomplete frame", wit)
        if corrupt:
            part.violation("%s:rejected-but-valid:prefix" % PROP,
                           "loader flagged corruption (reason %s) on a prefix that can still become valid" % lres.get("reason"), wit)
    elif se.terminal == "invalid":
        if extra:
            part.violation("%s:accepted-but-invalid:%s" % (PROP, se.reason), "loader yielded a message for an invalid frame (%s)" % se.reason, wit)
        elif not corrupt:
            part.violation("%s:not-rejected:%s" % (PROP, se.reason), "loader neither yielded nor flagged corruption for a complete invalid frame (%s)" % se.reason, wit)
    elif se.terminal == "invalid-prefix":
        if extra:
            part.violation("%s:accepted-but-invalid:%s" % (PROP, se.reason), "loader yielded a message for an invalid (truncated) frame", wit)
    elif se.terminal == "unspecified":
        if extra and se.unspec_result.msg is not None:
            check_msg("loader#unspec", extra[0], se.unspec_result, data[se.term_off:])


def _worker(args):
    seed, shard, count, exe = args
    part = report.Part()
    cases = _mk_cases(seed, shard, count)
    lines = []
    for cls, data in cases:
        hx = data.hex() or "-"
        if cls.startswith("fds:"):
            lines.append("F %s %s -" % (cls[4:], hx))    # placeholder keeps two lines per case
            lines.append("F %s %s 1,15,3" % (cls[4:], hx))
        elif cls.startswith("limit:"):
            lines.append("L %s %s -" % (cls[6:], hx))
            lines.append("L %s %s 1,15,3" % (cls[6:], hx))
        else:
            lines.append("D " + hx)
            lines.append("L 0 %s -" % hx)
    res = hrun.run_cases(exe, lines, per_batch_timeout=300)
    for i, (cls, data) in enumerate(cases):
        part.evaluations += 1
        if cls.startswith("fds:"):
            nf = int(cls[4:])
            _judge_one(part, cls, data, "SKIP", res[2 * i], nfds=nf)
            _judge_one(part, cls + ":chunked", data, "SKIP", res[2 * i + 1], nfds=nf)
            part.count("fd-loader-cases")
            continue
        if cls.startswith("limit:"):
            lim = int(cls[6:])
            for which, lr in (("unsplit", res[2 * i]), ("chunked", res[2 * i + 1])):
                if not isinstance(lr, dict) or "crash" in lr:
                    _judge_one(part, cls, data, "SKIP", lr)
                    continue
                got = len(lr.get("msgs", []))
                part.count("loader-limit-cases")
                part.sig("limit", "within" if len(data) <= lim else "over", got, bool(lr.get("corrupt")))
                if len(data) <= lim and (got != 1 or lr.get("corrupt")):
                    part.violation("%s:rejected-but-valid:within-configured-limit" % PROP,
                                   "valid message of %d bytes rejected by a loader whose maximum message size is %d (%s)" % (len(data), lim, which),
                                   {"class": cls, "hex": data.hex()[:4096], "limit": lim, "reason": lr.get("reason")})
                elif len(data) > lim and (got or not lr.get("corrupt")):
                    part.violation("%s:accepted-but-invalid:over-configured-limit" % PROP,
                                   "message of %d bytes accepted by a loader whose maximum message size is %d (%s)" % (len(data), lim, which),
                                   {"class": cls, "hex": data.hex()[:4096], "limit": lim})
            continue
        _judge_one(part, cls, data, res[2 * i], res[2 * i + 1])
        if cls.startswith("twin-of-prev:") and i > 0:
            a, b2 = (res[2 * i - 2], res[2 * i - 1]), (res[2 * i], res[2 * i + 1])
            if all(isinstance(x, dict) and "crash" not in x for x in a + b2):
                part.count("byte-order-twins")
                acc_a = (a[0].get("msg") is not None, len(a[1].get("msgs", [])), bool(a[1].get("corrupt")))
                acc_b = (b2[0].get("msg") is not None, len(b2[1].get("msgs", [])), bool(b2[1].get("corrupt")))
                if acc_a != acc_b:
                    o = wire.validate(data)
                    part.violation("%s:verdict-depends-on-byte-order:%s" % (PROP, (o.reason or o.kind).split(":")[0]),
                                   "the same logical message is %s in one byte order and %s in the other"
                                   % ("accepted" if acc_a[0] else "rejected", "accepted" if acc_b[0] else "rejected"),
                                   {"class": cls, "hex": data.hex()[:4096], "twin_hex": cases[i - 1][1].hex()[:4096], "oracle": repr(o),
                                    "accepted(demarshal, loader messages, loader corrupt)": [list(acc_a), list(acc_b)]})
        if i < 2 and shard == 0:
            part.sample({"class": cls, "hex": data.hex()[:600], "oracle": repr(wire.validate(data))})
    for extra in res[2 * len(cases):]:
        br = extra.get("batch_report")
        if br:
            part.violation("%s:%s:%s" % (PROP, br["class"][0], br["class"][1]), "report at harness exit", {"stderr": br["stderr"][-3000:]})
    return part


def _big_cases(run, exe):
    """A handful of really large buffers around the 2^26 / 2^27 limits (thorough only)."""
    cases = []
    # array of bytes of length exactly 2^26 (valid), 2^26+1 (invalid)
    for n in ((1 << 26), (1 << 26) + 1):
        hdr = wire.encode_message(4, [(1, Variant(b"o", b"/a")), (2, Variant(b"s", b"a.b")), (3, Variant(b"s", b"M")),
                                      (8, Variant(b"g", b"ay"))], b"", [], serial=1, add_signature=False)
        body = struct.pack("<I", n) + b"\x07" * n
        data = bytearray(hdr)
        struct.pack_into("<I", data, 4, len(body))
        cases.append(("big-array-%d" % n, bytes(data) + body))
    part = report.Part()
    import tempfile, os
    for cls, data in cases:
        lines = ["D " + data.hex(), "L 0 %s -" % data.hex()]
        res = hrun.run_cases(exe, lines, per_batch_timeout=600)
        part.evaluations += 1
        _judge_one(part, cls, data, res[0], res[1])
    run.merge(part)


def run(tier, seed, replay=None, scale=1.0):
    r = report.Run(PROP, tier)
    r.rule = RULE
    b = build.build("asan")
    r.builds.append(b.info())
    exe = b.harness("h_parse")
    if replay:
        w = json.load(open(replay))["witness"]
        data = bytes.fromhex(w["hex"].rstrip("."))
        part = report.Part()
        res = hrun.run_cases(exe, ["D " + (data.hex() or "-"), "L 0 %s -" % (data.hex() or "-")])
        part.evaluations = 1
        _judge_one(part, w.get("class", "replay"), data, res[0], res[1])
        part.sig("replay", 1)
        part.sig("replay", 2)
        r.merge(part)
        return r.finish()
    total = int((240000 if tier == "quick" else 2400000) * scale)
    nshards = 16 if tier == "quick" else 256
    per = max(1, total // nshards)
    shards = [(seed, i, per, exe) for i in range(nshards)]
    for part in report.run_sharded(_worker, shards):
        r.merge(part)
    if tier == "thorough":
        _big_cases(r, exe)
        # uninitialised-value use: a slice under valgrind memcheck with the plain build
        pb = build.build("plain")
        r.builds.append(pb.info())
        pexe = pb.harness("h_parse")
        vshards = [(seed, 1000 + i, int(2000 * scale), pexe) for i in range(16)]
        for part in report.run_sharded(_valgrind_worker, vshards):
            r.merge(part)
    r.require("verdict:VALID", 100 if scale >= 1 else 1)
    r.require("verdict:INVALID", 100 if scale >= 1 else 1)
    r.require("messages-compared", 200 if scale >= 1 else 1)
    r.assumptions = ["oracle vf/wire.py transcribes doc/dbus-specification.xml; UNSPECIFIED classes listed in DESIGN.md C01 are not judged",
                     "ASan red zones see only adjacent overflows; memcheck slice in thorough tier"]
    return r.finish()


def _valgrind_worker(args):
    seed, shard, count, exe = args
    part = report.Part()
    cases = _mk_cases(seed, shard, count)
    lines = []
    for cls, data in cases:
        hx = data.hex() or "-"
        lines.append("D " + hx)
        lines.append("L 0 %s -" % hx)
    res = hrun.run_cases(exe, lines, per_batch_timeout=3000,
                         wrapper=["valgrind", "-q", "--tool=memcheck", "--error-exitcode=97", "--exit-on-first-error=yes",
                                  "--undef-value-errors=yes", "--leak-check=no"])
    for i, (cls, data) in enumerate(cases):
        part.evaluations += 1
        part.count("memcheck-cases")
        for rr in (res[2 * i], res[2 * i + 1]):
            if rr is not None and "crash" in rr:
                c = rr["crash"]
                part.violation("%s:memcheck:%s" % (PROP, _vg_site(c.get("stderr", ""))), "valgrind memcheck error",
                               {"class": cls, "hex": data.hex()[:4096], "stderr": c.get("stderr", "")[-3000:]})
                break
    return part


def _vg_site(err):
    import re
    kind = "error"
    m = re.search(r"==\d+== ([A-Z][^\n]*)", err)
    if m:
        kind = re.sub(r"\d+", "N", m.group(1))[:50].strip().replace(" ", "-")
    m2 = re.search(r"(?:at|by) 0x[0-9A-F]+: (\S+) \((?:dbus|bus)", err)
    return kind + ":" + (m2.group(1) if m2 else "?")
