"""C02 - built messages serialise to valid wire format and round-trip exactly."""
import collections
import json
import struct
import sys

from vf import build, gen, hrun, msgoracle, namegen, report, wire
from vf.wire import Variant

PROP = "C02"
NATIVE = "l" if sys.byteorder == "little" else "B"
FOREIGN = "B" if NATIVE == "l" else "l"
_NE = "<" if NATIVE == "l" else ">"

RULE = ("programs = random well-typed construction programs run through the public API by harness/h_build.c: "
        "dbus_message_new + setters in random order (before, between and after body arguments; occasional "
        "replace / delete+re-add of optional fields) or new_method_call / new_signal / new_method_return / "
        "new_error, all three flag setters, body of 0-6 single complete types appended with "
        "iter_append_basic / open_container / close_container / append_fixed_array (whole, split and mixed with "
        "element-wise appends) and dbus_message_append_args (basic, fixed arrays, string arrays); nesting ladders "
        "(32 arrays, 32 structs, 32+32, dict chains, value depth up to 64 through variants), 0-20 elements per "
        "array, empty arrays of every alignment, NaN / signed zero / infinities, empty, 255/256-byte and 64 KiB "
        "strings, 255-byte names. Every program: marshal -> vf/wire.py validate + decode == program, canonical "
        "re-encoding byte-identical; demarshal + dump + re-marshal identical; dbus_message_copy equal with serial 0; "
        "native->foreign via _dbus_marshal_byteswap/_dbus_header_byteswap and back via iterator init; "
        "foreign->native of an independently encoded non-native twin. A program is counted as non-trivial when it "
        "has a body or an optional header field. distinct = (message type bucket, constructor, header field set, "
        "body skeleton class = (#types, depth bucket, container kinds, alignment classes))")

_FOP = {wire.F_PATH: "P", wire.F_INTERFACE: "I", wire.F_MEMBER: "M", wire.F_ERROR_NAME: "E",
        wire.F_DESTINATION: "D", wire.F_SENDER: "S", wire.F_CONTAINER_INSTANCE: "C"}
_FKIND = {wire.F_PATH: "path", wire.F_INTERFACE: "interface", wire.F_MEMBER: "member",
          wire.F_ERROR_NAME: "error_name", wire.F_DESTINATION: "destination", wire.F_SENDER: "sender",
          wire.F_CONTAINER_INSTANCE: "container_instance"}
_FTYPE = {wire.F_PATH: b"o", wire.F_INTERFACE: b"s", wire.F_MEMBER: b"s", wire.F_ERROR_NAME: b"s",
          wire.F_DESTINATION: b"s", wire.F_SENDER: b"s", wire.F_CONTAINER_INSTANCE: b"o",
          wire.F_REPLY_SERIAL: b"u"}
_ALL_SETTABLE = (1, 2, 3, 4, 5, 6, 7, 10)
# a smaller quarantine than ASan's 256 MiB default: the harness frees hundreds of thousands of small blocks
# per batch, and 16 workers x 2 GiB of quarantined memory is what the run time would otherwise go into
_ENV = {"ASAN_OPTIONS": hrun.SAN_ENV["ASAN_OPTIONS"] + ":quarantine_size_mb=32"}
_FIXED_NOFD = {c: v for c, v in wire.BASIC_FIXED.items() if c != ord('h')}


def _hx(b):
    return "x" + bytes(b).hex()


def _opt(b):
    return "-" if b is None else _hx(b)


# ----------------------------------------------------------------------------- generation

def _field_value(rng, code):
    if code == wire.F_REPLY_SERIAL:
        return rng.choice([1, 2, 77, 0x7FFFFFFF, 0x80000000, 0xFFFFFFFF, rng.getrandbits(32) or 1])
    kind = _FKIND[code]
    r = rng.random()
    if r < 0.05:
        mx = namegen.MAX_LEN[kind] or rng.choice([255, 256, 1000])
        return namegen.of_len(rng, kind, mx - rng.choice([0, 0, 1, 2, 7, 8]))
    if r < 0.35:
        return namegen.of_len(rng, kind, rng.randint(1, 40))
    if code in (wire.F_PATH, wire.F_CONTAINER_INSTANCE):
        return gen.rand_path(rng)
    if code in (wire.F_INTERFACE, wire.F_ERROR_NAME):
        return gen.rand_interface(rng)
    if code == wire.F_MEMBER:
        return gen.rand_member(rng)
    while True:
        v = gen.rand_busname(rng)
        if wire.valid_bus_name(v):
            return v


def _setter(code, value):
    if code == wire.F_REPLY_SERIAL:
        return ["R", str(value)]
    return [_FOP[code], _opt(value)]


def _special_body(rng, stats):
    """Bodies aimed at the limits; returns (sig, values) or None."""
    k = rng.choice(["deep-sig", "deep-sig", "deep-variant", "deep-variant", "long-string", "long-bytes",
                    "empty-arrays", "doubles", "wide-array"])
    if k == "deep-sig":
        for _ in range(8):
            sig = gen.deep_signature(rng)
            if wire.signature_ok(sig) is True:
                break
        else:
            sig = b"a" * 32 + b"y"
        extra = rng.choice([b"", b"", b"i", b"s", b"ay"])
        sig = sig + extra
        if wire.signature_ok(sig) is not True or len(sig) > 255:
            return None
        ts = wire.parse_signature(sig)
        budget = [rng.choice([8, 40, 40, 120])]
        stats["special:deep-signature"] += 1
        return sig, [gen.rand_value(rng, t, 0, budget) for t in ts]
    if k == "deep-variant":
        wrap = rng.choice(["", "", "a", "r", "e", "ar"])
        room = 64 - {"": 0, "a": 1, "r": 1, "e": 2, "ar": 2}[wrap]
        n = rng.choice([room, room, room - 1, room // 2, 1, 2, rng.randint(1, room)])
        sig, v = gen.nested_variant_value(n)
        if wrap == "a":
            sig, v = b"a" + sig, [v] * rng.choice([1, 1, 2])
        elif wrap == "r":
            sig, v = b"(" + sig + b")", (v,)
        elif wrap == "e":
            sig, v = b"a{y" + sig + b"}", [(rng.getrandbits(8), v)]
        elif wrap == "ar":
            sig, v = b"a(" + sig + b"y)", [(v, 3)]
        stats["special:deep-variant"] += 1
        if n == room:
            stats["special:value-depth-64"] += 1
        return sig, [v]
    if k == "long-string":
        n = rng.choice([255, 256, 4095, 4096, 65535, 65536, 70001])
        s = bytes(rng.choice(b"abcdefgh ") for _ in range(16)) * (n // 16 + 1)
        stats["special:long-string"] += 1
        return rng.choice([(b"s", [s[:n]]), (b"ys", [1, s[:n]]), (b"as", [[s[:n], b"", s[:7]]]), (b"v", [Variant(b"s", s[:n])])])
    if k == "long-bytes":
        n = rng.choice([300, 1000, 4096, 4096, 20000])
        code = rng.choice(b"yqutd")
        size, f = wire.BASIC_FIXED[code]
        vals = [rng.getrandbits(8 * size) for _ in range(max(1, n // size))]
        stats["special:long-fixed-array"] += 1
        return b"a" + bytes([code]), [vals]
    if k == "empty-arrays":
        elems = [b"y", b"n", b"q", b"b", b"i", b"u", b"x", b"t", b"d", b"s", b"o", b"g", b"v", b"(y)", b"(t)", b"{yy}",
                 b"{sv}", b"ay", b"at", b"a(i)", b"a{ss}", b"(ss)"]
        lead = rng.choice([b"", b"y", b"yy", b"yyy", b"u", b"uy", b"s"])
        el = [rng.choice(elems) for _ in range(rng.randint(1, 5))]
        sig = lead + b"".join(b"a" + e + rng.choice([b"", b"y"]) for e in el)
        ts = wire.parse_signature(sig)
        vals = []
        for t in ts:
            if t.code == ord('a'):
                vals.append([])
            elif t.code == ord('s'):
                vals.append(rng.choice([b"", b"a", b"abc", b"abcd"]))
            else:
                vals.append(rng.getrandbits(8))
        stats["special:empty-arrays"] += 1
        return sig, vals
    if k == "doubles":
        pats = [0, 0x8000000000000000, 0x7FF0000000000000, 0xFFF0000000000000, 0x7FF8000000000000,
                0x7FF0000000000001, 0xFFF8000000000001, 0x7FFFFFFFFFFFFFFF, 1, 0x000FFFFFFFFFFFFF,
                0x3FF0000000000000, 0xBFF0000000000000, 0x7FEFFFFFFFFFFFFF]
        stats["special:doubles"] += 1
        sig = rng.choice([b"d", b"ad", b"(yd)", b"a{sd}", b"vd", b"yd"])
        if sig == b"d":
            return sig, [rng.choice(pats)]
        if sig == b"ad":
            return sig, [[rng.choice(pats) for _ in range(rng.randint(0, 20))]]
        if sig == b"(yd)":
            return sig, [(1, rng.choice(pats))]
        if sig == b"a{sd}":
            return sig, [[(b"k%d" % i, rng.choice(pats)) for i in range(rng.randint(0, 5))]]
        if sig == b"vd":
            return sig, [Variant(b"d", rng.choice(pats)), rng.choice(pats)]
        return sig, [7, rng.choice(pats)]
    # wide-array: 6..20 elements of a container type
    el = rng.choice([b"(is)", b"{us}", b"v", b"as", b"(yt)", b"s", b"o", b"g", b"ax"])
    sig = b"a" + el
    t = wire.parse_signature(sig)[0]
    n = rng.randint(6, 20)
    stats["special:wide-array"] += 1
    return sig, [[gen.rand_value(rng, t.sub, 1, [10]) for _ in range(n)]]


def _rand_body(rng, stats):
    r = rng.random()
    if r < 0.10:
        b = _special_body(rng, stats)
        if b is not None:
            return b
    n = rng.choice([0, 1, 1, 1, 2, 2, 3, 4, 5, 6])
    for _ in range(10):
        sig = b"".join(gen.rand_type(rng, 0, rng.choice([1, 2, 3, 4, 4])) for _ in range(n))
        if len(sig) <= 255 and wire.signature_ok(sig) is True:
            break
    else:
        sig = b"s"
    ts = wire.parse_signature(sig)
    budget = [rng.choice([30, 100, 300])]
    return sig, [gen.rand_value(rng, t, 0, budget) for t in ts]


def _pack_fixed(code, vals):
    size, f = wire.BASIC_FIXED[code]
    mask = (1 << (8 * size)) - 1
    return struct.pack("%s%d%s" % (_NE, len(vals), f), *[int(v) & mask for v in vals])


def _note_value(t, v, stats):
    c = t.code
    if c == ord('d'):
        e = (v >> 52) & 0x7FF
        if e == 0x7FF and (v & ((1 << 52) - 1)):
            stats["value:nan"] += 1
        elif v == 0x8000000000000000:
            stats["value:negative-zero"] += 1
    elif c in (ord('s'),) and len(v) == 0:
        stats["value:empty-string"] += 1


def _compile(rng, t, v, ops, top, stats, depth=1):
    """Append the ops that build value v of type t to ops."""
    c = t.code
    stats["max-depth"] = max(stats["max-depth"], depth if c in (ord('a'), ord('r'), ord('e'), ord('v')) else depth - 1)
    if c in wire.BASIC:
        _note_value(t, v, stats)
        tok = str(int(v)) if c in wire.BASIC_FIXED else _hx(v)
        if top and rng.random() < 0.25:
            ops += ["AA", chr(c), tok]
            stats["entry:append_args-basic"] += 1
        else:
            ops += ["B", chr(c), tok]
            stats["entry:append_basic"] += 1
        return
    if c == ord('a'):
        sub = t.sub
        if not v:
            stats["empty-array:align%d" % sub.align] += 1
        if sub.code in _FIXED_NOFD:
            for x in v:
                _note_value(sub, x, stats)
        if top and sub.code in _FIXED_NOFD and rng.random() < 0.25:
            ops += ["AF", chr(sub.code), str(len(v)), _pack_fixed(sub.code, v).hex() or "-"]
            stats["entry:append_args-fixed-array"] += 1
            return
        if top and sub.code in wire.STRINGLIKE and rng.random() < 0.25:
            ops += ["AS", chr(sub.code), str(len(v))] + [_hx(x) for x in v]
            stats["entry:append_args-string-array"] += 1
            return
        ops += ["O", "a", _hx(sub.sig)]
        stats["entry:open-array"] += 1
        if sub.code in _FIXED_NOFD and rng.random() < 0.65:
            i = 0
            if not v and rng.random() < 0.5:
                ops += ["F", chr(sub.code), "0", "-"]
                stats["entry:append_fixed_array"] += 1
            while i < len(v):
                k = rng.randint(1, len(v) - i) if rng.random() < 0.5 else len(v) - i
                if rng.random() < 0.75:
                    ops += ["F", chr(sub.code), str(k), _pack_fixed(sub.code, v[i:i + k]).hex()]
                    stats["entry:append_fixed_array"] += 1
                else:
                    for x in v[i:i + k]:
                        ops += ["B", chr(sub.code), str(int(x))]
                    stats["entry:append_basic"] += k
                i += k
        else:
            for x in v:
                _compile(rng, sub, x, ops, False, stats, depth + 1)
        ops.append("Z")
        return
    if c in (ord('r'), ord('e')):
        ops += ["O", chr(c)]
        stats["entry:open-%s" % ("struct" if c == ord('r') else "dict-entry")] += 1
        for m, x in zip(t.sub, v):
            _compile(rng, m, x, ops, False, stats, depth + 1)
        ops.append("Z")
        return
    if c == ord('v'):
        ops += ["O", "v", _hx(v.sig)]
        stats["entry:open-variant"] += 1
        _compile(rng, wire.parse_signature(v.sig, single=True)[0], v.value, ops, False, stats, depth + 1)
        ops.append("Z")
        return
    raise ValueError(c)


def _skeleton(sig, maxdepth):
    ts = wire.parse_signature(sig)
    kinds = "".join(sorted(set(chr(c) for c in sig if c in b"a({v")))
    al = {ord('y'): "1", ord('n'): "2", ord('q'): "2", ord('b'): "4", ord('i'): "4", ord('u'): "4", ord('x'): "8",
          ord('t'): "8", ord('d'): "8", ord('s'): "s", ord('o'): "s", ord('g'): "g"}
    classes = "".join(sorted(set(al[c] for c in sig if c in al)))
    db = 0 if maxdepth == 0 else (1 if maxdepth == 1 else (2 if maxdepth <= 3 else (3 if maxdepth <= 8 else (4 if maxdepth < 32 else 5))))
    return (min(len(ts), 3), db, kinds, classes if len(classes) <= 1 else "mixed")


def _merge(rng, groups):
    """groups: list of op-token-list sequences whose internal order must be preserved; returns one flat
    token list with the sequences randomly interleaved."""
    keyed = []
    for g in groups:
        ks = sorted(rng.random() for _ in g)
        keyed += list(zip(ks, g))
    keyed.sort(key=lambda kv: kv[0])
    out = []
    for _, toks in keyed:
        out += toks
    return out


def gen_program(rng, stats):
    """Returns (line, exp) where exp = dict(mtype, flags, serial, fields{code: Variant}, sig, body, ctor, ...),
    or None when the drawn program is outside the specification's limits (not a well-typed program)."""
    ctor = rng.choice(["new"] * 6 + ["call", "call", "signal", "return", "error"])
    fields = {}
    groups = []         # each group: list of token lists, order preserved
    head = []
    required = set()
    lead_body = None
    explicit_noreply = False
    if ctor == "new":
        mtype = rng.choice([1, 2, 3, 4]) if rng.random() < 0.92 else rng.randint(5, 255)
        head = ["N", str(mtype)]
        required = set(wire.REQUIRED.get(mtype, ()))
    elif ctor == "call":
        mtype = 1
        d = _field_value(rng, 6) if rng.random() < 0.6 else None
        p = _field_value(rng, 1)
        i = _field_value(rng, 2) if rng.random() < 0.6 else None
        m = _field_value(rng, 3)
        head = ["NC", _opt(d), _hx(p), _opt(i), _hx(m)]
        for code, val in ((6, d), (1, p), (2, i), (3, m)):
            if val is not None:
                fields[code] = val
    elif ctor == "signal":
        mtype = 4
        p, i, m = _field_value(rng, 1), _field_value(rng, 2), _field_value(rng, 3)
        head = ["NS", _hx(p), _hx(i), _hx(m)]
        fields.update({1: p, 2: i, 3: m})
        explicit_noreply = True
    elif ctor == "return":
        mtype = 2
        rs = _field_value(rng, 5)
        snd = _field_value(rng, 7) if rng.random() < 0.6 else None
        head = ["NR", str(rs), _opt(snd)]
        fields[5] = rs
        if snd is not None:
            fields[6] = snd
        explicit_noreply = True
    else:
        mtype = 3
        rs = _field_value(rng, 5)
        snd = _field_value(rng, 7) if rng.random() < 0.6 else None
        name = _field_value(rng, 4)
        emsg = gen.rand_string(rng) if rng.random() < 0.7 else None
        head = ["NE", str(rs), _opt(snd), _hx(name), _opt(emsg)]
        fields[5] = rs
        fields[4] = name
        if snd is not None:
            fields[6] = snd
        lead_body = emsg
        explicit_noreply = True
    stats["ctor:" + ctor] += 1

    p_opt = rng.choice([0.0, 0.15, 0.4, 0.4, 0.8, 1.0])
    for code in _ALL_SETTABLE:
        preset = code in fields
        if preset:
            if rng.random() > 0.10:
                continue
        elif not (code in required or rng.random() < p_opt * (0.3 if code == 10 else 1.0)):
            continue
        g = []
        val = _field_value(rng, code)
        g.append(_setter(code, val))
        fields[code] = val
        r = rng.random()
        mandatory = code in wire.REQUIRED.get(mtype, ())
        if r < 0.06:
            val = _field_value(rng, code)
            g.append(_setter(code, val))
            fields[code] = val
            stats["header:replace"] += 1
        elif r < 0.12 and code != 5 and not mandatory:
            g.append(_setter(code, None))
            del fields[code]
            stats["header:delete"] += 1
            if rng.random() < 0.5:
                val = _field_value(rng, code)
                g.append(_setter(code, val))
                fields[code] = val
                stats["header:re-add"] += 1
        groups.append(g)

    flags = 0
    for name, bit, inverted in (("FN", 1, False), ("FA", 2, True), ("FI", 4, False)):
        n = 0
        if name == "FN" and explicit_noreply:
            n = rng.choice([1, 1, 2])
        elif rng.random() < 0.4:
            n = rng.choice([1, 1, 2])
        g = []
        for _ in range(n):
            v = rng.randint(0, 1)
            g.append([name, str(v)])
            on = (v == 0) if inverted else (v == 1)
            flags = (flags | bit) if on else (flags & ~bit)
        if g:
            groups.append(g)

    serial = rng.choice([1, 2, 0x7FFFFFFF, 0xFFFFFFFF, rng.getrandbits(32) or 1])
    groups.append([["SER", str(serial)]])

    sig, body = _rand_body(rng, stats)
    if lead_body is not None:
        sig, body = b"s" + sig, [lead_body] + body
    if len(sig) > 255 or wire.signature_ok(sig) is not True:
        stats["gen-skipped:signature"] += 1
        return None
    ts = wire.parse_signature(sig)
    bgroup = []
    stats["max-depth"] = 0
    for k, (t, v) in enumerate(zip(ts, body)):
        if k == 0 and lead_body is not None:
            continue
        ops = []
        if rng.random() < 0.1:
            ops.append("IA")
        _compile(rng, t, v, ops, True, stats)
        bgroup.append(ops)
    maxdepth = stats.pop("max-depth")
    if bgroup:
        groups.append(bgroup)

    flist = [(c, Variant(_FTYPE[c], v)) for c, v in sorted(fields.items())]
    try:
        E = wire.encode_message(mtype, flist, sig, body, serial, flags, NATIVE, add_signature=True)
    except (ValueError, struct.error, wire.Invalid):
        stats["gen-skipped:unencodable"] += 1
        return None
    r = wire.validate(E)
    if r.kind != wire.VALID:
        # outside the limits of the specification (e.g. value depth 65): not a well-typed program
        stats["gen-skipped:" + str(r.reason or r.kind)] += 1
        return None
    ff = list(flist)
    rng.shuffle(ff)
    if sig:
        ff.insert(rng.randint(0, len(ff)), (wire.F_SIGNATURE, Variant(b"g", sig)))
    elif rng.random() < 0.2:
        ff.insert(rng.randint(0, len(ff)), (wire.F_SIGNATURE, Variant(b"g", b"")))
    X = wire.encode_message(mtype, ff, sig, body, serial, flags, FOREIGN, add_signature=False)
    line = " ".join(head + _merge(rng, groups) + ["X", X.hex()])
    exp = {"mtype": mtype, "flags": flags, "serial": serial,
           "fields": {c: v for c, v in flist}, "sig": sig, "body": body, "E": E,
           "ctor": ctor, "skeleton": _skeleton(sig, maxdepth), "maxdepth": maxdepth}
    if maxdepth >= 32:
        stats["value-depth>=32"] += 1
    if maxdepth == 64:
        stats["value-depth==64"] += 1
    return line, exp


def _exp_from_bytes(E):
    m = wire.decode(E)
    return {"mtype": m.type, "flags": m.flags, "serial": m.serial,
            "fields": {c: v for c, v in m.fields if c != wire.F_SIGNATURE}, "sig": m.body_sig, "body": m.body,
            "E": E, "ctor": "replay", "skeleton": ("replay",), "maxdepth": 0}


# ----------------------------------------------------------------------------- judgement

def _content_diffs(m, exp):
    """Names of the parts of decoded wire.Message m that differ from the program's expectation."""
    d = []
    if m.type != exp["mtype"]:
        d.append("type")
    if m.flags != exp["flags"]:
        d.append("flags")
    if m.serial != exp["serial"]:
        d.append("serial")
    codes = [c for c, _ in m.fields]
    if len(codes) != len(set(codes)):
        d.append("duplicate-field")
    got = {c: v for c, v in m.fields if c != wire.F_SIGNATURE}
    if got != exp["fields"]:
        for c in sorted(set(got) | set(exp["fields"])):
            if got.get(c) != exp["fields"].get(c):
                d.append("field%d" % c)
    if m.body_sig != exp["sig"]:
        d.append("signature")
    elif m.body != exp["body"]:
        d.append("body")
    return d


def _same_message(a, b, ordered_fields):
    """Names of differing parts between two decoded messages (byte order aside)."""
    d = []
    for k in ("type", "flags", "serial", "body_sig"):
        if getattr(a, k) != getattr(b, k):
            d.append(k)
    fa, fb = a.fields, b.fields
    if not ordered_fields:
        fa, fb = sorted(fa, key=repr), sorted(fb, key=repr)
    if fa != fb:
        d.append("fields")
    if a.body != b.body:
        d.append("body")
    return d


def _canonical(m):
    return wire.encode_message(m.type, m.fields, m.body_sig, m.body, m.serial, m.flags, m.order, add_signature=False)


def judge(part, line, exp, res):
    wit = {"program": line if len(line) <= 400000 else line[:400000], "truncated": len(line) > 400000,
           "expect_hex": exp["E"].hex() if len(exp["E"]) <= 200000 else None}

    def bad(cls, what, **extra):
        w = dict(wit)
        for k, v in extra.items():
            w[k] = v[:20000] if isinstance(v, str) else v
        part.violation("%s:%s" % (PROP, cls), what, w)

    if res is None:
        part.inconclusive.append("no result for a program (harness output missing)")
        return
    if "crash" in res:
        c = res["crash"]
        if c.get("timeout"):
            key = "hang:h_build"
        elif c.get("class"):
            key = "%s:%s" % (c["class"][0], c["class"][1])
        else:
            key = "crash:rc%s" % c.get("rc")
        bad(key, "construction harness crashed / hung / sanitizer or assertion report", stderr=c.get("stderr", "")[-3000:])
        return
    if res.get("k") != "B":
        part.inconclusive.append("harness refused a program as malformed (generator bug): %r %s" % (res, line[:300]))
        return
    if res.get("fail", -1) >= 0:
        bad("api-returned-false", "a construction call returned FALSE/NULL at token %d" % res["fail"])
        return
    hb = res.get("bytes")
    if hb is None:
        bad("marshal-failed", "dbus_message_marshal returned FALSE")
        return
    part.count("programs-judged")
    b = bytes.fromhex(hb)

    # (1) valid
    r = wire.validate(b)
    if r.kind != wire.VALID or r.need != len(b):
        bad("marshal-invalid:%s" % (r.reason or r.kind), "dbus_message_marshal output is not a valid message: %r (len %d)" % (r, len(b)), bytes=hb)
        return
    m = r.msg
    if m.order != NATIVE:
        bad("marshal-byte-order", "built message is not in native byte order", bytes=hb)
    # (2) decodes to the program
    d = _content_diffs(m, exp)
    if d:
        bad("marshal-differs:%s" % d[0], "marshalled bytes decode to something else than the program built: %s" % d, bytes=hb)
        return
    # (3) canonical given field order
    if _canonical(m) != b:
        bad("marshal-not-canonical", "independent re-encoding (same field order) is not byte-identical", bytes=hb,
            reencoded=_canonical(m).hex())
    part.count("marshal-checked")

    # accessor dump of the built message itself
    od = res.get("orig")
    diffs = msgoracle.compare(m, od)
    if diffs:
        bad("dump-differs:built:%s" % diffs[0].split(":")[0], "accessors/iterator of the built message differ from its bytes: %s" % diffs,
            bytes=hb, dump={k: od.get(k) for k in diffs if k in od})
    elif od.get("bytes") != hb:
        bad("marshal-not-idempotent", "second dbus_message_marshal of the same message differs", bytes=hb, second=od.get("bytes"))

    # (4) demarshal + re-marshal
    dm = res.get("dm")
    if dm is None:
        bad("demarshal-rejected-own-output", "dbus_message_demarshal rejected marshalled bytes (%s)" % res.get("dm_err"), bytes=hb)
    else:
        diffs = msgoracle.compare(m, dm)
        if diffs:
            bad("dump-differs:demarshalled:%s" % diffs[0].split(":")[0], "demarshalled message differs: %s" % diffs, bytes=hb,
                dump={k: dm.get(k) for k in diffs if k in dm})
        elif dm.get("bytes") != hb:
            bad("remarshal-differs", "demarshal + marshal is not byte-identical", bytes=hb, remarshal=dm.get("bytes"))
        else:
            part.count("remarshal-checked")

    # (6) copy
    cp = res.get("copy")
    if cp is None:
        bad("copy-failed", "dbus_message_copy returned NULL", bytes=hb)
    else:
        if res.get("copy_serial") != 0 or cp.get("serial") != 0:
            bad("copy-serial-nonzero", "copy has serial %r" % res.get("copy_serial"), bytes=hb)
        cd = dict(cp)
        cd["serial"] = m.serial
        diffs = msgoracle.compare(m, cd)
        if diffs:
            bad("copy-differs:%s" % diffs[0].split(":")[0], "copy differs from the original: %s" % diffs, bytes=hb,
                dump={k: cd.get(k) for k in diffs if k in cd})
        elif res.get("copy_bytes") != hb:
            bad("copy-bytes-differ", "copy (after giving it the same serial) marshals differently", bytes=hb, copy=res.get("copy_bytes"))
        else:
            part.count("copy-checked")

    # (5a) native -> foreign
    nf = res.get("n2f")
    if nf is None:
        bad("swap-n2f-failed", "could not demarshal/marshal for the native->foreign conversion", bytes=hb)
    else:
        fb = bytes.fromhex(nf)
        rf = wire.validate(fb)
        if rf.kind != wire.VALID or rf.need != len(fb):
            bad("swap-n2f-invalid:%s" % (rf.reason or rf.kind), "message converted to the other byte order is invalid: %r" % rf, bytes=hb, swapped=nf)
        else:
            dd = _same_message(m, rf.msg, True)
            if rf.msg.order != FOREIGN:
                bad("swap-n2f-order", "converted message does not announce the other byte order", bytes=hb, swapped=nf)
            elif dd:
                bad("swap-n2f-differs:%s" % dd[0], "conversion to the other byte order changed: %s" % dd, bytes=hb, swapped=nf)
            elif _canonical(rf.msg) != fb:
                bad("swap-n2f-not-canonical", "converted message is not the canonical encoding in that order", bytes=hb, swapped=nf)
            else:
                part.count("swap-n2f-checked")
        back = res.get("n2f_back")
        if back is not None:
            diffs = msgoracle.compare(m, back)
            if diffs:
                bad("swap-back-dump-differs:%s" % diffs[0].split(":")[0], "reading a converted message gives other values: %s" % diffs, bytes=hb)
            elif back.get("bytes") != hb:
                bad("swap-back-bytes-differ", "converting there and back is not byte-identical", bytes=hb, back=back.get("bytes"))
            else:
                part.count("swap-back-checked")

    # (5b) foreign -> native
    xhex = line.rsplit(" X ", 1)[1].split(" ")[0] if " X " in line else None
    if xhex is not None:
        X = bytes.fromhex(xhex)
        rx = wire.validate(X)
        if rx.kind != wire.VALID:
            part.inconclusive.append("generator produced an invalid foreign-order twin: %r" % rx)
            return
        mx = rx.msg
        fd = res.get("f2n")
        if fd is None:
            bad("foreign-rejected", "valid message in the non-native byte order rejected (%s)" % res.get("f_err"), foreign=xhex)
            return
        if res.get("f_raw") != xhex:
            bad("foreign-remarshal-differs", "demarshal + marshal of a canonical non-native message is not byte-identical",
                foreign=xhex, remarshal=res.get("f_raw"))
        diffs = msgoracle.compare(mx, fd)
        if diffs:
            bad("swap-f2n-dump-differs:%s" % diffs[0].split(":")[0], "non-native message reads back with other values: %s" % diffs,
                foreign=xhex, dump={k: fd.get(k) for k in diffs if k in fd})
            return
        nb = fd.get("bytes")
        rn = wire.validate(bytes.fromhex(nb)) if nb else None
        if rn is None or rn.kind != wire.VALID:
            bad("swap-f2n-invalid:%s" % ((rn.reason or rn.kind) if rn else "no-bytes"), "message swapped to native order by the iterator is invalid: %r" % rn,
                foreign=xhex, swapped=nb)
            return
        dd = _same_message(mx, rn.msg, True)
        if rn.msg.order != NATIVE:
            bad("swap-f2n-order", "message is still in the foreign byte order after iterator initialisation", foreign=xhex, swapped=nb)
        elif dd:
            bad("swap-f2n-differs:%s" % dd[0], "swap to native order changed: %s" % dd, foreign=xhex, swapped=nb)
        elif _canonical(rn.msg) != bytes.fromhex(nb):
            bad("swap-f2n-not-canonical", "message swapped to native order is not the canonical encoding", foreign=xhex, swapped=nb)
        else:
            # same values as the program, too
            d2 = _content_diffs(rn.msg, exp)
            if d2:
                bad("swap-f2n-differs:%s" % d2[0], "swapped message differs from the program's values: %s" % d2, foreign=xhex, swapped=nb)
            else:
                part.count("swap-f2n-checked")


_CHUNK = 600     # programs per harness process (bounds the memory held by parsed dumps)


def _worker(args):
    seed, shard, count, exe = args
    rng = gen.rng_for(seed, PROP, shard)
    part = report.Part()
    stats = collections.Counter()
    done = 0
    while done < count:
        want = min(_CHUNK, count - done)
        progs = []
        tries = 0
        while len(progs) < want and tries < want * 3 + 10:
            tries += 1
            g = gen_program(rng, stats)
            if g is not None:
                progs.append(g)
        if not progs:
            part.inconclusive.append("generator produced no program in %d tries" % tries)
            break
        res = hrun.run_cases(exe, [ln for ln, _ in progs], env=_ENV, per_batch_timeout=900)
        for i, (line, exp) in enumerate(progs):
            part.evaluations += 1
            part.count("programs")
            nontrivial = bool(exp["sig"]) or any(c not in wire.REQUIRED.get(exp["mtype"], ()) for c in exp["fields"])
            if nontrivial:
                tb = exp["mtype"] if exp["mtype"] <= 4 else 5
                part.sig(tb, exp["ctor"], tuple(sorted(exp["fields"])), exp["skeleton"])
            else:
                part.count("trivial-programs")
            judge(part, line, exp, res[i])
            if shard == 0 and done == 0 and i < 3:
                part.sample({"program": line[:700], "body_signature": exp["sig"].decode("latin1")[:80],
                             "marshalled": (res[i] or {}).get("bytes", "")[:300] if isinstance(res[i], dict) else None})
        for extra in res[len(progs):]:
            br = extra.get("batch_report") if extra else None
            if br:
                part.violation("%s:%s:%s" % (PROP, br["class"][0], br["class"][1]), "report at harness exit", {"stderr": br["stderr"][-3000:]})
        done += len(progs)
    for k, v in stats.items():
        part.count(k, v)
    return part


def run(tier, seed, replay=None, scale=1.0):
    r = report.Run(PROP, tier)
    r.rule = RULE
    b = build.build("asan")
    r.builds.append(b.info())
    exe = b.harness("h_build")
    if replay:
        w = json.load(open(replay))["witness"]
        part = report.Part()
        if w.get("truncated") or not w.get("expect_hex") or not w.get("program"):
            part.inconclusive.append("witness too large to be stored completely; re-run the seed instead")
        else:
            line = w["program"]
            exp = _exp_from_bytes(bytes.fromhex(w["expect_hex"]))
            res = hrun.run_cases(exe, [line], env=_ENV)
            part.evaluations = 1
            judge(part, line, exp, res[0])
        part.sig("replay", 1)
        part.sig("replay", 2)
        r.merge(part)
        return r.finish()
    total = int((30000 if tier == "quick" else 800000) * scale)
    nshards = 16 if tier == "quick" else 256
    per = max(1, total // nshards)
    shards = [(seed, i, per, exe) for i in range(nshards)]
    for part in report.run_sharded(_worker, shards):
        r.merge(part)
    full = scale >= 1
    n = per * nshards
    r.require("programs-judged", int(n * 0.98) if full else 1)
    for c in ("marshal-checked", "remarshal-checked", "copy-checked", "swap-n2f-checked", "swap-back-checked", "swap-f2n-checked"):
        r.require(c, int(n * 0.9) if full else 1)
    if full:
        for c in ("ctor:new", "ctor:call", "ctor:signal", "ctor:return", "ctor:error",
                  "entry:append_basic", "entry:append_fixed_array", "entry:append_args-basic",
                  "entry:append_args-fixed-array", "entry:append_args-string-array", "entry:open-array",
                  "entry:open-struct", "entry:open-dict-entry", "entry:open-variant",
                  "empty-array:align1", "empty-array:align2", "empty-array:align4", "empty-array:align8",
                  "value:nan", "value:negative-zero", "value:empty-string", "value-depth>=32", "value-depth==64",
                  "special:long-string", "header:replace", "header:delete"):
            r.require(c, 5)
    r.assumptions = ["oracle vf/wire.py transcribes doc/dbus-specification.xml; it shares no code with libdbus",
                     "ill-typed programs are out of scope (the API documents them as programming errors and aborts)",
                     "UNIX_FD values are not generated here (C15 covers descriptor passing)",
                     "flags after new_signal/new_method_return/new_error are always set explicitly by the program, "
                     "so the constructors' own choice of NO_REPLY is not judged"]
    return r.finish()
