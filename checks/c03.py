"""C03 - the bus stamps the true sender; unique names are unique forever."""
import collections
import json
import os
import shutil
import tempfile

from vf import build, busproc, client, gen, report, wire
from vf.wire import Variant

PROP = "C03"
RULE = ("(a) probe sessions: 4..7 raw clients on a fresh ASan daemon (listeners hold broad match rules, some own "
        "well-known names); every probe carries a fresh token (first body string, or the member name of body-less "
        "probes) and is sent with a forged SENDER (another client's unique name, org.freedesktop.DBus, a well-known name "
        "owned by somebody else / by nobody, the name of a departed connection, a random valid name), 0..4 unknown "
        "header fields 11..255 with random variant payloads and CONTAINER_INSTANCE (field 10, object path), fields in "
        "random order, either byte order, optionally written in pieces; all four message types (METHOD_RETURN / ERROR only "
        "as genuine answers to a delivered call), unicast to unique and well-known names, broadcast, to the driver "
        "(incl. calls that make the driver broadcast NameOwnerChanged) and method calls without DESTINATION. Every session "
        "also has third-party receivers: 1..2 clients holding eavesdrop='true' match rules and 1..2 connections that called "
        "Monitoring.BecomeMonitor([],0) (their stream is bounded per step by an end-marker signal of the observer); what "
        "they are shown (peer traffic, calls to the driver incl. everybody's barriers, bus answers, frames written before "
        "Hello) is inspected like any other received frame - driver probes, which cannot hold a token, are attributed by "
        "(true sender, serial, payload). After the "
        "sender's and every client's barrier EVERY frame that ANY client read is inspected: token frames must carry "
        "exactly one SENDER = unique name of the connection that wrote the token; token-less frames must be "
        "bus-originated (answer to a serial of the reader, or a NameOwnerChanged/NameAcquired/NameLost signal) and carry "
        "SENDER org.freedesktop.DBus; no frame may carry a field code > 9; a forged SENDER value must not come back in "
        "the DESTINATION of a bus-originated frame. Histories mix connect+Hello (plain / forged / big-endian), repeated "
        "Hello (must be an error and must not mint a name), traffic before Hello (its token must reach nobody), abrupt "
        "close (also in mid-frame) and reconnect. (b) connection cycles through one daemon: Hello, pipelined double "
        "Hello, Hello whose reply is never read, no Hello, junk before Hello, kept / closed at once; every Hello name "
        "must start with ':' and must not have been issued or announced (NameOwnerChanged('',name)) before by this daemon "
        "instance. distinct = (operation, message type, destination kind, forgery kind, junk-field shape, #receivers>0)"
        " (d) rollover cycles: the same connection cycles on buses whose unique-name counters are started (hook H5, "
        "DBUS_VERIF_NAME_COUNTER) 0..40 names before the minor number 2147483647 is used up, with majors 1, 2, 7, 1000, "
        "2147483646 and random ones: names must stay fresh across that point (no name issued twice, none from the range the "
        "counter had already passed) and the UBSan-built bus must get there without a report")

BUS = b"org.freedesktop.DBus"
BUS_PATH = b"/org/freedesktop/DBus"
NOT_ACTIVE = b":not.active.yet"
WELL = [b"com.verif.W1", b"com.verif.W2", b"org.verif.W-3"]
UNOWNED = b"com.verif.Unowned"
IFACES = [b"com.verif.P", b"com.verif.Q", b"org.freedesktop.DBus", b"org.freedesktop.DBus.Properties"]
PATHS = [b"/", b"/com/verif/p", b"/org/freedesktop/DBus"]
MEMBERS = [b"Ping", b"Changed", b"NameOwnerChanged", b"NameAcquired", b"Get"]
LISTEN_RULES = [b"type='signal'", b"type='signal'", b"type='signal',interface='com.verif.P'", b"interface='com.verif.Q'",
                b"sender='org.freedesktop.DBus'", None]
TYPE_NAME = {1: "call", 2: "return", 3: "error", 4: "signal"}
DRIVER_CALLS = [(b"GetId", b"", []), (b"ListNames", b"", []), (b"NameHasOwner", b"s", [b"com.verif.W1"]),
                (b"GetNameOwner", b"s", [BUS]), (b"GetNameOwner", b"s", [UNOWNED]), (b"NoSuchMethod", b"", []),
                (b"ListQueuedOwners", b"s", [b"com.verif.W2"]), (b"GetConnectionUnixUser", b"s", [BUS])]


class Probe(object):
    __slots__ = ("token", "true_sender", "mtype", "destkind", "forge", "forged", "junk", "container", "receivers",
                 "registered", "data")

    def __init__(self, token, true_sender, mtype, destkind, forge, forged, junk, container, registered=True):
        self.token, self.true_sender, self.mtype, self.destkind = token, true_sender, mtype, destkind
        self.forge, self.forged, self.junk, self.container = forge, forged, junk, container
        self.receivers = []
        self.registered = registered
        self.data = None

    def kind(self):
        return "%s:%s" % (TYPE_NAME.get(self.mtype, "?"), self.destkind)


class Base(object):
    """Shared by probe sessions and connection cycles: daemon life cycle, the set of names ever issued, and the
    frame inspector."""

    def __init__(self, b, rundir, rng, part, sid):
        self.b, self.rundir, self.rng, self.part, self.sid = b, rundir, rng, part, sid
        self.clock = client.Clock()
        self.steps = []
        self.daemon = None
        self.obs = None
        self.clients = []
        self.ever = set()                        # names returned by Hello replies of this daemon instance
        self.minted = collections.Counter()      # names announced by NameOwnerChanged(name, '', name) at the observer
        self.minted_checked = set()
        self.unread_hellos = 0                   # Hello sent, reply deliberately never read (name known from NOC only)
        self.tokens = {}
        self.ntok = 0
        self.cur_forged = None
        self.everyone_extra = []
        self.eaves = []                          # registered clients holding eavesdrop='true' rules (third parties)
        self.monitors = []                       # connections that called BecomeMonitor (read-only third parties)
        self.byname = {}                         # unique name -> Client, for every first Hello of this history
        self.by_serial = {}                      # (true sender, serial) -> Probe, for probes whose token is not in the frame
        self.serial_index = {}                   # serial -> [Probe]
        self.stopped = False

    # -- plumbing ------------------------------------------------------------------
    def witness(self, extra=None):
        w = {"scenario": self.sid, "mode": self.MODE, "n": self.n, "steps": self.steps[-60:]}
        if extra:
            w.update(extra)
        return w

    def violation(self, key, what, extra=None):
        self.part.violation("%s:%s" % (PROP, key), what, self.witness(extra))

    def step(self, s):
        self.steps.append(s)
        if len(self.steps) > 400:
            del self.steps[:200]

    def start_daemon(self):
        self.daemon = busproc.Daemon(self.b, self.rundir, busproc.make_config("@SOCK@"), name="s%d" % (self.sid % 100000),
                                     env=getattr(self, "daemon_env", None))
        if not self.daemon.started():
            raise RuntimeError("daemon did not start: " + self.daemon.stderr_text()[-400:])

    def finish(self):
        if self.stopped:
            return
        self.stopped = True
        for c in [self.obs] + self.clients + self.everyone_extra + self.eaves + self.monitors:
            if c is not None:
                c.close()
        if self.daemon is not None:
            self.daemon.stop()
            for cls, site, text in self.daemon.problems():
                self.part.violation("%s:%s:%s" % (PROP, cls, site), "daemon reported %s" % cls,
                                    self.witness({"stderr": text[-3000:]}))

    def new_token(self):
        self.ntok += 1
        return b"T%d_%d" % (self.sid, self.ntok)

    def find_token(self, m):
        if m.body and isinstance(m.body[0], bytes) and m.body[0] in self.tokens:
            return m.body[0]
        mem = m.known().get(3)
        if mem is not None and mem in self.tokens:
            return mem
        return None

    # -- Hello ---------------------------------------------------------------------
    def check_hello_name(self, name, how):
        """name: first argument of a successful Hello reply."""
        self.part.count("names-issued")
        if not isinstance(name, bytes) or not name.startswith(b":"):
            self.violation("hello-name-without-colon", "Hello returned %r, which does not begin with ':'" % (name,))
            return
        if name in self.ever:
            self.violation("unique-name-reused", "Hello (%s) returned the unique name %s, which this daemon instance had "
                           "already given to an earlier connection" % (how, name.decode("latin1")),
                           {"names_issued_so_far": len(self.ever)})
        self.ever.add(name)

    def hello(self, c, variant="plain"):
        """First Hello on c.  Returns the Received reply."""
        kw = {}
        if variant == "forged":
            kw["sender"] = self.rng.choice([BUS, b":1.0", b":1.1", WELL[0], b":9.9"])
            kw["extra_fields"] = self.junk_fields(2, True)
        elif variant == "big-endian":
            kw["order"] = "B"
        serial, data = c.build(1, path=BUS_PATH, iface=BUS, member=b"Hello", dest=BUS, **kw)
        c.send_msg(data, serial)
        r = c.wait_reply(serial)
        if r.msg.type == 2 and r.msg.body:
            c.unique = r.msg.body[0]
            self.byname.setdefault(c.unique, c)
        return r

    def connect_registered(self, variant="plain", how="connect"):
        c = client.Client(self.daemon.sock, self.clock)
        c.insp = 0
        c.auth()
        r = self.hello(c, variant)
        self.part.count("op:hello:" + variant)
        if r.msg.type != 2 or not r.msg.body:
            self.violation("first-hello-failed", "the first Hello of a connection failed: %r" % (r,))
            c.close()
            return None
        self.check_hello_name(r.msg.body[0], how)
        return c

    def junk_fields(self, nmax, container):
        rng = self.rng
        out = []
        n = rng.choice([0, 1, 1, 2, nmax]) if nmax else 0
        codes = set()
        while len(codes) < n:
            codes.add(rng.choice([11, 12, 13, 16, 32, 64, 127, 128, 200, 254, 255, rng.randint(11, 255), rng.randint(11, 255)]))
        for code in sorted(codes):
            s = gen.rand_type(rng, 0, 2)
            ts = wire.parse_signature(s, single=True)
            out.append((code, Variant(s, gen.rand_value(rng, ts[0], 0, [40]))))
        if container:
            out.append((10, Variant(b"o", gen.rand_path(rng))))
        return out

    # -- the monitor ---------------------------------------------------------------
    def inspect_new(self, c, op):
        log = c.log
        i = getattr(c, "insp", 0)
        while i < len(log):
            self.inspect(c, log[i], op)
            i += 1
        c.insp = i
        c.inbox = []

    def inspect(self, c, rec, op):
        m = rec.msg
        k = m.known()
        self.part.count("frames-inspected")
        role = getattr(c, "role", None)          # None: ordinary receiver; "eavesdropper" / "monitor": third party
        to = "" if role is None else ":to-" + role
        tok = self.find_token(m)
        senders = [v.value for code, v in m.fields if code == 7]
        if tok is not None:
            origin = TYPE_NAME.get(m.type, "type%d" % m.type)
        elif role is not None and senders != [BUS]:
            origin = "driver-" + TYPE_NAME.get(m.type, "type%d" % m.type)
        else:
            origin = "bus"
        for code, v in m.fields:
            if code == 10:
                self.violation("container-instance-delivered:%s%s" % (origin, to),
                               "a received frame carries CONTAINER_INSTANCE %r (op %s)" % (v.value, op), {"frame": repr(rec)})
            elif code > 9 or code == 0:
                self.violation("unknown-field-delivered:%s%s" % (origin, to),
                               "a received frame carries header field code %d (op %s)" % (code, op), {"frame": repr(rec)})
        if role is not None:
            self.part.count("third-party-frames:" + role)
        if tok is not None:
            p = self.tokens[tok]
            p.receivers.append(c)
            self.part.count("token-frames-checked")
            if not p.registered:
                if role == "monitor":
                    # a monitor is shown what the bus refused to route; the bus stamps it ':not.active.yet'
                    self.part.count("prehello-frames-seen-by-monitor")
                    if senders != [NOT_ACTIVE]:
                        self.violation("prehello-frame-wrong-sender%s" % to,
                                       "a monitor saw a frame written before Hello with SENDER %r" % (senders,), {"frame": repr(rec)})
                    return
                self.violation("unregistered-routed:%s%s" % (p.kind(), to),
                               "a message written by a connection that never said Hello was delivered to %s"
                               % (c.unique or b"?").decode("latin1"), {"frame": repr(rec)})
                return
            if m.type != p.mtype:
                self.violation("token-frame-type-changed", "token frame arrived as type %d, sent as %d" % (m.type, p.mtype),
                               {"frame": repr(rec)})
            self.check_token_sender(c, rec, p, senders, to)
            return
        if role is not None:
            return self.inspect_third_party(c, rec, op, senders, to)
        # no token: must be something the bus itself originated
        self.part.count("bus-frames-checked")
        plausible = False
        if m.type in (2, 3):
            rs = k.get(5)
            plausible = rs is not None and 1 <= rs <= c.serial
        elif m.type == 4:
            plausible = k.get(2) == BUS and k.get(3) in (b"NameOwnerChanged", b"NameAcquired", b"NameLost")
        if not plausible:
            self.violation("unattributable-frame:%s" % TYPE_NAME.get(m.type, "other"),
                           "a frame that carries no token and is not an answer / bus signal arrived (op %s)" % op,
                           {"frame": repr(rec)})
            return
        if len(senders) == 0:
            self.violation("bus-frame-without-sender:%s" % op,
                           "a frame originated by the bus (%s) carries no SENDER field; the statement requires "
                           "org.freedesktop.DBus" % self.describe(m), {"frame": repr(rec), "fields": repr(m.fields)})
        elif len(senders) > 1 or senders[0] != BUS:
            self.violation("bus-frame-wrong-sender:%s" % op,
                           "a frame originated by the bus carries SENDER %r" % (senders,), {"frame": repr(rec)})
        d = k.get(6)
        f = self.cur_forged
        if f is not None and d is not None and d == f and d != c.unique:
            self.violation("forged-sender-reflected:destination:%s" % op,
                           "the SENDER value %s forged by the client came back as DESTINATION of a bus-originated frame"
                           % f.decode("latin1"), {"frame": repr(rec), "fields": repr(m.fields)})
        if c is self.obs and m.type == 4 and k.get(3) == b"NameOwnerChanged" and len(m.body) == 3:
            name, old, new = m.body
            if name.startswith(b":") and old == b"" and new == name:
                self.minted[name] += 1

    @staticmethod
    def sent_lookup(conn, serial):
        """bytes that conn wrote under `serial` (None if it never did)"""
        mp = getattr(conn, "sent_map", None)
        if mp is None:
            mp = conn.sent_map = {}
            conn.sent_idx = 0
        while conn.sent_idx < len(conn.sent):
            _, sr, data = conn.sent[conn.sent_idx]
            conn.sent_idx += 1
            if sr is not None:
                mp[sr] = data
        return mp.get(serial)

    @staticmethod
    def same_payload(m, data):
        if data is None:
            return False
        try:
            o = wire.decode(data)
        except wire.Invalid:
            return False
        ko, km = o.known(), m.known()
        return o.type == m.type and all(ko.get(f) == km.get(f) for f in (1, 2, 3, 5, 6)) and list(o.body) == list(m.body)

    def check_token_sender(self, c, rec, p, senders, to):
        if len(senders) != 1:
            self.violation("sender-field-count-%d:%s%s" % (len(senders), p.kind(), to),
                           "a routed frame carries %d SENDER fields" % len(senders), {"frame": repr(rec)})
        elif senders[0] != p.true_sender:
            cls = "forged-sender-delivered" if (p.forged is not None and senders[0] == p.forged) else "wrong-sender"
            self.violation("%s:%s:%s%s" % (cls, p.kind(), p.forge, to),
                           "frame written by %s arrived at %s with SENDER %s" % (
                               p.true_sender.decode("latin1"), (c.unique or b"?").decode("latin1"),
                               senders[0].decode("latin1")), {"frame": repr(rec)})

    def inspect_third_party(self, c, rec, op, senders, to):
        """A frame without token read by an eavesdropper or a monitor: either bus-originated traffic for somebody, or
        a call some connection made to the driver (barriers, AddMatch, Hello, ... and the driver probes, whose fixed
        arguments leave no room for a token: those are attributed by (true sender, serial))."""
        m = rec.msg
        role = c.role
        if senders == [BUS]:
            self.part.count("bus-frames-checked")
            return
        if len(senders) != 1:
            self.violation("sender-field-count-%d:driver-%s%s" % (len(senders), TYPE_NAME.get(m.type, "other"), to),
                           "a %s saw a client frame with %d SENDER fields (op %s)" % (role, len(senders), op), {"frame": repr(rec)})
            return
        claimed = senders[0]
        p = self.by_serial.get((claimed, m.serial))
        if p is not None and self.same_payload(m, p.data):
            p.receivers.append(c)
            self.part.count("driver-probes-seen-by:" + role)
            if p.junk or p.container:
                self.part.count("junk-driver-probes-seen-by:" + role)
            return
        # ordinary harness traffic towards the driver: the claimed sender is a connection of this history that really
        # wrote this payload under this serial
        conn = self.byname.get(claimed)
        if conn is not None and self.same_payload(m, self.sent_lookup(conn, m.serial)):
            self.part.count("harness-calls-seen-by:" + role)
            return
        for q in self.serial_index.get(m.serial, ()):
            if q.true_sender != claimed and self.same_payload(m, q.data):
                cls = "forged-sender-delivered" if q.forged == claimed else "wrong-sender"
                self.violation("%s:%s:%s%s" % (cls, q.kind(), q.forge, to),
                               "a %s saw the frame written by %s with SENDER %s"
                               % (role, q.true_sender.decode("latin1"), claimed.decode("latin1")), {"frame": repr(rec)})
                return
        if claimed == NOT_ACTIVE and m.type == 1 and role == "monitor":
            # a monitor is shown a frame before the driver handles it: a Hello (or anything written before Hello) still carries
            # the bus's placeholder there
            self.part.count("prehello-frames-seen-by-" + role)
            return
        if claimed == NOT_ACTIVE:
            # an eavesdropper gets its copy through the ordinary routing, after the driver has handled the call: by then the
            # writer of a Hello has its unique name (and nothing else written before Hello is routed at all), so the
            # placeholder is a SENDER that names no connection
            self.violation("placeholder-sender-delivered:driver-%s:to-%s" % (TYPE_NAME.get(m.type, "other"), role),
                           "a %s saw a frame (member %r, serial %d) whose SENDER is the bus's placeholder %s, which is neither the "
                           "unique name of the connection that wrote it nor org.freedesktop.DBus (op %s)"
                           % (role, m.known().get(3), m.serial, claimed.decode("latin1"), op), {"frame": repr(rec)})
            return
        self.violation("wrong-sender:driver-%s%s" % (TYPE_NAME.get(m.type, "other"), to),
                       "a %s saw a frame with SENDER %s serial %d that no connection of this history wrote (op %s)"
                       % (role, claimed.decode("latin1"), m.serial, op), {"frame": repr(rec)})

    @staticmethod
    def describe(m):
        k = m.known()
        if m.type == 3:
            return "ERROR %s" % (k.get(4) or b"?").decode("latin1")
        if m.type == 2:
            return "METHOD_RETURN"
        return "signal %s" % (k.get(3) or b"?").decode("latin1")

    def check_minted(self, op):
        """Names announced by the bus vs names handed out by Hello replies."""
        for name, n in self.minted.items():
            if n > 1 and name not in self.minted_checked:
                self.minted_checked.add(name)
                self.violation("unique-name-minted-twice", "NameOwnerChanged announced the new unique name %s %d times"
                               % (name.decode("latin1"), n))
        extra = [n for n in self.minted if n not in self.ever and n not in self.minted_checked]
        if len(extra) > self.unread_hellos:
            for n in extra:
                self.minted_checked.add(n)
            self.violation("name-minted-without-first-hello:%s" % op,
                           "the bus announced unique name(s) %r that no first Hello of this history obtained"
                           % [n.decode("latin1") for n in extra[:4]])


# ======================================================================================= probe sessions

class Session(Base):
    MODE = "probes"

    def __init__(self, b, rundir, rng, part, sid, nprobes):
        Base.__init__(self, b, rundir, rng, part, sid)
        self.nprobes = self.n = nprobes
        self.ops = 0
        self.owners = {}          # well-known name -> client
        self.dead = []            # unique names of departed connections
        self.nsent = 0

    def everyone(self):
        return [self.obs] + self.eaves + self.clients

    def add_eavesdropper(self, rule):
        c = self.connect_registered("plain", "eavesdropper")
        if c is None:
            raise RuntimeError("eavesdropper could not register")
        r = c.bus_call(b"AddMatch", b"s", [rule])
        if r.msg.type != 2:
            raise RuntimeError("AddMatch(%r) refused: %r" % (rule, r))
        c.role = "eavesdropper"
        self.eaves.append(c)
        self.step("third party %s: AddMatch %s" % (c.unique.decode(), rule.decode()))

    def add_monitor(self):
        c = self.connect_registered("plain", "monitor")
        if c is None:
            raise RuntimeError("monitor could not register")
        r = c.call(BUS, BUS_PATH, b"org.freedesktop.DBus.Monitoring", b"BecomeMonitor", b"asu", [[], 0])
        if r.msg.type != 2:
            raise RuntimeError("BecomeMonitor refused: %r" % (r,))
        c.role = "monitor"
        self.wait_gone(c.unique)       # a monitor gives up its unique name
        self.monitors.append(c)
        self.step("third party %s: BecomeMonitor([], 0)" % c.unique.decode())

    def drain_monitors(self, op):
        """Bound every monitor's stream with an end-marker signal written by the observer AFTER all barriers of the
        step, then inspect everything the monitors were shown."""
        if not self.monitors:
            return
        token = self.new_token()
        self.tokens[token] = Probe(token, self.obs.unique, 4, "marker", "none", None, 0, False)
        self.obs.signal(b"/com/verif/marker", b"com.verif.Marker", b"End", b"s", [token])
        self.obs.barrier()
        for mon in self.monitors:
            pos = getattr(mon, "insp", 0)
            while True:
                if any(r.msg.type == 4 and r.msg.body and r.msg.body[0] == token for r in mon.log[pos:]):
                    break
                pos = len(mon.log)
                mon.recv(timeout=client.WATCHDOG)
            self.inspect_new(mon, op)
        self.inspect_new(self.obs, op)

    def add_client(self, variant="plain", how="connect"):
        c = self.connect_registered(variant, how)
        if c is None:
            return None
        rule = self.rng.choice(LISTEN_RULES)
        if rule is not None:
            c.bus_call(b"AddMatch", b"s", [rule])
        if self.rng.random() < 0.3 and self.clients:
            c.bus_call(b"AddMatch", b"s", [b"sender='" + self.rng.choice(self.clients).unique + b"'"])
        free = [w for w in WELL if w not in self.owners]
        if free and self.rng.random() < 0.6:
            w = self.rng.choice(free)
            r = c.bus_call(b"RequestName", b"su", [w, 4])
            if r.msg.type == 2 and r.msg.body[0] == 1:
                self.owners[w] = c
        self.clients.append(c)
        return c

    def start(self):
        self.start_daemon()
        self.obs = self.connect_registered()
        if self.obs is None:
            raise RuntimeError("observer could not register")
        self.obs.bus_call(b"AddMatch", b"s", [b"type='signal'"])
        # third parties: they are shown traffic that is not addressed to them
        self.add_eavesdropper(b"eavesdrop='true'")
        if self.rng.random() < 0.4:
            self.add_eavesdropper(self.rng.choice([b"eavesdrop='true',type='method_call'", b"eavesdrop='true',type='signal'",
                                                   b"eavesdrop='true',destination='org.freedesktop.DBus'",
                                                   b"eavesdrop='true',type='error'"]))
        self.add_monitor()
        if self.rng.random() < 0.25:
            self.add_monitor()
        for _ in range(self.rng.randint(4, 6)):
            self.add_client(self.rng.choice(["plain", "plain", "forged", "big-endian"]))
        self.collect(None, "setup")

    def collect(self, first, op, extra=()):
        """Barrier of the sender, then of everybody; then inspect every frame anybody read."""
        if first is not None and first in self.clients:
            first.barrier()
        for c in self.everyone():
            c.barrier()
        for c in self.everyone() + list(extra):
            self.inspect_new(c, op)
        self.drain_monitors(op)
        self.check_minted(op)

    # -- building forged messages -----------------------------------------------------
    def pick_forgery(self, s):
        rng = self.rng
        r = rng.random()
        others = [c for c in self.everyone() if c is not s]
        if r < 0.12:
            return "none", None
        if r < 0.37:
            return "other-unique", rng.choice(others).unique
        if r < 0.50:
            return "bus-name", BUS
        if r < 0.62:
            owned_by_others = [w for w, c in self.owners.items() if c is not s]
            if owned_by_others:
                return "well-known-of-other", rng.choice(owned_by_others)
            return "well-known-unowned", UNOWNED
        if r < 0.70:
            return "well-known-unowned", UNOWNED
        if r < 0.78 and self.dead:
            return "departed-unique", rng.choice(self.dead)
        if r < 0.84:
            return "own-unique", s.unique
        if r < 0.88:
            return "not-active-yet", NOT_ACTIVE
        for _ in range(20):
            n = gen.rand_busname(rng)
            if wire.valid_bus_name(n) and b"." in n[1:]:
                return "random-valid-name", n
        return "random-valid-name", b":77.77"

    def forge(self, s, mtype, token, dest=None, path=None, iface=None, member=None, reply_serial=None, error_name=None,
              flags=0, in_member=False, sig=None, args=None, forgery=None, registered=True, destkind="?"):
        """Build a frame carrying token, a forged SENDER and junk fields; registers the probe.
        Returns (serial, bytes, Probe)."""
        rng = self.rng
        fk, fv = forgery if forgery is not None else self.pick_forgery(s)
        nj = rng.choice([0, 1, 2, 4])
        container = rng.random() < 0.35
        junk = self.junk_fields(nj, container)
        if in_member and mtype in (1, 4):
            member = token
            bsig, body = (sig or b""), list(args or [])
        else:
            bsig, body = b"s" + (sig or b""), [token] + list(args or [])
        serial = s.next_serial()
        for attempt in (0, 1):
            f = []
            if path is not None:
                f.append((1, Variant(b"o", path)))
            if iface is not None:
                f.append((2, Variant(b"s", iface)))
            if member is not None:
                f.append((3, Variant(b"s", member)))
            if error_name is not None:
                f.append((4, Variant(b"s", error_name)))
            if reply_serial is not None:
                f.append((5, Variant(b"u", reply_serial)))
            if dest is not None:
                f.append((6, Variant(b"s", dest)))
            if fv is not None:
                f.append((7, Variant(b"s", fv)))
            if bsig:
                f.append((8, Variant(b"g", bsig)))
            f += junk
            rng.shuffle(f)
            data = wire.encode_message(mtype, f, bsig, body, serial=serial, flags=flags,
                                       order="B" if rng.random() < 0.2 else "l", add_signature=False)
            v = wire.validate(data)
            if v.kind == wire.VALID:
                break
            junk, container = [], False     # the generator must only emit frames the specification allows
            self.part.count("junk-dropped-not-valid")
        if v.kind != wire.VALID:
            raise RuntimeError("generator produced a frame the oracle does not accept: %r" % (v,))
        p = Probe(token, s.unique, mtype, destkind, fk, fv, sum(1 for c_, _ in junk if c_ > 10),
                  any(c_ == 10 for c_, _ in junk), registered)
        self.tokens[token] = p
        return serial, data, p

    def send(self, s, data, serial):
        rng = self.rng
        chunks = None
        if rng.random() < 0.2:
            chunks = []
            left = len(data)
            while left > 0:
                n = rng.choice([1, 3, 7, 16, 40, left])
                chunks.append(n)
                left -= n
        s.send_msg(data, serial, chunks=chunks)
        self.nsent += 1

    def log_probe(self, s, serial, p, dest, note=""):
        self.step("probe %s from=%s serial=%d token=%s dest=%s forged-SENDER=%s (%s) unknown-fields=%d container-instance=%s%s" % (
            p.kind(), (s.unique or b"<unregistered>").decode("latin1"), serial, p.token.decode(),
            None if dest is None else dest.decode("latin1"), None if p.forged is None else p.forged.decode("latin1"),
            p.forge, p.junk, p.container, note))

    def account(self, p, op):
        part = self.part
        n = sum(1 for c in p.receivers if getattr(c, "role", None) is None)
        part.count("probes")
        part.count("probe:" + p.kind())
        part.sig(op, p.mtype, p.destkind, p.forge, min(p.junk, 2), p.container, n > 0)
        for role in set(getattr(c, "role", None) for c in p.receivers) - {None}:
            part.count("probes-seen-by:" + role)
            if p.junk or p.container:
                part.count("junk-probes-seen-by:" + role)
        if n:
            part.count("received:" + TYPE_NAME[p.mtype])
            if p.forged is not None and p.forged != p.true_sender:
                part.count("forged-sender-probes-received")
            if p.junk:
                part.count("unknown-field-probes-received")
            if p.container:
                part.count("container-field-probes-received")
        if p.forged is not None:
            part.count("forged-sender-probes-sent")

    # -- operations ------------------------------------------------------------------------
    def op_probe(self):
        rng = self.rng
        s = rng.choice(self.clients)
        kind = rng.choice(["signal-bcast"] * 6 + ["signal-unique"] * 2 + ["signal-well", "call-unique", "call-unique",
                          "call-well", "call-driver", "call-driver", "call-nodest", "signal-driver", "reply", "reply",
                          "reply", "call-unowned", "driver-effect"])
        if kind == "reply":
            return self.op_call_and_reply(s)
        if kind == "driver-effect":
            return self.op_driver_effect(s)
        token = self.new_token()
        others = [c for c in self.clients if c is not s]
        in_member = rng.random() < 0.35
        path, iface, member = rng.choice(PATHS), rng.choice(IFACES), rng.choice(MEMBERS)
        sig, args = b"", []
        if rng.random() < 0.4:
            sig, args = b"su", [rng.choice([b"", b"x", s.unique, BUS]), rng.getrandbits(32)]
        dest = None
        if kind == "signal-bcast":
            mtype, destkind = 4, "broadcast"
        elif kind == "signal-unique":
            mtype, destkind, dest = 4, "unique", rng.choice(others + [s]).unique
        elif kind == "signal-well":
            mtype, destkind = 4, "well-known"
            dest = rng.choice(list(self.owners) or [UNOWNED])
        elif kind == "signal-driver":
            mtype, destkind, dest = 4, "driver", BUS
        elif kind == "call-unique":
            mtype, destkind, dest = 1, "unique", rng.choice(others + [s]).unique
        elif kind == "call-well":
            mtype, destkind = 1, "well-known"
            dest = rng.choice(list(self.owners) or [UNOWNED])
        elif kind == "call-unowned":
            mtype, destkind = 1, "no-owner"
            dest = rng.choice([UNOWNED] + self.dead[-3:])
        elif kind == "call-nodest":
            mtype, destkind = 1, "no-destination"
            iface, member = rng.choice([(b"org.freedesktop.DBus.Peer", b"Ping"), (b"org.freedesktop.DBus.Peer", b"GetMachineId"),
                                        (b"com.verif.P", b"Foo"), (None, b"Bar")])
            in_member = False
        else:   # call-driver
            mtype, destkind, dest = 1, "driver", BUS
            member, dsig, dargs = rng.choice(DRIVER_CALLS)
            path, iface = BUS_PATH, rng.choice([BUS, BUS, None])
            # the token cannot live in a driver call with fixed arguments (it only names the probe in the log); what is
            # inspected are the driver's answers, which are bus-originated frames
            serial, data, p = self.forge_driver_call(s, token, member, dsig, dargs, iface)
            self.cur_forged = p.forged if p.forged != s.unique else None
            self.send(s, data, serial)
            self.log_probe(s, serial, p, BUS, " member=%s" % member.decode())
            self.collect(s, "call-to-driver")
            self.cur_forged = None
            p.receivers = []
            self.part.count("probes")
            self.part.count("probe:" + p.kind())
            self.part.count("driver-answers-checked")
            if p.forged is not None:
                self.part.count("forged-sender-probes-sent")
            self.part.sig("driver-call", member, p.forge, min(p.junk, 2), p.container)
            return
        # calls to peers carry NO_REPLY_EXPECTED: the raw recipients never answer them (answers are probed by op 'reply')
        flags = 1 if mtype == 1 and destkind not in ("no-destination",) else 0
        if mtype == 1 and iface is not None and rng.random() < 0.3 and destkind != "no-destination":
            iface = None
        serial, data, p = self.forge(s, mtype, token, dest=dest, path=path, iface=iface, member=member, flags=flags,
                                     in_member=in_member, sig=sig, args=args, destkind=destkind)
        self.cur_forged = p.forged if p.forged != s.unique else None
        self.send(s, data, serial)
        self.log_probe(s, serial, p, dest, " path=%s interface=%s member=%s" % (
            path.decode(), None if iface is None else iface.decode(), (token if in_member else member).decode()))
        self.collect(s, "call-without-destination" if destkind == "no-destination" else "probe")
        self.cur_forged = None
        self.account(p, "probe")

    def forge_driver_call(self, s, token, member, dsig, dargs, iface):
        rng = self.rng
        fk, fv = self.pick_forgery(s)
        junk = self.junk_fields(rng.choice([0, 1, 2, 4]), rng.random() < 0.35)
        serial = s.next_serial()
        f = [(1, Variant(b"o", BUS_PATH)), (3, Variant(b"s", member)), (6, Variant(b"s", BUS))]
        if iface is not None:
            f.append((2, Variant(b"s", iface)))
        if fv is not None:
            f.append((7, Variant(b"s", fv)))
        if dsig:
            f.append((8, Variant(b"g", dsig)))
        f += junk
        rng.shuffle(f)
        data = wire.encode_message(1, f, dsig, dargs, serial=serial, order="B" if rng.random() < 0.2 else "l",
                                   add_signature=False)
        if wire.validate(data).kind != wire.VALID:
            raise RuntimeError("generator produced an invalid driver call")
        p = Probe(token, s.unique, 1, "driver", fk, fv, sum(1 for c_, _ in junk if c_ > 10), any(c_ == 10 for c_, _ in junk))
        self.tokens[token] = p
        p.data = data
        self.by_serial[(s.unique, serial)] = p
        self.serial_index.setdefault(serial, []).append(p)
        return serial, data, p

    def op_driver_effect(self, s):
        """RequestName / ReleaseName with junk in the call: NameOwnerChanged is broadcast, NameAcquired / NameLost unicast."""
        name = b"com.verif.Tmp%d" % self.ntok
        for member, dsig, dargs in ((b"RequestName", b"su", [name, 0]), (b"ReleaseName", b"s", [name])):
            token = self.new_token()
            serial, data, p = self.forge_driver_call(s, token, member, dsig, dargs, BUS)
            self.cur_forged = p.forged if p.forged != s.unique else None
            self.send(s, data, serial)
            self.log_probe(s, serial, p, BUS, " member=%s name=%s" % (member.decode(), name.decode()))
            self.collect(s, "call-to-driver")
            self.cur_forged = None
            self.part.count("probes")
            self.part.count("probe:call:driver-broadcasting")
            self.part.count("driver-answers-checked")
            self.part.sig("driver-effect", member, p.forge, min(p.junk, 2), p.container)

    def op_call_and_reply(self, s1):
        rng = self.rng
        others = [c for c in self.clients if c is not s1]
        if not others:
            return
        s2 = rng.choice(others)
        t1 = self.new_token()
        dest, destkind = s2.unique, "unique"
        mine = [w for w, c in self.owners.items() if c is s2]
        if mine and rng.random() < 0.4:
            dest, destkind = rng.choice(mine), "well-known"
        serial, data, p1 = self.forge(s1, 1, t1, dest=dest, path=rng.choice(PATHS), iface=rng.choice(IFACES),
                                      member=rng.choice(MEMBERS), flags=0, in_member=rng.random() < 0.3, destkind=destkind)
        self.cur_forged = p1.forged if p1.forged != s1.unique else None
        self.send(s1, data, serial)
        self.log_probe(s1, serial, p1, dest, " (expects an answer)")
        # the call as seen by s2
        s1.barrier()
        s2.barrier()
        got = [r for r in s2.log[getattr(s2, "insp", 0):] if self.find_token(r.msg) == t1]
        self.collect(s1, "probe")
        self.account(p1, "probe")
        if not got:
            self.part.count("call-not-seen-by-callee")
            self.cur_forged = None
            return
        call = got[0]
        mtype = rng.choice([2, 3])
        t2 = self.new_token()
        rdest, rdestkind = s1.unique, "unique"
        his = [w for w, c in self.owners.items() if c is s1]
        if his and rng.random() < 0.25:
            rdest, rdestkind = rng.choice(his), "well-known"
        serial2, data2, p2 = self.forge(s2, mtype, t2, dest=rdest, reply_serial=call.msg.serial,
                                        error_name=b"com.verif.Error.E" if mtype == 3 else None,
                                        destkind=rdestkind, **rng.choice([{}, {"sig": b"u", "args": [7]}]))
        self.cur_forged = p2.forged if p2.forged != s2.unique else None
        self.send(s2, data2, serial2)
        self.log_probe(s2, serial2, p2, rdest, " reply_serial=%d (genuine answer to %s)" % (call.msg.serial, t1.decode()))
        self.collect(s2, "probe")
        self.cur_forged = None
        self.account(p2, "reply")

    def op_connect(self):
        variant = self.rng.choice(["plain", "forged", "big-endian"])
        self.step("connect + Hello (%s)" % variant)
        c = self.add_client(variant, "connect")
        self.collect(c, "hello")
        self.part.sig("connect", variant)

    def op_second_hello(self):
        c = self.rng.choice(self.clients)
        variant = self.rng.choice(["plain", "forged", "big-endian"])
        self.step("second Hello (%s) on %s" % (variant, c.unique.decode()))
        before = c.unique
        r = self.hello(c, variant)
        c.unique = before
        self.part.count("op:second-hello")
        self.part.sig("second-hello", variant, r.msg.type)
        if r.msg.type != 3:
            self.violation("second-hello-accepted", "a repeated Hello on %s was answered with success: %r"
                           % (before.decode(), r.msg.body))
        self.collect(c, "second-hello")

    def wait_gone(self, u):
        target = (u, u, b"")
        while True:
            rec = self.obs.recv(timeout=client.WATCHDOG)
            m = rec.msg
            if m.type == 4 and m.known().get(3) == b"NameOwnerChanged" and m.known().get(7) == BUS and tuple(m.body) == target:
                return

    def op_disconnect(self):
        rng = self.rng
        if len(self.clients) <= 3:
            return self.op_connect()
        c = rng.choice(self.clients)
        how = rng.choice(["close", "close", "mid-frame", "after-unread-traffic"])
        self.step("abrupt disconnect of %s (%s)" % (c.unique.decode(), how))
        if how == "mid-frame":
            serial, data = c.build(4, path=b"/", iface=b"com.verif.P", member=b"Partial", sig=b"s", body=[b"x" * 40],
                                   sender=BUS)
            c.send_bytes(data[:rng.randint(1, len(data) - 1)])
        elif how == "after-unread-traffic":
            token = self.new_token()
            serial, data, p = self.forge(c, 4, token, path=b"/", iface=b"com.verif.P", member=b"Bye", destkind="broadcast")
            self.log_probe(c, serial, p, None, " (sender closes right after writing)")
            c.send_msg(data, serial)
        self.clients.remove(c)
        for w, o in list(self.owners.items()):
            if o is c:
                del self.owners[w]
        self.inspect_new(c, "disconnect")
        c.close()
        self.wait_gone(c.unique)
        self.dead.append(c.unique)
        self.part.count("op:disconnect")
        self.part.sig("disconnect", how)
        self.collect(None, "disconnect")
        if rng.random() < 0.6:
            self.step("reconnect + Hello")
            n = self.add_client(rng.choice(["plain", "forged"]), "reconnect")
            self.part.count("op:reconnect")
            self.collect(n, "hello")

    def op_prehello(self):
        """A connection that authenticated but never said Hello writes something else."""
        rng = self.rng
        u = client.Client(self.daemon.sock, self.clock)
        u.insp = 0
        u.auth()
        self.everyone_extra.append(u)
        kind = rng.choice(["signal-bcast", "signal-unique", "call-unique", "call-well", "call-driver", "call-nodest",
                           "return-unique", "signal-bcast", "call-unique"])
        token = self.new_token()
        victim = rng.choice(self.clients)
        forgery = rng.choice([("none", None), ("other-unique", victim.unique), ("other-unique", rng.choice(self.clients).unique),
                              ("bus-name", BUS), ("random-valid-name", b":1.%d" % rng.randint(0, 50))])
        kw = dict(path=rng.choice(PATHS), iface=rng.choice(IFACES), member=rng.choice(MEMBERS))
        if kind == "signal-bcast":
            mtype, dest, destkind = 4, None, "broadcast"
        elif kind == "signal-unique":
            mtype, dest, destkind = 4, victim.unique, "unique"
        elif kind == "call-unique":
            mtype, dest, destkind = 1, victim.unique, "unique"
        elif kind == "call-well":
            mtype, dest, destkind = 1, rng.choice(list(self.owners) or [UNOWNED]), "well-known"
        elif kind == "call-driver":
            mtype, dest, destkind = 1, BUS, "driver"
            kw = dict(path=BUS_PATH, iface=BUS, member=rng.choice([b"GetId", b"ListNames", b"RequestName", b"AddMatch"]))
        elif kind == "call-nodest":
            mtype, dest, destkind = 1, None, "no-destination"
            kw = dict(path=b"/", iface=b"org.freedesktop.DBus.Peer", member=b"Ping")
        else:
            mtype, dest, destkind = 2, victim.unique, "unique"
            kw = dict(reply_serial=rng.randint(1, max(1, victim.serial)))
        u.unique = None
        serial, data, p = self.forge(u, mtype, token, dest=dest, flags=1 if (mtype == 1 and destkind in ("unique", "well-known")) else 0,
                                     forgery=forgery, registered=False, destkind=destkind, **kw)
        self.cur_forged = p.forged
        self.log_probe(u, serial, p, dest, " BEFORE Hello")
        try:
            u.send_msg(data, serial)
        except client.Closed:
            pass
        # either the bus answers (driver / built-in handlers) or it drops the connection; both are prompt
        outcome = "?"
        try:
            while True:
                rec = u.recv(timeout=client.WATCHDOG)
                if rec.msg.type in (2, 3) and rec.msg.known().get(5) == serial:
                    outcome = "answered:" + ("error" if rec.msg.type == 3 else "return")
                    break
        except client.Closed:
            outcome = "disconnected"
        self.part.count("op:prehello")
        self.part.count("prehello:%s:%s" % (kind, outcome))
        self.part.sig("prehello", kind, forgery[0], outcome)
        self.step("  -> %s" % outcome)
        oplabel = "call-without-destination" if destkind == "no-destination" else "traffic-before-hello"
        self.collect(None, oplabel, extra=[u])
        self.cur_forged = None
        if p.receivers:
            pass    # already reported by inspect()
        if outcome != "disconnected" and rng.random() < 0.7:
            # the missing Hello arrives late: it is this connection's FIRST Hello and must work normally
            self.step("  late first Hello on the same connection")
            r = self.hello(u, "plain")
            if r.msg.type == 2 and r.msg.body:
                self.check_hello_name(r.msg.body[0], "late-hello")
                self.part.count("op:hello:late")
                self.everyone_extra.remove(u)
                self.clients.append(u)
                self.collect(u, "hello")
                return
            self.part.count("late-hello-refused")
        self.inspect_new(u, "traffic-before-hello")
        self.everyone_extra.remove(u)
        had_name = u.unique
        u.close()
        if had_name:
            self.wait_gone(had_name)

    def run(self):
        rng = self.rng
        self.start()
        while self.ops < self.nprobes:
            if not self.daemon.alive():
                self.violation("daemon-died", "the bus exited during the session")
                break
            r = rng.random()
            if r < 0.80:
                self.op_probe()
            elif r < 0.84 and len(self.clients) < 8:
                self.op_connect()
            elif r < 0.89:
                self.op_disconnect()
            elif r < 0.93:
                self.op_second_hello()
            else:
                self.op_prehello()
            self.ops += 1
        self.finish()


# ======================================================================================= connection cycles

class Cycles(Base):
    MODE = "cycles"
    NOC = b"type='signal',sender='org.freedesktop.DBus',interface='org.freedesktop.DBus',member='NameOwnerChanged'"

    def __init__(self, b, rundir, rng, part, sid, ncycles):
        Base.__init__(self, b, rundir, rng, part, sid)
        self.ncycles = self.n = ncycles
        self.done = 0

    def raw(self):
        c = client.Client(self.daemon.sock, self.clock)
        c.insp = 0
        return c

    def hello_bytes(self, c):
        return c.build(1, path=BUS_PATH, iface=BUS, member=b"Hello", dest=BUS)

    def sync(self):
        self.obs.barrier()
        self.inspect_new(self.obs, "cycles")
        for c in self.clients:
            self.inspect_new(c, "cycles")
        self.check_minted("cycles")

    def cycle(self, i):
        rng = self.rng
        v = rng.choice(["hello-close"] * 8 + ["hello-keep"] * 5 + ["no-hello", "no-hello", "no-auth", "double-hello", "double-hello",
                       "hello-unread", "prehello-junk", "prehello-junk", "hello-twice-later"])
        self.part.count("cycle:" + v)
        self.part.sig("cycle", v)
        if v == "no-auth":
            c = self.raw()
            if rng.random() < 0.5:
                c.send_bytes(b"\0AUTH EXT")
            c.close()
            return v
        c = self.raw()
        c.auth()
        if v == "no-hello":
            c.close()
            return v
        if v == "prehello-junk":
            serial, data = c.build(4, path=b"/", iface=b"com.verif.P", member=b"Early", sender=b":1.0")
            c.send_msg(data, serial)
            self.part.count("cycle:prehello-junk:" + ("disconnected" if c.wait_eof() else "kept"))
            self.inspect_new(c, "traffic-before-hello")
            c.close()
            return v
        if v == "hello-unread":
            serial, data = self.hello_bytes(c)
            c.send_msg(data, serial)
            self.unread_hellos += 1
            c.close()
            return v
        if v == "double-hello":
            s1, d1 = self.hello_bytes(c)
            s2, d2 = self.hello_bytes(c)
            c.send_msg(d1 + d2, s2)
            r1 = c.wait_reply(s1)
            r2 = c.wait_reply(s2)
            if r1.msg.type != 2 or not r1.msg.body:
                self.violation("first-hello-failed", "first of two pipelined Hellos failed: %r" % (r1,))
            else:
                c.unique = r1.msg.body[0]
                self.check_hello_name(c.unique, "pipelined")
            if r2.msg.type != 3:
                self.violation("second-hello-accepted", "the second of two pipelined Hellos succeeded: %r" % (r2.msg.body,))
            self.part.count("op:second-hello")
        else:
            r = self.hello(c, "plain")
            if r.msg.type != 2 or not r.msg.body:
                self.violation("first-hello-failed", "the first Hello of a connection failed: %r" % (r,))
                c.close()
                return v
            self.check_hello_name(r.msg.body[0], v)
        if v == "hello-twice-later":
            keep = c.unique
            r = self.hello(c, "plain")
            c.unique = keep
            self.part.count("op:second-hello")
            if r.msg.type != 3:
                self.violation("second-hello-accepted", "a repeated Hello succeeded: %r" % (r.msg.body,))
        self.inspect_new(c, "hello")
        if v == "hello-keep" or (v != "hello-close" and rng.random() < 0.5):
            self.clients.append(c)
            if len(self.clients) > 24:
                self.clients.pop(rng.randrange(len(self.clients))).close()
        else:
            c.close()
        return v

    def run(self):
        self.start_daemon()
        self.obs = self.connect_registered()
        self.obs.bus_call(b"AddMatch", b"s", [self.NOC])
        for i in range(self.ncycles):
            v = self.cycle(i)
            self.done += 1
            if len(self.steps) < 40:
                self.step("cycle %d: %s" % (i, v))
            if i % 64 == 63:
                self.sync()
                if not self.daemon.alive():
                    self.violation("daemon-died", "the bus exited during connection cycles")
                    break
        self.sync()
        self.part.count("cycles", self.done)
        self.part.counters["max-names-from-one-daemon"] = max(self.part.counters.get("max-names-from-one-daemon", 0), len(self.ever))
        self.steps.append("... %d cycles, %d names issued by this daemon" % (self.done, len(self.ever)))
        self.finish()


# ======================================================================================= orchestration

class RolloverCycles(Cycles):
    """Connection cycles on a bus whose unique-name counters (hook H5, DBUS_VERIF_NAME_COUNTER) start shortly before the
    minor number is used up: the names must go on being fresh - ':M.2147483647' is followed by a name never issued
    before - and the bus must get there without undefined behaviour (UBSan build)."""
    MODE = "cycles-rollover"
    INT_MAX = 2147483647

    def __init__(self, b, rundir, rng, part, sid, ncycles):
        Cycles.__init__(self, b, rundir, rng, part, sid, ncycles)
        major = rng.choice([1, 1, 2, 7, 1000, self.INT_MAX - 1, rng.randint(1, self.INT_MAX - 1)])
        # roughly half of the cycles issue a name: put the end of the minor number inside the run, at a random point
        self.first = (major, self.INT_MAX - rng.randint(0, max(1, ncycles // 3)))
        self.daemon_env = {"DBUS_VERIF_NAME_COUNTER": "%d.%d" % self.first}

    def check_hello_name(self, name, how):
        Cycles.check_hello_name(self, name, how)
        # the hook defines the counter's past: every name below the starting pair counts as handed out before this run
        try:
            mj, mn = [int(x) for x in name[1:].split(b".")]
        except (ValueError, AttributeError):
            return
        if (mj, mn) < self.first:
            self.violation("unique-name-from-the-range-the-counter-had-passed",
                           "Hello (%s) returned %s although the bus's name counter had already reached :%d.%d (hook H5): a name "
                           "of that range may have been given to an earlier connection" % (how, name.decode("latin1"), self.first[0], self.first[1]))

    def run(self):
        Cycles.run(self)
        majors = set()
        for nm in self.ever:
            mj = nm[1:].split(b".")[0]
            majors.add(mj)
        self.part.count("rollover-daemons")
        if (b"%d" % self.first[0]) in majors and len(majors) >= 2:
            self.part.count("rollover-daemons-that-passed-the-end-of-the-minor-number")
            self.part.sig("rollover", self.first[0] in (1, 2, 7, 1000, self.INT_MAX - 1), len(majors))
        if (b":%d.%d" % self.first) in self.ever:
            self.part.count("rollover-hook-took-effect")


def _make(mode, b, rundir, rng, part, sid, n):
    return {"probes": Session, "cycles": Cycles, "cycles-rollover": RolloverCycles}[mode](b, rundir, rng, part, sid, n)


def _run_one(b, rundir, seed, shard, i, part, mode, n):
    sid = shard * 100000 + i
    for attempt in (0, 1):
        d = os.path.join(rundir, "s%d-%d" % (i, attempt))
        sc = _make(mode, b, d, gen.rng_for(seed, PROP, shard, i), part, sid, n)
        try:
            sc.run()
            part.evaluations += (sc.ops if mode == "probes" else sc.done)
            part.count("sessions" if mode == "probes" else "cycle-daemons")
            return sc
        except (client.Timeout, client.Closed) as e:
            alive = sc.daemon.alive() if sc.daemon is not None else False
            try:
                sc.finish()
            except Exception:
                pass
            if attempt == 1:
                part.violation("%s:hang:%s" % (PROP, type(e).__name__),
                               "%s history hung twice (daemon alive=%s)" % (mode, alive), sc.witness())
            else:
                part.count("watchdog")
        finally:
            try:
                sc.finish()
            except Exception:
                pass
            shutil.rmtree(d, ignore_errors=True)
    return None


def _worker(args):
    seed, shard, jobs = args
    part = report.Part()
    b = build.build("asan", quiet=True)
    rundir = tempfile.mkdtemp(prefix="verif-c03-")
    try:
        for i, (mode, n) in enumerate(jobs):
            if mode == "sd-forward":
                for j in range(n):
                    try:
                        sd_forward_case(b, os.path.join(rundir, "sd%d" % j), gen.rng_for(seed, PROP, "sd", shard, j), part, shard * 1000 + j)
                    except (client.Closed, client.Timeout) as e:
                        part.inconclusive.append("sd-forward case aborted: %s" % type(e).__name__)
                continue
            sc = _run_one(b, rundir, seed, shard, i, part, mode, n)
            if sc is not None and shard in (0, 1, 4) and i == 0:
                part.sample({"scenario": sc.sid, "mode": mode, "steps": sc.steps[:12]})
    finally:
        shutil.rmtree(rundir, ignore_errors=True)
    if "max-names-from-one-daemon" in part.counters:
        part.extra_max = part.counters.pop("max-names-from-one-daemon")
    return part


def sd_forward_case(b, rundir, rng, part, cid):
    """Messages the bus builds itself and PARKS: with --systemd-activation, UpdateActivationEnvironment makes the bus send
    org.freedesktop.systemd1.Manager.SetEnvironment; while nobody owns org.freedesktop.systemd1 that call waits as a
    pending activation and is delivered later through the ordinary dispatch path.  Whoever then takes the name must
    see it as coming from org.freedesktop.DBus - also when the client whose request caused it has left meanwhile."""
    d = busproc.Daemon(b, rundir, busproc.make_config("@SOCK@"), name="sd", extra_args=["--systemd-activation"])
    wit = {"part": "sd-forward", "case": cid}
    try:
        if not d.started():
            part.inconclusive.append("sd-forward: daemon did not start: " + d.stderr_text()[-300:])
            return
        A = client.connect(d.sock)
        S = client.connect(d.sock)
        n = rng.randint(1, 3)
        env = [(b"VERIF_K%d" % i, b"v%d" % rng.randrange(100)) for i in range(n)]
        rep = A.bus_call(b"UpdateActivationEnvironment", b"a{ss}", [env])
        if rep.msg.type != 2:
            part.inconclusive.append("sd-forward: UpdateActivationEnvironment refused: %r" % (rep,))
            return
        leaves = rng.random() < 0.5
        if leaves:
            ua = A.unique
            A.close()
            S.bus_call(b"GetId")
        taker = S if rng.random() < 0.7 or leaves else A
        rep = taker.bus_call(b"RequestName", b"su", [b"org.freedesktop.systemd1", 0])
        taker.barrier()
        taker.barrier()
        got = [r for r in taker.log if r.msg.type == 1 and r.msg.known().get(3) == b"SetEnvironment"]
        part.count("sd-forward-cases")
        part.evaluations += 1
        part.sig("sd-forward", leaves, taker is A, len(got))
        if len(got) != 1:
            part.violation("%s:parked-bus-message-delivered-%d-times:SetEnvironment" % (PROP, len(got)),
                           "the SetEnvironment call the bus built for UpdateActivationEnvironment reached the new owner of "
                           "org.freedesktop.systemd1 %d times" % len(got), wit)
        for r in got:
            part.count("bus-frames-checked")
            if r.msg.known().get(7) != b"org.freedesktop.DBus":
                part.violation("%s:bus-originated-message-carries-client-sender:SetEnvironment" % PROP,
                               "a message built by the bus arrived with sender %r (requester %s)" %
                               (r.msg.known().get(7), "had left" if leaves else "still connected"), dict(wit, frame=repr(r)[:600]))
        for c in (A, S):
            try:
                c.close()
            except Exception:
                pass
    finally:
        d.stop()
        for cls, site, text in d.problems():
            part.violation("%s:%s:%s" % (PROP, cls, site), "daemon reported %s (sd-forward)" % cls, dict(wit, stderr=text[-2000:]))
        shutil.rmtree(rundir, ignore_errors=True)


def plan(tier, scale):
    """shard -> list of (mode, n)."""
    if tier == "quick":
        probes, per_session, cycles, cycle_daemons = int(6000 * scale), 375, int(2000 * scale), 4
    else:
        probes, per_session, cycles, cycle_daemons = int(60000 * scale), 375, int(20000 * scale), 1
    jobs = [[] for _ in range(16)]
    # the connection cycles first (the long single-daemon run of the thorough tier decides the wall time)
    for d in range(cycle_daemons):
        jobs[d].append(("cycles", max(10, cycles // cycle_daemons)))
    nsess = max(1, probes // per_session)
    per = max(10, probes // nsess)
    order = list(range(cycle_daemons, 16)) + list(range(cycle_daemons)) if tier == "quick" else list(range(1, 16))
    for k in range(nsess):
        jobs[order[k % len(order)]].append(("probes", per))
    # connection cycles across the end of the unique names' minor number (hook H5)
    nro = max(1, int((8 if tier == "quick" else 64) * scale))
    for k in range(nro):
        jobs[(5 + k) % 16].append(("cycles-rollover", 120 if tier == "quick" else 400))
    nsd = max(1, int((32 if tier == "quick" else 600) * scale))
    for sshard in range(min(8, nsd)):
        jobs[15 - sshard].append(("sd-forward", max(1, nsd // 8)))
    return jobs


def run(tier, seed, replay=None, scale=1.0):
    r = report.Run(PROP, tier)
    r.rule = RULE
    b = build.build("asan")
    r.builds.append(b.info())
    if replay:
        j = json.load(open(replay))
        w = j["witness"]
        sid = w["scenario"]
        shard, i = divmod(sid, 100000)
        mode = w.get("mode", "probes")
        n = w.get("n") or 375
        part = report.Part()
        rundir = tempfile.mkdtemp(prefix="verif-c03-")
        try:
            _run_one(b, rundir, j["seed"], shard, i, part, mode, n)
        finally:
            shutil.rmtree(rundir, ignore_errors=True)
        part.sig("replay", 0)
        part.counters.pop("max-names-from-one-daemon", None)
        r.merge(part)
        return r.finish()
    jobs = plan(tier, scale)
    most = 0
    for part in report.run_sharded(_worker, [(seed, s, jobs[s]) for s in range(16) if jobs[s]]):
        most = max(most, getattr(part, "extra_max", 0))
        r.merge(part)
    r.extra["max_names_issued_by_one_daemon"] = int(most)
    f = min(1.0, scale)

    def need(n):
        return max(1, int(n * f))
    r.require("probes", need(3000))
    r.require("token-frames-checked", need(3000))
    r.require("bus-frames-checked", need(5000))
    r.require("forged-sender-probes-received", need(1000))
    r.require("unknown-field-probes-received", need(800))
    r.require("container-field-probes-received", need(300))
    for t in ("call", "return", "error", "signal"):
        r.require("received:" + t, need(100))
    r.require("driver-answers-checked", need(200))
    for role in ("eavesdropper", "monitor"):
        r.require("third-party-frames:" + role, need(20000))
        r.require("junk-probes-seen-by:" + role, need(800))
        r.require("junk-driver-probes-seen-by:" + role, need(150))
    r.require("names-issued", need(1200))
    r.require("op:second-hello", need(40))
    r.require("op:prehello", need(40))
    r.require("op:disconnect", need(40))
    r.require("op:reconnect", need(20))
    r.require("sd-forward-cases", need(24))
    r.require("rollover-daemons-that-passed-the-end-of-the-minor-number", need(6))
    r.require("rollover-hook-took-effect", need(6))
    r.assumptions = ["which connections receive a probe is not judged here (C05/C07); only what arrives is",
                     "whether a connection that wrote before Hello is disconnected is recorded, not judged: the statement only "
                     "requires that nothing it wrote is routed",
                     "header fields the bus itself adds: none in this configuration (no containers), so every code > 9 is foreign",
                     "frames are attributed by a token chosen by the check, never by the SENDER they carry",
                     "a frame written before Hello that a MONITOR is shown must carry the bus's placeholder ':not.active.yet' "
                     "(the writer has no unique name); any ordinary client or eavesdropper receiving it is a violation"]
    return r.finish()
