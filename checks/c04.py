"""C04 - name ownership follows the specification's state machine."""
import collections
import json
import os
import shutil
import tempfile

from vf import build, busproc, client, gen, report, wire
from vf.models import names as nm

PROP = "C04"
RULE = ("histories of 10..60 steps over 2..5 connections and 1..3 well-known names: RequestName with all 8 flag "
        "combinations (+ undefined bits), ReleaseName, Hello of a new connection, abrupt disconnect of owner / waiter "
        "/ bystander, re-requests with other flags, invalid / unique / bus names; after EVERY step: reply code, the "
        "multiset of NameOwnerChanged/NameLost/NameAcquired per connection (addressee + arguments), requester's "
        "signals before its reply, and ListQueuedOwners/GetNameOwner/NameHasOwner/ListNames asked by a third party "
        "are compared with vf/models/names.py (spec transcription). distinct = (operation, decision-table row, "
        "queue shape before the step)")

NOC_RULE = b"type='signal',sender='org.freedesktop.DBus',interface='org.freedesktop.DBus',member='NameOwnerChanged'"
DEVIATIONS = ["queue-position:replace-existing-not-replaceable"]
NAMES = [b"com.example.A", b"com.example.B", b"org.verif.C-d"]
BAD_NAMES = [b"org.freedesktop.DBus", b":1.0", b":1.99", b"nodot", b"a..b", b".a.b", b"a.b.", b"1a.b", b"a.b c", b"",
             b"a." + b"x" * 254, "a.é".encode(), b"a.b/c"]


class Obs(object):
    """Signals a client saw in a step, as a Counter of tuples."""

    @staticmethod
    def of(recs):
        c = collections.Counter()
        other = []
        for r in recs:
            m = r.msg
            k = m.known()
            if m.type == 4 and k.get(7) == b"org.freedesktop.DBus" and k.get(2) == b"org.freedesktop.DBus":
                mem = k.get(3)
                if mem == b"NameOwnerChanged" and len(m.body) == 3:
                    c[("NameOwnerChanged", m.body[0], m.body[1], m.body[2])] += 1
                    continue
                if mem in (b"NameLost", b"NameAcquired") and len(m.body) == 1:
                    c[(mem.decode(), m.body[0])] += 1
                    continue
            other.append(r)
        return c, other


def _expected_per_client(events, clients, obs_unique):
    """events from the model -> dict unique -> Counter expected"""
    exp = {c.unique: collections.Counter() for c in clients}
    for e in events:
        if e[0] == "NameOwnerChanged":
            for c in clients:
                exp[c.unique][("NameOwnerChanged", e[1], e[2], e[3])] += 1
        else:
            if e[1] in exp:
                exp[e[1]][(e[0], e[2])] += 1
    return exp


class History(object):
    def __init__(self, b, rundir, rng, part, hid):
        self.b, self.rundir, self.rng, self.part, self.hid = b, rundir, rng, part, hid
        self.clock = client.Clock()
        self.steps = []       # human-readable operation log (the witness)
        self.model = nm.Names()
        self.clients = []
        self.daemon = None
        self.failed = False

    def witness(self, extra=None):
        w = {"history": self.hid, "steps": self.steps[-80:]}
        if extra:
            w.update(extra)
        return w

    def violation(self, key, what, extra=None):
        self.part.violation("%s:%s" % (PROP, key), what, self.witness(extra))

    def new_client(self, record=True):
        c = client.Client(self.daemon.sock, self.clock)
        c.auth()
        r = c.hello()
        if r.msg.type != 2:
            raise RuntimeError("Hello failed: %r" % r)
        c.bus_call(b"AddMatch", b"s", [NOC_RULE])
        return c

    def start(self, nclients):
        os.makedirs(self.rundir, exist_ok=True)
        self.trace = os.path.join(self.rundir, "trace-h%d" % self.hid)
        self.daemon = busproc.Daemon(self.b, self.rundir, busproc.make_config("@SOCK@"), name="h%d" % self.hid,
                                     env={"DBUS_VERIF_TRACE": self.trace})
        if not self.daemon.started():
            raise RuntimeError("daemon did not start: " + self.daemon.stderr_text()[-500:])
        self.obs = self.new_client()
        self.model.hello(self.obs.unique)
        for _ in range(nclients):
            c = self.new_client()
            self.model.hello(c.unique)
            self.clients.append(c)
        self.sync_all()
        for c in [self.obs] + self.clients:
            c.take_inbox()

    def everyone(self):
        return [self.obs] + self.clients

    def trim_trace(self):
        try:
            if os.path.getsize(self.trace) > 2000000:
                open(self.trace, "w").close()
        except OSError:
            pass

    def sync_all(self, skip=None):
        self.trim_trace()
        for c in self.everyone():
            if c is not skip:
                c.barrier()

    # -- comparison --------------------------------------------------------------------
    def compare_signals(self, expected_events, before_for=None, before_recs=None):
        exp = _expected_per_client(expected_events, self.everyone(), self.obs.unique)
        ok = True
        seen = {}
        for c in self.everyone():
            recs = c.take_inbox()
            if c is before_for:
                recs = before_recs + recs
            got, other = Obs.of(recs)
            seen[c.unique] = got
            for o in other:
                if o.msg.type in (2, 3):
                    continue   # replies to barriers never stay in inbox; defensive
            if got != exp[c.unique]:
                ok = False
        return ok, exp, seen

    def check_queries(self, names):
        diffs = []
        for n in names:
            r = self.obs.bus_call(b"ListQueuedOwners", b"s", [n])
            mq = self.model.queue(n)
            if r.msg.type == 2:
                got = list(r.msg.body[0])
            else:
                got = []
                if mq:
                    diffs.append(("ListQueuedOwners", n, "error %s" % r.msg.known().get(4), mq))
            if r.msg.type == 2 and got != mq:
                diffs.append(("ListQueuedOwners", n, got, mq))
            r = self.obs.bus_call(b"GetNameOwner", b"s", [n])
            mo = self.model.owner(n)
            if r.msg.type == 2:
                if r.msg.body[0] != mo:
                    diffs.append(("GetNameOwner", n, r.msg.body[0], mo))
            elif mo is not None:
                diffs.append(("GetNameOwner", n, "error", mo))
            r = self.obs.bus_call(b"NameHasOwner", b"s", [n])
            if r.msg.type != 2 or bool(r.msg.body[0]) != (mo is not None):
                diffs.append(("NameHasOwner", n, r.msg.body if r.msg.type == 2 else "error", mo is not None))
        fd = self.flag_diffs(names)
        if fd:
            diffs.append(("queue-flags(hook H1)", None, fd[0], fd[1]))
        r = self.obs.bus_call(b"ListNames")
        got = set(r.msg.body[0]) if r.msg.type == 2 else None
        want = self.model.all_names() | {b"org.freedesktop.DBus"}
        if got != want:
            diffs.append(("ListNames", None, sorted(got or []), sorted(want)))
        self.part.count("queries", 3 * len(names) + 1)
        return diffs

    def flag_diffs(self, names):
        """compare (connection, allow_replacement, do_not_queue) of every queue entry with the model, using the
        state dump the H1 hook appends after each dispatch (the obs.bus_call just before is the barrier)"""
        try:
            with open(self.trace) as fh:
                fh.seek(max(0, os.path.getsize(self.trace) - 20000))
                text = fh.read()
        except OSError:
            return None
        blocks = text.split("\nS ")
        state = None
        for blk in reversed(blocks):
            if "\nE " in blk:
                state = blk
                break
        if state is None:
            return None
        got = {}
        for ln in state.split("\n"):
            if ln.startswith("N ") and not ln.startswith("N :"):
                parts = ln.split()
                got[parts[1].encode()] = [(e.split("/")[0].encode(), e.split("/")[1] == "1", e.split("/")[2] == "1") for e in parts[2:]]
        self.part.count("flag-dumps-compared")
        for n in names:
            want = [(e[0], bool(e[1]), bool(e[2])) for e in self.model.q.get(n, [])]
            if got.get(n, []) != want:
                return (n.decode("latin1"), got.get(n, [])), want
        return None

    def observed_queues(self, names):
        out = {}
        for n in names:
            r = self.obs.bus_call(b"ListQueuedOwners", b"s", [n])
            out[n] = list(r.msg.body[0]) if r.msg.type == 2 else []
        return out

    # -- operations --------------------------------------------------------------------
    def op_request(self, c, name, flags):
        pre = self.model.clone()
        shape = pre.shape(name)
        self.steps.append("RequestName conn=%s name=%s flags=0x%x" % (c.unique.decode(), name.decode("latin1"), flags))
        serial = c.bus_call_async(b"RequestName", b"su", [name, flags])
        rep = c.wait_reply(serial)
        before = c.take_inbox()
        self.sync_all()
        self.part.count("op:RequestName")
        if wire.bus_name_reason(name) is not None or name[:1] == b":" or name == b"org.freedesktop.DBus":
            # must be refused, nothing changes
            self.part.sig("RequestName-invalid", wire.bus_name_reason(name) or "reserved", flags & 7)
            if rep.msg.type != 3:
                self.violation("invalid-name-accepted:%s" % (wire.bus_name_reason(name) or "reserved"),
                               "RequestName(%r) was not refused: %r" % (name, rep.msg.body))
            ok, exp, seen = self.compare_signals([], c, before)
            if not ok:
                self.violation("refused-request-had-effect", "signals after a refused RequestName", {"seen": repr(seen)})
            d = self.check_queries(self.active_names())
            if d:
                self.violation("refused-request-changed-state", "queries differ after refused RequestName: %r" % d[:3])
            return
        if rep.msg.type != 2:
            self.violation("request-error", "RequestName of a valid name failed: %s" % rep.msg.known().get(4))
            return
        code = rep.msg.body[0]
        tried = []
        for dev in [None] + DEVIATIONS:
            m = pre.clone()
            ecode, ev, row = m.request(c.unique, name, flags & 0xFFFFFFFF, deviation=dev)
            tried.append((dev, ecode, row))
            problems = []
            if code != ecode:
                problems.append("reply %d, model %d (%s)" % (code, ecode, row))
            self.model = m
            # signals (only compare once per deviation: inboxes are consumed, so collect first)
            if dev is None:
                recs = {cl.unique: cl.take_inbox() for cl in self.everyone()}
                recs[c.unique] = before + recs[c.unique]
                qdiff_names = self.active_names() | {name}
                observed_q = self.observed_queues(qdiff_names)
            exp = _expected_per_client(ev, self.everyone(), self.obs.unique)
            for cl in self.everyone():
                got, _ = Obs.of(recs[cl.unique])
                if got != exp[cl.unique]:
                    problems.append("signals at %s: got %r want %r" % (cl.unique.decode(), dict(got), dict(exp[cl.unique])))
            # requester's own signals must precede its reply
            gotb, _ = Obs.of(before)
            if not problems and exp[c.unique] - gotb:
                problems.append("ORDER")
            for n in qdiff_names:
                if observed_q[n] != m.queue(n):
                    problems.append("queue %s: got %r want %r" % (n.decode(), observed_q[n], m.queue(n)))
            if not problems:
                if dev is None:
                    self.part.sig("RequestName", row, shape, flags & 7)
                    self.part.count("row:" + row)
                else:
                    self.violation(dev, "RequestName behaves as the named deviation, not as specified (%s)" % row)
                d = self.check_queries(self.active_names())
                if d:
                    self.violation("queries-disagree", "query methods disagree with the state: %r" % d[:3])
                return
            if problems == ["ORDER"]:
                self.violation("signal-after-reply", "signals addressed to the requester arrived after its reply")
                return
            if dev is None:
                first_problems = problems
        # nothing explains it
        self.violation("request-differs:%s" % tried[0][2], "RequestName outcome differs from the specification: %s" % "; ".join(first_problems[:4]))
        self.resync(observed_q)

    def op_release(self, c, name):
        pre = self.model.clone()
        shape = pre.shape(name)
        self.steps.append("ReleaseName conn=%s name=%s" % (c.unique.decode(), name.decode("latin1")))
        serial = c.bus_call_async(b"ReleaseName", b"s", [name])
        rep = c.wait_reply(serial)
        before = c.take_inbox()
        self.sync_all()
        self.part.count("op:ReleaseName")
        if wire.bus_name_reason(name) is not None or name[:1] == b":" or name == b"org.freedesktop.DBus":
            self.part.sig("ReleaseName-invalid", wire.bus_name_reason(name) or "reserved")
            if rep.msg.type != 3:
                self.violation("invalid-name-released:%s" % (wire.bus_name_reason(name) or "reserved"),
                               "ReleaseName(%r) was not refused: %r" % (name, rep.msg.body))
            ok, exp, seen = self.compare_signals([], c, before)
            if not ok:
                self.violation("refused-release-had-effect", "signals after a refused ReleaseName", {"seen": repr(seen)})
            d = self.check_queries(self.active_names())
            if d:
                self.violation("refused-release-changed-state", "queries differ after refused ReleaseName: %r" % d[:3])
            return
        if rep.msg.type != 2:
            self.violation("release-error", "ReleaseName of a valid name failed: %s" % rep.msg.known().get(4))
            return
        ecode, ev, row = self.model.release(c.unique, name)
        problems = []
        if rep.msg.body[0] != ecode:
            problems.append("reply %d, model %d" % (rep.msg.body[0], ecode))
        ok, exp, seen = self.compare_signals(ev, c, before)
        if not ok:
            problems.append("signals: got %r want %r" % ({k.decode(): dict(v) for k, v in seen.items()}, {k.decode(): dict(v) for k, v in exp.items()}))
        gotb, _ = Obs.of(before)
        if ok and exp[c.unique] - gotb:
            self.violation("signal-after-reply", "signals addressed to the releaser arrived after its reply")
        d = self.check_queries(self.active_names() | {name})
        if d:
            problems.append("queries: %r" % d[:3])
        if problems:
            self.violation("release-differs:%s" % row, "ReleaseName outcome differs: %s" % "; ".join(problems[:3]))
            self.resync(self.observed_queues(self.active_names() | {name}))
        else:
            self.part.sig("ReleaseName", row, shape)
            self.part.count("row:" + row)

    def op_connect(self):
        self.steps.append("connect+Hello")
        c = client.Client(self.daemon.sock, self.clock)
        c.auth()
        r = c.hello()
        self.part.count("op:Hello")
        if r.msg.type != 2 or not r.msg.body or not r.msg.body[0].startswith(b":"):
            self.violation("hello-failed", "Hello did not return a unique name: %r" % r)
            return
        if r.msg.body[0] in self.model.conns or r.msg.body[0] in getattr(self, "ever", set()):
            self.violation("unique-name-reused", "Hello returned a unique name seen before: %r" % r.msg.body[0])
        ev = self.model.hello(c.unique)
        c.bus_call(b"AddMatch", b"s", [NOC_RULE])
        c.barrier()
        got, _ = Obs.of(c.take_inbox())
        if got != collections.Counter({("NameAcquired", c.unique): 1}):
            self.violation("hello-signals", "new connection saw %r, expected one NameAcquired of its unique name" % dict(got))
        self.sync_all()
        ok, exp, seen = self.compare_signals([ev[0]])
        if not ok:
            self.violation("hello-broadcast", "NameOwnerChanged for the new unique name differs: %r" % {k.decode(): dict(v) for k, v in seen.items()})
        self.clients.append(c)
        self.part.sig("Hello", len(self.clients))

    def op_second_hello(self, c):
        self.steps.append("second Hello conn=%s" % c.unique.decode())
        r = c.bus_call(b"Hello")
        self.part.count("op:Hello-again")
        if r.msg.type != 3:
            self.violation("second-hello-accepted", "a second Hello succeeded: %r" % r.msg.body)
        self.sync_all()
        ok, exp, seen = self.compare_signals([])
        if not ok:
            self.violation("second-hello-had-effect", "signals after a second Hello")
        self.part.sig("Hello-again", 1)

    def op_disconnect(self, c):
        role = "bystander"
        for n in self.model.names_of(c.unique):
            role = "owner" if self.model.owner(n) == c.unique else ("waiter" if role != "owner" else role)
        self.steps.append("disconnect conn=%s (%s)" % (c.unique.decode(), role))
        self.clients.remove(c)
        c.close()
        self.part.count("op:disconnect")
        ev = self.model.disconnect(c.unique)
        # wait until the observer has seen the unique name go away (bounded progress)
        target = ("NameOwnerChanged", c.unique, c.unique, b"")
        held = []
        try:
            while True:
                rec = self.obs.recv(timeout=client.WATCHDOG)
                held.append(rec)
                got, _ = Obs.of([rec])
                if target in got:
                    break
        except client.Timeout:
            self.obs.inbox = held + self.obs.inbox
            self.violation("disconnect-not-noticed", "no NameOwnerChanged for the unique name of a closed connection within the watchdog")
            self.failed = True
            return
        # unique name must be the last one released
        got_all, _ = Obs.of(held)
        self.obs.inbox = held + self.obs.inbox
        self.sync_all()
        exp_all = _expected_per_client(ev, self.everyone(), self.obs.unique)
        recs = {cl.unique: cl.take_inbox() for cl in self.everyone()}
        problems = []
        for cl in self.everyone():
            got, _ = Obs.of(recs[cl.unique])
            if got != exp_all[cl.unique]:
                problems.append("signals at %s: got %r want %r" % (cl.unique.decode(), dict(got), dict(exp_all[cl.unique])))
            # order: the unique-name NameOwnerChanged is the last NameOwnerChanged of this step
            nocs = [r for r in recs[cl.unique] if r.msg.type == 4 and r.msg.known().get(3) == b"NameOwnerChanged"]
            if nocs and target in exp_all[cl.unique] and nocs[-1].msg.body[0] != c.unique:
                problems.append("unique name not released last at %s" % cl.unique.decode())
        d = self.check_queries(self.active_names())
        if d:
            problems.append("queries: %r" % d[:3])
        if problems:
            self.violation("disconnect-differs:%s" % role, "disconnect outcome differs: %s" % "; ".join(problems[:3]))
            self.resync(self.observed_queues(self.active_names()))
        else:
            self.part.sig("disconnect", role, len(ev))
            self.part.count("row:disconnect-" + role)

    def resync(self, observed_q):
        """Adopt the observed queues (flags of known entries are kept) so later steps stay checkable."""
        for n, q in observed_q.items():
            old = {e[0]: e for e in self.model.q.get(n, [])}
            newq = [old.get(u, [u, False, False]) for u in q if u in self.model.conns]
            if newq:
                self.model.q[n] = newq
            else:
                self.model.q.pop(n, None)
        for cl in self.everyone():
            cl.take_inbox()
        self.part.count("resync")

    def active_names(self):
        return set(NAMES[:self.nnames]) | set(self.model.q)

    # -- driver ------------------------------------------------------------------------
    def run(self):
        rng = self.rng
        self.nnames = rng.choice([1, 1, 2, 3])
        self.start(rng.randint(2, 4))
        nsteps = rng.randint(10, 60)
        for _ in range(nsteps):
            if self.failed or not self.daemon.alive():
                break
            r = rng.random()
            name = rng.choice(NAMES[:self.nnames])
            if not self.clients:
                self.op_connect()
                continue
            c = rng.choice(self.clients)
            if r < 0.55:
                flags = rng.randint(0, 7)
                if rng.random() < 0.08:
                    flags |= rng.choice([0x8, 0x10, 0x80000000, 0xFFFFFFF8])
                # bias towards re-requests by owners / waiters
                if rng.random() < 0.35 and self.model.q.get(name):
                    u = rng.choice(self.model.q[name])[0]
                    cc = [x for x in self.clients if x.unique == u]
                    if cc:
                        c = cc[0]
                self.op_request(c, name, flags)
            elif r < 0.72:
                if rng.random() < 0.6 and self.model.q.get(name):
                    u = rng.choice(self.model.q[name])[0]
                    cc = [x for x in self.clients if x.unique == u]
                    if cc:
                        c = cc[0]
                self.op_release(c, name)
            elif r < 0.80:
                bad = rng.choice(BAD_NAMES + [c.unique, self.obs.unique])
                if rng.random() < 0.5:
                    self.op_request(c, bad, rng.randint(0, 7))
                else:
                    self.op_release(c, bad)
            elif r < 0.88 and len(self.clients) < 5:
                self.op_connect()
            elif r < 0.91:
                self.op_second_hello(c)
            else:
                # prefer disconnecting someone involved
                involved = [x for x in self.clients if self.model.names_of(x.unique)]
                if involved and rng.random() < 0.7:
                    c = rng.choice(involved)
                self.op_disconnect(c)
        self.finish()

    def finish(self):
        for c in self.everyone():
            c.close()
        st, err = self.daemon.stop()
        for cls, site, text in self.daemon.problems():
            self.part.violation("%s:%s:%s" % (PROP, cls, site), "daemon reported %s" % cls, self.witness({"stderr": text[-3000:]}))


def _worker(args):
    seed, shard, count, binfo = args
    part = report.Part()
    b = build.build("asan", quiet=True)
    rundir = tempfile.mkdtemp(prefix="verif-c04-")
    try:
        for i in range(count):
            hid = shard * 100000 + i
            rng = gen.rng_for(seed, PROP, shard, i)
            h = History(b, os.path.join(rundir, "h%d" % i), rng, part, hid)
            try:
                h.run()
                part.evaluations += len(h.steps)
                part.count("histories")
                if shard == 0 and i < 2:
                    part.sample({"history": hid, "steps": h.steps[:25]})
            except (client.Timeout, client.Closed) as e:
                # watchdog: inconclusive first, re-run once alone
                part.count("watchdog")
                try:
                    h.finish()
                except Exception:
                    pass
                rng2 = gen.rng_for(seed, PROP, shard, i)
                h2 = History(b, os.path.join(rundir, "h%d-retry" % i), rng2, part, hid)
                try:
                    h2.run()
                    part.evaluations += len(h2.steps)
                except (client.Timeout, client.Closed) as e2:
                    alive = h2.daemon.alive() if h2.daemon else False
                    try:
                        h2.finish()
                    except Exception:
                        pass
                    part.violation("%s:hang:%s" % (PROP, type(e2).__name__), "history hung twice (daemon alive=%s)" % alive, h2.witness())
            shutil.rmtree(os.path.join(rundir, "h%d" % i), ignore_errors=True)
    finally:
        shutil.rmtree(rundir, ignore_errors=True)
    return part


def run(tier, seed, replay=None, scale=1.0):
    r = report.Run(PROP, tier)
    r.rule = RULE
    b = build.build("asan")
    r.builds.append(b.info())
    if replay:
        w = json.load(open(replay))["witness"]
        hid = w["history"]
        shard, i = divmod(hid, 100000)
        part = report.Part()
        rundir = tempfile.mkdtemp(prefix="verif-c04-")
        try:
            h = History(b, rundir, gen.rng_for(json.load(open(replay))["seed"], PROP, shard, i), part, hid)
            h.run()
            part.evaluations += len(h.steps)
        finally:
            shutil.rmtree(rundir, ignore_errors=True)
        part.sig("replay", 0)
        r.merge(part)
        return r.finish()
    total = int((1200 if tier == "quick" else 16000) * scale)
    per = max(1, total // 16)
    for part in report.run_sharded(_worker, [(seed, i, per, None) for i in range(16)]):
        r.merge(part)
    rows = sorted(k for k in r.counters if k.startswith("row:"))
    r.extra["decision_rows_hit"] = {k[4:]: int(r.counters[k]) for k in rows}
    need = ["unowned", "already-owner", "replace", "enqueue", "exists", "queued-update", "release-primary-handover",
            "release-queued", "non-existent", "not-owner"]
    if scale >= 1:
        for n in need:
            r.require("row:" + n, 1)
    r.require("queries", 100)
    r.require("flag-dumps-compared", 100)
    r.assumptions = ["queue flags are compared with the model through the H1 state dump after every step (in addition to behaviour)",
                     "undefined RequestName flag bits are modelled as ignored",
                     "order of NameOwnerChanged/NameLost/NameAcquired among themselves is not judged (unspecified); unique name released last on disconnect is"]
    return r.finish()
