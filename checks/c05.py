"""C05 - unicast messages reach exactly the current owner, once, in order."""
import json
import os
import signal
import re
import shutil
import tempfile

from vf import build, busproc, client, gen, report, wire
from vf.models import unicast as um

PROP = "C05"
RULE = ("scenarios of 3..6 raw clients + one observer on a fresh ASan daemon, 2..4 rounds each: in a round every client's "
        "outgoing traffic (numbered tokens of all four message types - METHOD_RETURN/ERROR only as genuine answers to "
        "calls received in an earlier round - with and without NO_REPLY_EXPECTED / NO_AUTO_START, either byte order, to "
        "well-known names, unique names (live, departed, never issued), an unowned name and the driver (calls with known "
        "answers); recipients and bystanders hold plain match rules and (plain / fewreplies variants) eavesdrop='true' rules "
        "selecting traffic addressed to themselves and to others; interleaved with RequestName (all 8 flag combinations) / ReleaseName of the probed names by 2..3 "
        "candidate owners) is one byte stream that is cut into pieces; the pieces of all clients are written in a seeded "
        "interleaving, while some recipients do not read at all during the round (variants: large payloads so that the "
        "bus-side queue really fills, max_outgoing_bytes small so that the bus refuses, max_replies_per_connection small) "
        "and senders / owners / queued candidates / bystanders close their sockets in mid-stream. After each round: "
        "wait for NameOwnerChanged of closed connections, two barrier passes over all survivors. Oracle "
        "(vf/models/unicast.py): owner = NameAcquired/NameLost in the RECIPIENT's own stream at the position of the "
        "delivery; type, fields 1..6,8,9 and body equal to what was sent; per (sender, recipient) send order; each token "
        "read at most once by any connection whatever rules it holds, a non-owner may read one copy only if it holds an "
        "eavesdrop rule selecting it (counted apart); addressed delivery once XOR errored once (REPLY_SERIAL = its serial), nothing only if sender / possible addressee closed "
        "in that round, or (not a call) the name was ownerless at some moment of the round; driver calls answered "
        "exactly once with the known answer and never shown to a client; every driver call of every survivor answered "
        "exactly once. distinct = (message type, flags&3, destination kind, outcome, ownership changes of the "
        "destination during the round (0/1/2+))")

BUS = b"org.freedesktop.DBus"
BUS_PATH = b"/org/freedesktop/DBus"
NOC_RULE = b"type='signal',sender='org.freedesktop.DBus',interface='org.freedesktop.DBus',member='NameOwnerChanged'"
NAMES = [b"com.verif.Svc", b"org.verif.Other-1"]
NOBODY = b"com.verif.Nobody"
IFACES = [b"com.verif.I", b"com.verif.I.Sub", None]
PATHS = [b"/", b"/com/verif/obj", b"/a/b/c"]
MEMBERS = [b"Do", b"Changed", b"Ping"]
PLAIN_RULES = [b"type='signal'", b"interface='com.verif.I'", b"type='method_call'", b"path='/com/verif/obj'",
               b"type='error'", b"type='method_return'", b"member='Do'"]
# eavesdrop rules select traffic addressed to their holder as well as to others (no destination key: dbus matches that
# key against the owner of the name, which would need the ownership model)
EAVES_RULES = [b"eavesdrop='true'", b"eavesdrop='true'", b"eavesdrop='true',type='method_call'", b"eavesdrop='true',type='signal'",
               b"eavesdrop='true',type='method_return'", b"eavesdrop='true',type='error'", b"eavesdrop='true',interface='com.verif.I'",
               b"eavesdrop='true',path='/com/verif/obj'", b"eavesdrop='true',member='Do'", b"type='signal',eavesdrop='true',member='Changed'"]


def _expect_body(pred, text):
    def f(m):
        try:
            ok = m.type == 2 and pred(m.body)
        except Exception:
            ok = False
        return None if ok else "%s, expected %s" % ((m.type, m.known().get(4), m.body[:2]), text)
    return f


def _expect_error(m):
    return None if m.type == 3 else "a METHOD_RETURN %r, expected an error" % (m.body[:2],)


class Scenario(object):
    def __init__(self, b, rundir, rng, part, sid):
        self.b, self.rundir, self.rng, self.part, self.sid = b, rundir, rng, part, sid
        self.clock = client.Clock()
        self.steps = []
        self.daemon = None
        self.obs = None
        self.clients = []          # all test connections, index = view idx, closed ones stay in the list
        self.tokens = []
        self.ntok = 0
        self.marks = []
        self.stopped = False
        self.bus_id = None
        self.config_text = ""

    # -- plumbing ---------------------------------------------------------------------
    def witness(self, extra=None):
        w = {"scenario": self.sid, "variant": getattr(self, "variant", "?"), "limits": getattr(self, "limits", {}),
             "steps": self.steps[-120:]}
        if extra:
            w.update(extra)
        return w

    def violation(self, key, what, extra=None):
        self.part.violation("%s:%s" % (PROP, key), what, self.witness(extra))

    def live(self):
        return [c for c in self.clients if c.view.closed_round is None]

    def finish(self):
        if self.stopped:
            return
        self.stopped = True
        for c in [self.obs] + self.clients:
            if c is not None:
                c.close()
        if self.daemon is not None:
            self.daemon.stop()
            for cls, site, text in self.daemon.problems():
                self.part.violation("%s:%s:%s" % (PROP, cls, site), "daemon reported %s" % cls,
                                    self.witness({"stderr": text[-3000:]}))

    def name_of(self, c):
        return "#%d(%s)" % (c.view.idx, c.unique.decode())

    # -- set-up -----------------------------------------------------------------------
    def start(self):
        rng = self.rng
        self.variant = rng.choice(["plain"] * 6 + ["bigq", "qfull", "qfull", "fewreplies"])
        self.limits = {}
        if self.variant == "qfull":
            self.limits["max_outgoing_bytes"] = rng.choice([4000, 20000, 60000])
        elif self.variant == "fewreplies":
            self.limits["max_replies_per_connection"] = rng.choice([1, 3, 8])
        self.config_text = busproc.make_config("@SOCK@", limits=self.limits)
        self.daemon = busproc.Daemon(self.b, self.rundir, self.config_text, name="s%d" % (self.sid % 100000))
        if not self.daemon.started():
            raise RuntimeError("daemon did not start: " + self.daemon.stderr_text()[-400:])
        self.obs = client.connect(self.daemon.sock, self.clock)
        self.obs.bus_call(b"AddMatch", b"s", [NOC_RULE])
        self.bus_id = self.obs.bus_call(b"GetId").msg.body[0]
        n = rng.randint(3, 6)
        for i in range(n):
            c = client.connect(self.daemon.sock, self.clock, label="c%d" % i)
            c.view = um.View(i, c.unique)
            c.mark = 0
            c.owed = []
            c.slow = False
            c.seq = 0
            c.owned = {c.unique}
            self.clients.append(c)
        self.names = NAMES[:rng.choice([1, 1, 2])]
        self.cands = {}
        for nm in self.names:
            self.cands[nm] = rng.sample(self.clients, rng.randint(2, min(3, n)))
        allc = set(c for cs in self.cands.values() for c in cs)
        self.senders = rng.sample(self.clients, rng.randint(1, min(3, n)))
        # match rules, held from set-up to the end: plain ones for anybody; eavesdrop='true' ones for recipients (they
        # select traffic addressed to the holder itself, which must still arrive once) and for bystanders (who are thereby
        # granted one copy of other people's traffic).  The queue-limit variants keep their volumes: no eavesdroppers there.
        eaves_ok = self.variant in ("plain", "fewreplies")
        for c in self.clients:
            texts = []
            if rng.random() < (0.6 if c not in allc else 0.35):
                texts.append(rng.choice(PLAIN_RULES))
            if eaves_ok and rng.random() < (0.45 if c in allc else 0.3):
                texts.append(rng.choice(EAVES_RULES))
                if rng.random() < 0.3:
                    texts.append(rng.choice(EAVES_RULES))
            for rule in texts:
                r = c.bus_call(b"AddMatch", b"s", [rule])
                if r.msg.type != 2:
                    raise RuntimeError("AddMatch(%r) refused: %r" % (rule, r))
                c.view.rules.append(um.parse_simple_rule(rule))
                self.steps.append("%s AddMatch %s" % (self.name_of(c), rule.decode()))
        # initial owners; the first candidate usually allows replacement so that hand-overs by replacement happen
        for nm in self.names:
            first = self.cands[nm][0]
            if rng.random() < 0.9:
                flags = rng.choice([1, 1, 1, 0, 5, 4])
                r = first.bus_call(b"RequestName", b"su", [nm, flags])
                first.view.requested.setdefault(nm, -1)
                self.steps.append("setup: %s RequestName %s flags=%d -> %r" % (self.name_of(first), nm.decode(), flags, r.msg.body[:1]))
            for other in self.cands[nm][1:]:
                if rng.random() < 0.4:
                    flags = rng.choice([0, 1, 2, 3])
                    r = other.bus_call(b"RequestName", b"su", [nm, flags])
                    other.view.requested.setdefault(nm, -1)
                    self.steps.append("setup: %s RequestName %s flags=%d -> %r" % (self.name_of(other), nm.decode(), flags, r.msg.body[:1]))
        slow_pool = list(allc) if self.variant in ("bigq", "qfull") else self.clients
        for c in slow_pool:
            if rng.random() < (0.8 if self.variant in ("bigq", "qfull") else 0.35):
                c.slow = True
        if self.variant in ("bigq", "qfull"):
            x = self.cands[self.names[0]][0]
            x.slow = True
            # mostly a pure slow recipient: a connection whose OWN bus-side queue is over max_outgoing_bytes also stops
            # getting the bus's error replies, which is a different regime (kept, but rarer)
            for c in [c for c in self.clients if c.slow and c in self.senders]:
                if len(self.senders) > 1 and rng.random() < 0.7:
                    self.senders.remove(c)
        self.steps.append("clients: " + ", ".join("%s%s%s" % (self.name_of(c), " slow-reader" if c.slow else "",
                                                               " sender" if c in self.senders else "") for c in self.clients))
        self.settle(-1, [])

    # -- building one client's stream for a round ------------------------------------------
    def new_tid(self):
        self.ntok += 1
        return b"K%d_%d" % (self.sid, self.ntok)

    def make_token(self, c, rnd):
        """Returns (bytes, Token) for the next probe of sender c."""
        rng = self.rng
        r = rng.random()
        tid = self.new_tid()
        others = [x for x in self.clients if x is not c]
        expect = None
        note = ""
        mtype = rng.choice([1, 1, 1, 4, 4])
        flags = 0
        if mtype == 1:
            flags = rng.choice([0, 0, 1, 1, 2, 3])
        elif rng.random() < 0.3:
            flags = rng.choice([1, 2, 3])      # the two flags mean nothing on a signal; they must still arrive
        if r < 0.55:
            dest, destkind = rng.choice(self.names), "well-known"
        elif r < 0.73:
            dest, destkind = rng.choice(others + [c]).unique, "unique"
        elif r < 0.80:
            dest, destkind = NOBODY, "no-owner"
        elif r < 0.84:
            dest, destkind = rng.choice([b":1.9999", b":77.1"]), "unique-never-issued"
        else:
            dest, destkind, mtype = BUS, "driver", 1
        order = "B" if rng.random() < 0.15 else "l"
        if destkind == "driver" and rng.random() < 0.3:
            # a SIGNAL addressed to the bus itself: the driver has nothing to do with it, it is not a broadcast either (it
            # names a destination), so nobody without an eavesdrop rule may see it and nobody answers it
            path, iface, member = rng.choice(PATHS), rng.choice(IFACES[:2]), rng.choice(MEMBERS)
            serial, data = c.build(4, path=path, iface=iface, member=member, dest=BUS, sig=b"s", body=[tid], order=order)
            c.seq += 1
            t = um.Token(tid, c.view.idx, c.seq, serial, 4, 0, BUS, "driver", rnd, wire.decode(data), None, " signal-to-the-bus")
            return data, t
        if destkind == "driver":
            live_u = self.obs.unique
            member, sig, body, expect = rng.choice([
                (b"GetId", b"", [], _expect_body(lambda b: b[0] == self.bus_id, "the bus id")),
                (b"NameHasOwner", b"s", [live_u], _expect_body(lambda b: b[0] == 1, "true")),
                (b"NameHasOwner", b"s", [NOBODY], _expect_body(lambda b: b[0] == 0, "false")),
                (b"GetNameOwner", b"s", [live_u], _expect_body(lambda b: b[0] == live_u, "the observer's unique name")),
                (b"GetNameOwner", b"s", [BUS], _expect_body(lambda b: b[0] == BUS, "org.freedesktop.DBus")),
                (b"GetNameOwner", b"s", [NOBODY], _expect_error),
                (b"NoSuchMethod_" + tid, b"", [], _expect_error),
                (b"ListNames", b"", [], _expect_body(lambda b: BUS in b[0] and live_u in b[0], "a list with the bus and the observer")),
            ])
            flags = rng.choice([0, 0, 2])
            serial, data = c.build(1, path=BUS_PATH, iface=rng.choice([BUS, BUS, None]), member=member, dest=BUS,
                                   sig=sig, body=body, flags=flags, order=order)
            note = " member=%s" % member.decode().split("_")[0]
        else:
            path, iface, member = rng.choice(PATHS), rng.choice(IFACES), rng.choice(MEMBERS)
            if mtype == 4 and iface is None:
                iface = b"com.verif.I"
            big = self.variant in ("bigq", "qfull") and destkind == "well-known"
            shape = rng.choice(["s", "s", "su", "member", "sas"]) if not big else "ss"
            if shape == "member":
                member, sig, body = tid, b"", []
            elif shape == "s":
                sig, body = b"s", [tid]
            elif shape == "su":
                sig, body = b"su", [tid, c.seq]
            elif shape == "sas":
                sig, body = b"sas", [tid, [b"a", b"", tid]]
            else:
                sig, body = b"ss", [tid, b"p" * rng.choice([1500, 2500, 3500])]
            serial, data = c.build(mtype, path=path, iface=iface, member=member, dest=dest, sig=sig, body=body,
                                   flags=flags, order=order)
            c.view.peer_serials.add(serial)
        c.seq += 1
        t = um.Token(tid, c.view.idx, c.seq, serial, mtype, flags, dest, destkind, rnd, wire.decode(data), expect, note)
        return data, t

    def make_answer(self, c, call, rnd):
        """A genuine METHOD_RETURN / ERROR for a call that c received in an earlier round."""
        rng = self.rng
        tid = self.new_tid()
        mtype = rng.choice([2, 3])
        caller = self.clients[call.sender]
        sig, body = rng.choice([(b"s", [tid]), (b"su", [tid, call.serial])])
        serial, data = c.build(mtype, dest=caller.unique, reply_serial=call.serial, sig=sig, body=body,
                               error_name=b"com.verif.Error.Failed" if mtype == 3 else None,
                               flags=rng.choice([0, 1]), order="B" if rng.random() < 0.15 else "l")
        c.view.peer_serials.add(serial)
        c.seq += 1
        t = um.Token(tid, c.view.idx, c.seq, serial, mtype, 0, caller.unique, "unique", rnd, wire.decode(data), None,
                     " answers=%s" % call.tid.decode())
        t.flags = wire.decode(data).flags
        return data, t

    def build_stream(self, c, rnd, ntok):
        """list of (bytes, Token or None, description)"""
        rng = self.rng
        items = []
        if c in self.senders:
            for _ in range(ntok):
                data, t = self.make_token(c, rnd)
                items.append((data, t, None))
        # answers to calls received earlier
        for call in list(c.owed):
            if rng.random() < 0.6:
                c.owed.remove(call)
                data, t = self.make_answer(c, call, rnd)
                items.insert(rng.randint(0, len(items)), (data, t, None))
        # tokens keep their relative order by construction (seq is assigned in generation order): re-number
        seqs = sorted(t.seq for _, t, _ in items if t is not None)
        for (d, t, _), s in zip([it for it in items if it[1] is not None], seqs):
            t.seq = s
        # ownership operations
        for nm, cs in self.cands.items():
            if c in cs:
                for _ in range(rng.choice([0, 1, 1, 2, 3])):
                    if rng.random() < 0.65:
                        flags = rng.choice([0, 1, 2, 3, 3, 2, 4, 5, 6, 7])
                        serial, data = c.build(1, path=BUS_PATH, iface=BUS, member=b"RequestName", dest=BUS, sig=b"su",
                                               body=[nm, flags])
                        c.view.requested.setdefault(nm, rnd)
                        desc = "RequestName %s flags=%d (serial %d)" % (nm.decode(), flags, serial)
                    else:
                        serial, data = c.build(1, path=BUS_PATH, iface=BUS, member=b"ReleaseName", dest=BUS, sig=b"s", body=[nm])
                        desc = "ReleaseName %s (serial %d)" % (nm.decode(), serial)
                    items.insert(rng.randint(0, len(items)), (data, None, desc))
        return items

    # -- one round --------------------------------------------------------------------------
    def round(self, rnd, ntok_total, closers):
        rng = self.rng
        live = self.live()
        streams = {}
        senders = [c for c in live if c in self.senders]
        for c in live:
            share = 0
            if c in senders:
                share = max(1, ntok_total // max(1, len(senders)) + rng.randint(-3, 3))
            serial_before = c.serial
            items = self.build_stream(c, rnd, share)
            if not items:
                continue
            pieces = []
            big = sum(len(d) for d, _, _ in items) > 20000
            blob = b"".join(d for d, _, _ in items)
            ends = []
            off = 0
            for d, t, desc in items:
                off += len(d)
                ends.append(off)
            pos = 0
            while pos < len(blob):
                r = rng.random()
                if r < 0.15:
                    n = rng.randint(1, 12)
                elif r < 0.75:
                    n = rng.randint(16, 400) if not big else rng.randint(200, 6000)
                else:
                    n = rng.randint(400, 4000) if not big else rng.randint(4000, 30000)
                pieces.append(blob[pos:pos + n])
                pos += n
            streams[c] = {"items": items, "ends": ends, "pieces": pieces, "next": 0, "written": 0,
                          "serial_before": serial_before}
        # seeded interleaving: bursts of 1..4 pieces of one client
        sched = []
        remaining = {c: len(s["pieces"]) for c, s in streams.items()}
        while remaining:
            c = rng.choice(sorted(remaining, key=lambda x: x.view.idx))
            for _ in range(min(remaining[c], rng.choice([1, 1, 2, 4]))):
                sched.append(("w", c))
                remaining[c] -= 1
            if not remaining[c]:
                del remaining[c]
        for c, drain in closers:
            sched.insert(rng.randint(0, len(sched)), ("close", c, drain))
        self.steps.append("round %d: %s" % (rnd, "; ".join(
            "%s writes %d msgs in %d pieces" % (self.name_of(c), len(s["items"]), len(s["pieces"])) for c, s in
            sorted(streams.items(), key=lambda kv: kv[0].view.idx))))
        for c, s in sorted(streams.items(), key=lambda kv: kv[0].view.idx):
            for d, t, desc in s["items"]:
                if t is None:
                    self.steps.append("  %s stream: %s" % (self.name_of(c), desc))
        closed_now = []
        for ev in sched:
            c = ev[1]
            if ev[0] == "close":
                if c.view.closed_round is not None:
                    continue
                if ev[2]:
                    c.pump()
                s = streams.get(c)
                done = 0 if s is None else sum(1 for e in s["ends"] if e <= s["written"])
                self.steps.append("  %s closes its socket (%s, after %d of %d messages of its round-%d stream)" % (
                    self.name_of(c), "read what had arrived" if ev[2] else "without reading", done,
                    0 if s is None else len(s["items"]), rnd))
                c.view.closed_round = rnd
                c.view.frames = [r.msg for r in c.log]
                c.close()
                closed_now.append(c)
                continue
            if c.view.closed_round is not None:
                continue
            s = streams[c]
            piece = s["pieces"][s["next"]]
            s["next"] += 1
            c.send_bytes(piece)
            s["written"] += len(piece)
            if not c.slow and rng.random() < 0.3:
                c.pump()
            if rng.random() < 0.12:
                o = rng.choice(self.clients)
                if not o.slow and o.view.closed_round is None:
                    o.pump()
        # which tokens were written completely?
        for c, s in streams.items():
            nfull = 0
            for (d, t, desc), e in zip(s["items"], s["ends"]):
                if e <= s["written"]:
                    nfull += 1
                    if t is not None:
                        self.tokens.append(t)
            # serials are handed out in generation order, which is not stream order: a survivor wrote all of them
            if c.view.closed_round is None:
                c.view.last_serial = c.serial
        for c in self.live():
            c.view.last_serial = c.serial
        self.settle(rnd, closed_now)

    def wait_gone(self, uniques):
        """read the observer's stream until the bus has announced the departure of every closed connection"""
        want = set(uniques)
        while want:
            rec = self.obs.recv(timeout=client.WATCHDOG)
            m = rec.msg
            if m.type == 4 and m.known().get(3) == b"NameOwnerChanged" and m.known().get(7) == BUS and len(m.body) == 3 \
                    and m.body[0] == m.body[1] and m.body[2] == b"":
                want.discard(m.body[0])

    def drain(self, c, idle=0.03):
        """read until nothing arrives for `idle` s.  Efficiency only (a connection whose bus-side queue is over
        max_outgoing_bytes gets no answer from the driver until it has read): no verdict depends on it."""
        while True:
            n = len(c.log)
            c.pump(timeout=idle)
            if len(c.log) == n or c.eof:
                return

    def barrier(self, c):
        """Driver round-trip that survives a dropped answer: ask again after a while.  Whether an earlier GetId was
        answered is judged afterwards from the log (answers to one connection are FIFO), never from this timeout."""
        for w in (1.5, 3.0, 6.0, 10.0):
            serial = c.bus_call_async(b"GetId")
            try:
                return c.wait_reply(serial, timeout=w, sender=BUS)
            except client.Timeout:
                self.part.count("barrier-asked-again")
        raise client.Timeout()

    def settle(self, rnd, closed_now):
        self.wait_gone([c.unique for c in closed_now])
        live = self.live()
        if "max_outgoing_bytes" in self.limits:
            for c in live:
                self.drain(c)
        for c in live:
            self.barrier(c)
        for c in live:
            self.barrier(c)
            c.view.last_serial = c.serial
        self.obs.barrier()
        self.obs.take_inbox()
        self.marks.append(len(self.obs.log))
        by_tid = {t.tid: t for t in self.tokens}
        for c in live:
            c.take_inbox()
            for rec in c.log[c.mark:]:
                m = rec.msg
                k = m.known()
                if k.get(7) == BUS:
                    if m.type == 4 and k.get(6) == c.unique and len(m.body) == 1:
                        if k.get(3) == b"NameAcquired":
                            c.owned.add(m.body[0])
                        elif k.get(3) == b"NameLost":
                            c.owned.discard(m.body[0])
                elif m.type == 1 and not (m.flags & 1):
                    tid = um.token_of(m, by_tid)
                    # only a call that was addressed to this connection is answered (an eavesdropped copy is not)
                    if tid is not None and by_tid[tid].destkind != "driver" and by_tid[tid].dest in c.owned \
                            and by_tid[tid] not in c.owed and not getattr(by_tid[tid], "answered", False):
                        c.owed.append(by_tid[tid])
            c.mark = len(c.log)

    def send_and_exit(self):
        """Disconnection of the sender: a fresh connection writes a burst (signal, call without and with reply
        expectation) to a live recipient's unique name in one write and closes its socket at once.  The sender has read
        everything the bus sent it and the bus has no reason to write to it, so neither side can see an error before
        the burst is read: every message must reach the recipient, in order, whether or not its sender still exists when
        it is dispatched."""
        rng = self.rng
        cands = [c for c in self.live() if not c.slow]
        if not cands:
            return
        for j in range(rng.randint(1, 3)):
            R = rng.choice(cands)
            try:
                S = client.connect(self.daemon.sock, self.clock)
            except (client.Closed, client.Timeout, OSError):
                return
            S.barrier()
            kinds = [rng.choice(["signal", "call-noreply", "call"]) for _ in range(rng.randint(2, 6))]
            if "call" not in kinds:
                kinds[rng.randrange(len(kinds))] = "call"
            tag = b"EXIT-%d-%d-" % (id(self) & 0xFFFF, j)
            burst = b""
            for n, k in enumerate(kinds):
                _, d = S.build(4 if k == "signal" else 1, path=b"/x", iface=b"com.example.Exit", member=b"M%d" % n, dest=R.unique,
                               sig=b"s", body=[tag + b"%d" % n], flags=1 if k == "call-noreply" else 0, order=rng.choice("lB"))
                burst += d
            stop = rng.random() < 0.5
            if stop:
                os.kill(self.daemon.pid, signal.SIGSTOP)      # both the burst and the EOF are there when the bus reads next
            try:
                S.send_bytes(burst)
                S.close()
            finally:
                if stop:
                    os.kill(self.daemon.pid, signal.SIGCONT)
            self.steps.append("send-and-exit: %s wrote %s to %s and closed%s" % (S.unique.decode(), kinds, R.unique.decode(),
                                                                                  " (daemon stopped meanwhile)" if stop else ""))
            self.wait_gone([S.unique])
            self.barrier(R)
            self.barrier(R)
            R.pump()
            got = []
            for rec in R.log:
                b = rec.msg.body
                if b and isinstance(b[0], bytes) and b[0].startswith(tag) and rec.msg.known().get(7) == S.unique:
                    got.append(int(b[0][len(tag):]))
            self.part.count("send-and-exit-bursts")
            self.part.count("send-and-exit-messages", len(kinds))
            if got != list(range(len(kinds))):
                missing = [kinds[n] for n in range(len(kinds)) if n not in got]
                self.violation("lost:sender-closed-after-writing:%s" % ",".join(sorted(set(missing)) or ["order"]),
                               "a connection wrote %s to %s in one write and closed its socket; the recipient read messages %r of "
                               "0..%d" % (kinds, R.unique.decode(), got, len(kinds) - 1))

    # -- the whole scenario -----------------------------------------------------------------
    def run(self):
        rng = self.rng
        self.start()
        nrounds = rng.randint(2, 4)
        total = rng.randint(110, 190)
        if self.variant in ("bigq", "qfull"):
            total = rng.randint(140, 220)
        # who closes, and when
        closers = {}
        if rng.random() < 0.45:
            for _ in range(rng.choice([1, 1, 2])):
                allc = [c for cs in self.cands.values() for c in cs]
                pool = rng.choice([allc, allc, self.senders, self.clients])
                c = rng.choice(pool)
                closers.setdefault(rng.randrange(nrounds), []).append((c, rng.random() < 0.5))
        for rnd in range(nrounds):
            if not self.daemon.alive():
                self.violation("daemon-died", "the bus exited during the scenario")
                break
            cl = [(c, d) for c, d in closers.get(rnd, []) if c.view.closed_round is None]
            if len(self.live()) - len(set(c for c, _ in cl)) < 1:
                cl = []
            share = total // nrounds if self.variant == "plain" or rnd > 0 else int(total * 0.6)
            self.round(rnd, share, cl)
        if self.daemon.alive() and not self.limits:
            self.send_and_exit()
        if self.daemon.alive() and self.limits and rng.random() < 0.6:
            # final departure: the connections that did not read (whose bus-side queues were full, so that calls to them
            # were refused) close their sockets while the callers live on.  A call that was refused must not be answered
            # a second time now (NoReply for a call the bus never delivered), a delivered one gets its NoReply once.
            slow = [c for c in self.live() if c.slow]
            if slow and len(self.live()) > len(slow):
                for c in slow:
                    c.view.closed_round = nrounds
                    c.view.frames = [r.msg for r in c.log]
                    c.close()
                self.steps.append("final departure: %s close their sockets" % ", ".join(self.name_of(c) for c in slow))
                self.settle(nrounds, slow)
                self.part.count("final-departures-of-non-reading-connections")
        for c in self.live():
            c.view.frames = [r.msg for r in c.log]
            c.view.last_serial = c.serial
        self.judge()
        self.finish()

    def judge(self):
        views = [c.view for c in self.clients]
        obs_frames = [r.msg for r in self.obs.log]
        # what the daemon itself logged about messages IT originated and then refused to queue (classification only)
        dropped = {}
        for m in re.finditer(r'Rejected: destination has a full message queue[^\n]*?type="(\w+)", sender="\(unset\)" \(\(bus\)\)'
                             r'[^\n]*? destination="(:[^"]+)"', self.daemon.stderr_text()):
            dropped.setdefault(m.group(2).encode(), set()).add(m.group(1))
        by_unique = {c.unique: c.view.idx for c in self.clients}
        unreliable = set(by_unique[u] for u, kinds in dropped.items() if "signal" in kinds and u in by_unique)
        over = set(by_unique[u] for u, kinds in dropped.items() if u in by_unique and kinds & {"error", "method_return"})
        if dropped:
            self.part.count("scenarios-in-which-the-bus-dropped-its-own-messages")
        V, stats, sigs = um.judge(self.tokens, views, obs_frames, self.marks, unreliable)
        part = self.part
        for k, n in stats.items():
            part.count(k, n)
        for s in sigs:
            part.sig(*s) if isinstance(s, tuple) else part.sig(s)
        part.count("tokens", len(self.tokens))
        part.count("scenarios:" + self.variant)
        if any(c.view.closed_round is not None for c in self.clients):
            part.count("scenarios-with-a-socket-closed-in-mid-stream")
        if any(c.slow for c in self.clients):
            part.count("scenarios-with-slow-readers")
        if any(r.get(b"eavesdrop") == b"true" for c in self.clients for r in c.view.rules):
            part.count("scenarios-with-eavesdrop-rules")
        seen = set()
        for key, what, t, vidx in V:
            extra = {}
            if vidx in over and (key.startswith("call-neither-delivered-nor-errored") or key.startswith("lost:")):
                key = "error-reply-dropped:sender-queue-over-max_outgoing_bytes:%s" % ("call" if t.mtype == 1 else "other")
                what += " - the daemon logged 'Rejected: destination has a full message queue' for an error reply it had " \
                        "originated for this sender"
            elif vidx in over and key == "driver-call-replies:0":
                key = "driver-reply-dropped:caller-queue-over-max_outgoing_bytes"
                what += " - the daemon logged 'Rejected: destination has a full message queue' for its own reply"
            if t is not None:
                extra["token"] = t.describe()
                extra["outcome"] = t.outcome
                extra["sent_fields"] = repr(t.msg.fields)
                extra["same_destination_same_round"] = [x.describe() + " -> " + str(x.outcome) for x in self.tokens
                                                        if x.dest == t.dest and x.round == t.round][:60]
            if (key, t.tid if t is not None else None) in seen:
                continue
            seen.add((key, t.tid if t is not None else None))
            self.violation(key, what + ("" if t is None else " [" + t.describe() + "]"), extra)


def _run_one(b, rundir, seed, shard, i, part):
    sid = shard * 100000 + i
    for attempt in (0, 1):
        d = os.path.join(rundir, "s%d-%d" % (i, attempt))
        sc = Scenario(b, d, gen.rng_for(seed, PROP, shard, i), part, sid)
        try:
            sc.run()
            part.evaluations += len(sc.tokens)
            part.count("scenarios")
            return sc
        except (client.Timeout, client.Closed, BrokenPipeError, ConnectionResetError) as e:
            alive = sc.daemon.alive() if sc.daemon is not None else False
            try:
                sc.finish()
            except Exception:
                pass
            if attempt == 1:
                part.violation("%s:hang:%s" % (PROP, type(e).__name__), "scenario hung twice (daemon alive=%s)" % alive, sc.witness())
            else:
                part.count("watchdog")
                part.count("watchdog:" + str(getattr(sc, "variant", "?")))
        finally:
            try:
                sc.finish()
            except Exception:
                pass
            shutil.rmtree(d, ignore_errors=True)
    return None


def _worker(args):
    seed, shard, count = args
    part = report.Part()
    b = build.build("asan", quiet=True)
    rundir = tempfile.mkdtemp(prefix="verif-c05-")
    try:
        for i in range(count):
            sc = _run_one(b, rundir, seed, shard, i, part)
            if sc is not None and shard == 0 and i < 2:
                part.sample({"scenario": sc.sid, "variant": sc.variant, "steps": sc.steps[:14],
                             "tokens": [t.describe() + " -> " + str(t.outcome) for t in sc.tokens[:10]]})
    finally:
        shutil.rmtree(rundir, ignore_errors=True)
    return part


def run(tier, seed, replay=None, scale=1.0):
    r = report.Run(PROP, tier)
    r.rule = RULE
    b = build.build("asan")
    r.builds.append(b.info())
    if replay:
        j = json.load(open(replay))
        sid = j["witness"]["scenario"]
        shard, i = divmod(sid, 100000)
        part = report.Part()
        rundir = tempfile.mkdtemp(prefix="verif-c05-")
        try:
            _run_one(b, rundir, j["seed"], shard, i, part)
        finally:
            shutil.rmtree(rundir, ignore_errors=True)
        part.sig("replay", 0)
        r.merge(part)
        return r.finish()
    total = int((320 if tier == "quick" else 8000) * scale)
    per = max(1, total // 16)
    for part in report.run_sharded(_worker, [(seed, i, per) for i in range(16)]):
        r.merge(part)
    f = min(1.0, scale * (1 if tier == "quick" else 25))

    def need(n):
        return max(1, int(n * f))
    r.require("tokens", need(20000))
    r.require("outcome:delivered", need(8000))
    r.require("outcome:errored", need(3000))
    r.require("outcome:driver:answered", need(1500))
    r.require("outcome:lost-excused:addressee-closed", need(20))
    r.require("outcome:lost-excused:sender-closed", need(5))
    for t in ("call", "return", "error", "signal"):
        r.require("delivered:" + t, need(300))
    r.require("errored:call", need(500))
    r.require("errored:signal", need(300))
    r.require("delivered-while-ownership-changed", need(2000))
    r.require("rounds-with-deliveries-split-by-handover", need(40))
    r.require("error:LimitsExceeded", need(50))
    r.require("eavesdropped-copies", need(2000))
    r.require("addressed-recipient-held-a-matching-eavesdrop-rule", need(1500))
    r.require("addressed-recipient-held-other-rules", need(1500))
    for k in ("call:no-reply", "call", "signal", "return", "error"):
        r.require("addressed+eavesdrop-rule:" + k, need(60))
    r.require("scenarios-with-slow-readers", need(100))
    r.require("send-and-exit-bursts", need(100))
    r.require("scenarios-with-a-socket-closed-in-mid-stream", need(60))
    r.require("driver-calls-counted", need(5000))
    r.assumptions = ["'owner at the moment the bus processes the message' is read off the recipient's own NameAcquired/NameLost "
                     "stream (same transaction as the ownership change), not off a bus-internal hook",
                     "a token may go unaccounted only in a round in which its sender or a connection that had asked for the "
                     "destination name (or owns the destination unique name) closed its socket",
                     "flags and serial of the delivered frame are not compared (the statement names body and header fields)",
                     "NoReply after the callee closed its socket is not counted as the 'error' of an undeliverable call",
                     "the arrival interleaving is chosen by the kernel and the daemon's poll loop from the seeded write "
                     "schedule; a replay repeats the schedule, not necessarily the interleaving"]
    return r.finish()
