"""C06 - security policy decisions equal the documented rule semantics.

Oracle: vf/models/policy.py (transcription of doc/dbus-daemon.1.xml.in).  Every probe is judged by
what is observable after an ordering barrier: delivery / absence at every client, AccessDenied at
the sender of a denied method call, RequestName reply and ListQueuedOwners, SASL outcome of a new
connection.  The model state (name registry, pending calls) is re-synchronised from observation
after every step; a disagreement is first tried against the NAMED DEVIATIONS below.
"""
import collections
import copy
import grp
import json
import os
import pwd
import shutil
import tempfile

from vf import build, busproc, client, gen, report
from vf.models import policy as pm

PROP = "C06"
DRIVER = pm.DRIVER
ACCESS_DENIED = b"org.freedesktop.DBus.Error.AccessDenied"

RULE = ("per scenario a generated configuration of 3..25 <allow>/<deny> rules over default / user / group / "
        "mandatory / at_console=\"false\" contexts (several <policy> elements per context, users and groups by name or "
        "numeric id, file order shuffled; rules with only boolean "
        "or modifier attributes, '*' wildcards, flipped / generalised copies shadowing earlier rules, word-boundary "
        "prefixes; in most configurations also 1..2 THEMED PAIRS of send rules whose outcome depends on who is about "
        "to receive the copy: <deny Q/> + <allow Q send_destination|send_destination_prefix=N/> and the mirrored "
        "<allow Q/> + <deny Q send_destination...=N/>, Q = interface / member / path / type / send_broadcast=false / "
        "nothing, N = a name that a broadcast listener, the eavesdropper or an addressee owns, the second rule in the "
        "same or a later context; with an eavesdropper often a late <allow eavesdrop=\"true\"/>), 3..5 raw clients "
        "under 2..3 uids (1..2 broadcast listeners with AddMatch type='signal', in a third of the scenarios an "
        "eavesdropper with AddMatch eavesdrop='true'; listeners and the eavesdropper own names too, and then also get "
        "calls and send replies), a registry with a connection owning several names, queued "
        "owners and names under prefixes, then 100..300 probes (40..55 % of them aimed at the qualifier of a themed pair): method_call / method_return / error / signal, "
        "optional PATH / INTERFACE / MEMBER present or absent, unicast to well-known or unique names, broadcasts to "
        "AddMatch listeners, calls to the driver on non-org.freedesktop.DBus interfaces, requested / unrequested / "
        "second replies / replies to NO_REPLY calls, 0 or 1 fds, RequestName with all flags, new connections of "
        "other users; half of the configurations are installed on the same daemon by reload (SIGHUP + ReloadConfig "
        "round-trip) with the clients staying connected. Every probe is compared with vf/models/policy.py after "
        "sender barrier + recipient barriers (delivery at exactly the predicted clients, exactly one AccessDenied "
        "for a denied call, unchanged owner queue after a denied RequestName). The sender's send rules are evaluated "
        "once PER PROSPECTIVE RECIPIENT with that connection's names (addressee, every broadcast recipient, every "
        "eavesdropper): a broadcast reaches exactly the listeners the sender may send it to, and an eavesdropper gets "
        "no copy of a message that the sender may not send to the eavesdropper. HARNESS TRAFFIC: the configuration "
        "ends with a fixed last <policy context=\"mandatory\"> holding <allow send_destination=\"org.freedesktop.DBus\" "
        "send_interface=\"org.freedesktop.DBus\"/> and <allow receive_sender=\"org.freedesktop.DBus\" "
        "receive_requested_reply=\"false\"/> (last match wins, so barriers / RequestName / AddMatch and every "
        "bus-originated message are always allowed and the generated rules decide everything else, including driver "
        "calls on other interfaces), and the first default <policy> starts with <allow user=\"*\"/>. Excluded "
        "because the man page is silent: see the list in vf/models/policy.py (eavesdroppers are judged only when "
        "they must not receive under every reading, also of whether queueing for the addressed name is owning it; "
        "no eavesdrop= on send rules; no REPLY_SERIAL on non-replies; "
        "one group per user; a denied reply is not retried). distinct = (kind, message type, destination kind, "
        "deciding rule polarity + attribute set, its context, its position class) over decisions with >= 2 "
        "candidate rules")

# ------------------------------------------------------------------------------ named deviations
# name -> function(effective rule list) -> rule list the bus is believed to evaluate instead.
# When the documented evaluation disagrees with an observation, every entry is tried in order; the
# first one under which the whole observation is explained gives the key C06:<name>.


def _optimizer_catch_all(rule):
    """What bus_client_policy_optimize regards as 'matches everything' (DESIGN.md section 6 row 9):
    a send/receive rule naming no type / path / interface / member / error / destination / sender
    (so only send_broadcast, *_requested_reply, min_fds, max_fds, eavesdrop or '*' values), or own='*'."""
    a = rule["attrs"]
    k = pm.kind_of(rule)

    def unset(*names):
        return all(a.get(n) in (None, "*") for n in names)
    if k == "send":
        return unset("send_type", "send_path", "send_interface", "send_member", "send_error",
                     "send_destination") and "send_destination_prefix" not in a
    if k == "receive":
        return unset("receive_type", "receive_path", "receive_interface", "receive_member", "receive_error",
                     "receive_sender")
    if k == "own":
        return a.get("own") == "*"
    return False


def _dev_optimize(rules):
    out = []
    for r in rules:
        k = pm.kind_of(r)
        if k != "connect" and _optimizer_catch_all(r):
            out = [x for x in out if pm.kind_of(x) != k]
        out.append(r)
    return out


def _dev_eavesdrop_reply(rules):
    """bus/policy.c skips an <allow> for an unrequested reply only when the rule has
    requested_reply=true AND NOT eavesdrop=true: an <allow ... eavesdrop="true"/> behaves as if it
    also said receive_requested_reply="false" (send rules with eavesdrop= are not generated)."""
    out = []
    for r in rules:
        a = r["attrs"]
        if r["allow"] and a.get("eavesdrop") == "true" and pm.kind_of(r) == "receive" \
                and a.get("receive_requested_reply") != "false":
            r = dict(r, attrs=collections.OrderedDict(list(a.items()) + [("receive_requested_reply", "false")]))
        out.append(r)
    return out


DEVIATIONS = [
    ("optimize-changes-decision", _dev_optimize),
    ("eavesdrop-allow-matches-unrequested-reply", _dev_eavesdrop_reply),
]

# ------------------------------------------------------------------------------------- constants
TYPES = {"method_call": 1, "method_return": 2, "error": 3, "signal": 4}
NO_REPLY = 1
NO_AUTO_START = 2
CANDIDATE_USERS = ["root", "daemon", "games", "nobody", "bin", "sys"]
FIXED_TAIL = {"ctx": "mandatory", "who": None, "fixed": True, "rules": [
    {"allow": True, "attrs": collections.OrderedDict([("send_destination", DRIVER), ("send_interface", DRIVER)])},
    {"allow": True, "attrs": collections.OrderedDict([("receive_sender", DRIVER), ("receive_requested_reply", "false")])},
]}
LIMITS = {"max_replies_per_connection": 100000, "max_match_rules_per_connection": 100000}
FULL_WITNESS_PER_KEY = 2


def _users():
    """Existing passwd entries that are in exactly one group (silent point 3)."""
    out = []
    for name in CANDIDATE_USERS:
        try:
            p = pwd.getpwnam(name)
            gl = os.getgrouplist(name, p.pw_gid)
            if sorted(set(gl)) != [p.pw_gid]:
                continue
            if any(os.path.exists(os.path.join(d, name)) for d in ("/var/run/console", "/run/console")):
                continue            # at_console must be false for every test user
            g = grp.getgrgid(p.pw_gid).gr_name
        except (KeyError, OSError):
            continue
        out.append({"user": name, "uid": p.pw_uid, "gid": p.pw_gid, "group": g})
    return out


# ------------------------------------------------------------------------- configuration generator

def _values(rng):
    lab = "".join(rng.choice("abcdefghijkmnpqrstuvwxyz") for _ in range(3))
    R = "org.c" + lab
    return {
        "root": R,
        "names": [R + ".svc", R + ".svc.a", R + ".svc.a.b", R + ".svcx", R + ".oth", R + ".oth.k", R + ".q", R + ".solo"],
        "prefixes": [R + ".svc", R + ".svc.a", R + ".oth", R, R + ".sv", R + ".q", R + ".svc.a.b"],
        "ghost": R + ".ghost",
        "ifaces": [R + ".If1", R + ".If2", R + ".If3"],
        "members": ["Ma", "Mb", "Mc"],
        "paths": ["/c06/p1", "/c06/p2", "/c06/p3"],
        "errors": [R + ".Err.E1", R + ".Err.E2", R + ".Err.E3"],
    }


def _pick_value(rng, attr, V):
    base = attr.split("_", 1)[1]
    if base == "type":
        return rng.choice(list(TYPES))
    if base == "interface":
        return rng.choice(V["ifaces"][:2] + V["ifaces"][:2] + [V["root"] + ".IfUnused"])
    if base == "member":
        return rng.choice(V["members"][:2])
    if base == "path":
        return rng.choice(V["paths"][:2])
    if base == "error":
        return rng.choice(V["errors"][:2])
    if base in ("destination", "sender"):
        r = rng.random()
        if r < 0.08:
            return V["ghost"]
        if r < 0.14:
            return DRIVER
        return rng.choice(V["names"])
    if base == "destination_prefix":
        return rng.choice(V["prefixes"] + (["org.freedesktop"] if rng.random() < 0.1 else []))
    if base == "broadcast" or base == "requested_reply":
        return rng.choice(["true", "false"])
    raise ValueError(attr)


def _fds_attr(rng, a):
    k = rng.choice(["min_fds", "max_fds"])
    a[k] = rng.choice(["1", "1", "0", "2"]) if k == "min_fds" else rng.choice(["0", "0", "1"])


def _gen_msg_rule(rng, side, V, no_dest):
    """side: 'send' | 'receive'.  Returns attrs (OrderedDict) of a rule the config parser accepts."""
    p = side + "_"
    a = collections.OrderedDict()
    style = rng.random()
    who = "destination" if side == "send" else "sender"
    if style < 0.17:
        # only boolean / modifier attributes
        opts = [p + "requested_reply"] + (["send_broadcast", "send_broadcast"] if side == "send" else ["eavesdrop"])
        k = rng.choice(opts)
        a[k] = rng.choice(["true", "false"])
        if rng.random() < 0.3:
            _fds_attr(rng, a)
        if rng.random() < 0.15 and p + "requested_reply" not in a:
            a[p + "requested_reply"] = rng.choice(["true", "false"])
    elif style < 0.27:
        k = rng.choice([p + who, p + "interface", p + "type", p + "path"])
        a[k] = "*"
        if rng.random() < 0.4:
            k2 = rng.choice([p + "type", p + "interface", p + "requested_reply", "fds"])
            if k2 == "fds":
                _fds_attr(rng, a)
            elif k2 not in a:
                a[k2] = _pick_value(rng, k2, V)
    else:
        cands = [p + "type", p + "interface", p + "member", p + "path", p + "error", p + who, p + who,
                 p + "requested_reply", "fds"]
        if side == "send":
            cands += ["send_destination_prefix", "send_broadcast"]
        else:
            cands += ["eavesdrop"]
        for k in rng.sample(cands, rng.choice([1, 1, 2, 2, 3])):
            if k == "fds":
                _fds_attr(rng, a)
            elif k == "eavesdrop":
                a[k] = rng.choice(["true", "true", "false"])
            elif k not in a:
                a[k] = _pick_value(rng, k, V)
    # constraints of the configuration grammar
    if p + "member" in a and p + "interface" not in a and p + "path" not in a:
        a[p + "interface"] = _pick_value(rng, p + "interface", V)
    if p + "error" in a and (p + "interface" in a or p + "member" in a):
        del a[p + "error"]
    if p + "error" in a and p + "type" in a and rng.random() < 0.7:
        a[p + "type"] = "error"
    if "send_destination" in a and "send_destination_prefix" in a:
        del a[rng.choice(["send_destination", "send_destination_prefix"])]
    if a.get("send_broadcast") == "true" and ("send_destination" in a or "send_destination_prefix" in a):
        a["send_broadcast"] = "false"
    if no_dest:
        if a.get("send_destination") not in (None, "*", DRIVER):
            del a["send_destination"]
        a.pop("send_destination_prefix", None)
    if side == "send":
        a.pop("eavesdrop", None)                                  # silent point 4
        if not any(k in a for k in pm.SEND_ATTRS):
            a["send_type"] = rng.choice(list(TYPES) + ["*"])
            a.move_to_end("send_type", last=False)
    else:
        if not any(k in a for k in pm.RECV_ATTRS) and "eavesdrop" not in a:
            a["receive_type"] = rng.choice(list(TYPES) + ["*"])
            a.move_to_end("receive_type", last=False)
    return a


def _gen_own_rule(rng, V):
    r = rng.random()
    if r < 0.12:
        return collections.OrderedDict([("own", "*")])
    if r < 0.55:
        return collections.OrderedDict([("own", rng.choice(V["names"] + [V["ghost"]]))])
    return collections.OrderedDict([("own_prefix", rng.choice(V["prefixes"]))])


def _base_rules(rng, V, eaves=False):
    """Leading allows so that roughly half of all probes are permitted."""
    out = []
    r = rng.random()
    if r < 0.3:
        out.append({"send_destination": "*"})
    elif r < 0.45:
        out.append({"send_type": "*"})
    elif r < 0.6:
        out += [{"send_broadcast": "false"}, {"send_broadcast": "true"}]
    elif r < 0.9:
        for t in rng.sample(list(TYPES), rng.randint(1, 3)):
            out.append({"send_type": t})
    if rng.random() < 0.45:
        out.append({"send_type": rng.choice(["method_return", "error", "*"]), "send_requested_reply": "false"})
    r = rng.random()
    if eaves and r < 0.6:
        out.append({"eavesdrop": "true"})
    elif r < 0.3:
        out.append({"receive_sender": "*"})
    elif r < 0.45:
        out.append({"receive_type": "*"})
    elif r < 0.55:
        out.append({"eavesdrop": "true"})
    elif r < 0.9:
        for t in rng.sample(list(TYPES), rng.randint(1, 3)):
            out.append({"receive_type": t})
    if rng.random() < 0.45:
        out.append({"receive_type": rng.choice(["method_return", "error", "*"]), "receive_requested_reply": "false"})
    r = rng.random()
    if r < 0.35:
        out.append({"own": "*"})
    elif r < 0.75:
        out.append({"own_prefix": V["root"]})
    elif r < 0.9:
        out.append({"own_prefix": V["root"] + ".svc"})
        out.append({"own": V["root"] + ".q"})
    return [{"allow": True, "attrs": collections.OrderedDict(sorted(a.items()))} for a in out]


def _theme_pair(rng, V, theme):
    """A pair of send rules whose outcome depends on WHO is about to receive the copy:
    'hub'     <deny Q/>  ... <allow Q send_destination[_prefix]=N/>   only the owner of N may get Q
    'private' <allow Q/> ... <deny Q send_destination[_prefix]=N/>    the owner of N is shielded from Q
    N is a name that the scenario gives to a listener / the eavesdropper / an ordinary owner
    (theme["own"]); Q is a by-value qualifier that the probes hit often (possibly empty)."""
    form = rng.choice(["hub", "private"])
    ev = theme.get("eaves")
    pool = theme["own"]
    if ev is not None and rng.random() < 0.75:
        # shield the eavesdropper itself / open the door only for somebody else than the eavesdropper
        pool = [x for x in pool if (x[1] == ev) == (form == "private")] or pool
    name = rng.choice(pool)[0]
    iface, member, path = rng.choice(V["ifaces"]), rng.choice(V["members"]), rng.choice(V["paths"])
    q = rng.choice([
        [("send_interface", iface)], [("send_interface", iface)],
        [("send_interface", iface), ("send_member", member)],
        [("send_path", path)],
        [("send_type", "signal")], [("send_type", "signal")],
        [("send_type", "method_call")],
        [("send_type", "signal"), ("send_interface", iface)],
        [("send_broadcast", "false")],
        [], [],
    ])
    if rng.random() < 0.65:
        d = ("send_destination", name)
    else:
        d = ("send_destination_prefix", rng.choice([x for x in V["prefixes"] if pm.word_prefix(name, x)] or [name]))
    wide = q or [rng.choice([("send_destination", "*"), ("send_type", "*")])]
    if form == "hub":
        r1 = {"allow": False, "attrs": collections.OrderedDict(wide)}
        r2 = {"allow": True, "attrs": collections.OrderedDict(q + [d])}
    else:
        r1 = {"allow": True, "attrs": collections.OrderedDict(wide)} if rng.random() < 0.7 else None
        r2 = {"allow": False, "attrs": collections.OrderedDict(q + [d])}
    return {"form": form, "q": dict(q), "d": list(d), "name": name}, r1, r2


def gen_blocks(rng, V, users, extra_users, no_dest, eaves=None, theme=None, themed=None):
    """users: the scenario's client users; extra_users: users only used for connection probes.
    eaves (default: no_dest): the leading allows favour <allow eavesdrop="true"/>; theme: see
    _theme_pair(), the pairs that were added are appended to the list `themed`."""
    if eaves is None:
        eaves = no_dest
    first = {"ctx": "default", "who": None, "rules": [{"allow": True, "attrs": collections.OrderedDict([("user", "*")])}]}
    blocks = [first]
    # connection rules never name the owner of the bus process (the harness's own first round-trip)
    extra_users = [u for u in extra_users if u["uid"] != os.getuid()]
    for u in users:
        if rng.random() < 0.6:
            blocks.append({"ctx": "user", "who": u["user"], "rules": []})
            if rng.random() < 0.25:
                blocks[-1]["who_xml"] = str(u["uid"])          # "username or userid"
        if rng.random() < 0.45:
            blocks.append({"ctx": "group", "who": u["group"], "rules": []})
            if rng.random() < 0.25:
                blocks[-1]["who_xml"] = str(u["gid"])
    if rng.random() < 0.6:
        blocks.append({"ctx": "mandatory", "who": None, "rules": []})
    if rng.random() < 0.2:
        blocks.append({"ctx": "console_false", "who": None, "rules": []})
    if rng.random() < 0.4:
        blocks.append({"ctx": "default", "who": None, "rules": []})
    if rng.random() < 0.2 and len(blocks) > 2:
        b = rng.choice(blocks[1:])
        blocks.append({"ctx": b["ctx"], "who": b["who"], "rules": []})
    tail = blocks[1:]
    rng.shuffle(tail)
    blocks = [first] + tail
    total = rng.randint(3, 25)
    base = _base_rules(rng, V, eaves)[:total]
    first["rules"] += base
    made = list(base)
    weights = [4 if b is first else 2 for b in blocks]
    for _ in range(total - len(base)):
        b = rng.choices(blocks, weights)[0]
        r = rng.random()
        if made and r < 0.25:
            src = rng.choice(made)
            oth = [x for x in blocks if not any(y is src for y in x["rules"])]
            if oth and rng.random() < 0.7:
                b = rng.choice(oth)     # the same question answered differently in another context
            attrs = collections.OrderedDict(src["attrs"])
            allow = not src["allow"]
            k = pm.kind_of(src)
            if k in ("send", "receive") and len(attrs) > 1 and rng.random() < 0.5:
                victim = rng.choice(list(attrs))
                rest = collections.OrderedDict((x, y) for x, y in attrs.items() if x != victim)
                keyset = pm.SEND_ATTRS if k == "send" else pm.RECV_ATTRS + ("eavesdrop",)
                pre = k + "_" if k == "send" else "receive_"
                ok = any(x in keyset for x in rest) and not (pre + "member" in rest and pre + "interface" not in rest
                                                             and pre + "path" not in rest)
                if ok:
                    attrs = rest
                    allow = rng.random() < 0.5
            rule = {"allow": allow, "attrs": attrs}
            if k == "connect":      # bus-global semantics: only default / mandatory may hold them
                b = rng.choice([x for x in blocks if x["ctx"] in ("default", "mandatory")])
        elif r < 0.56:
            rule = {"allow": rng.random() < 0.5, "attrs": _gen_msg_rule(rng, "send", V, no_dest)}
        elif r < 0.8:
            rule = {"allow": rng.random() < 0.5, "attrs": _gen_msg_rule(rng, "receive", V, no_dest)}
        elif r < 0.95 or not extra_users:
            rule = {"allow": rng.random() < 0.45, "attrs": _gen_own_rule(rng, V)}
        else:
            # connection rule: only for users that are not test clients, only default / mandatory
            bb = [x for x in blocks if x["ctx"] in ("default", "mandatory")]
            b = rng.choice(bb)
            eu = rng.choice(extra_users)
            rule = {"allow": rng.random() < 0.35,
                    "attrs": collections.OrderedDict([rng.choice([("user", eu["user"]), ("group", eu["group"])])])}
        b["rules"].append(rule)
        made.append(rule)
    if theme is not None and theme.get("own") and rng.random() < (0.7 if theme.get("eaves") is None else 0.9):
        # appended after the random rules: the second rule of a pair is always evaluated after the
        # first one (same block, or a block later in file order / in a later context than `first`)
        for _ in range(rng.choice([1, 1, 2])):
            ent, r1, r2 = _theme_pair(rng, V, theme)
            b = rng.choices(blocks, weights)[0]
            if r1 is not None:
                (b if rng.random() < 0.3 else first)["rules"].append(r1)
            b["rules"].append(r2)
            if themed is not None:
                themed.append(ent)
        if theme.get("eaves") is not None and rng.random() < 0.6:
            # the usual "monitoring user" idiom, late enough to decide for some connections
            a = collections.OrderedDict([("eavesdrop", "true")])
            if rng.random() < 0.3:
                a["receive_type"] = rng.choice(["method_call", "signal", "method_return", "error"])
            rng.choices(blocks, weights)[0]["rules"].append({"allow": True, "attrs": a})
    blocks = [b for b in blocks if b["rules"]]
    blocks.append(copy.deepcopy(FIXED_TAIL))
    n = 0
    for b in blocks:
        for r in b["rules"]:
            r["ctx"] = b["ctx"]
            r["id"] = n
            r["fixed"] = bool(b.get("fixed"))
            n += 1
    return blocks


def config_text(blocks):
    return busproc.make_config("@SOCK@", policy_xml=pm.render(blocks), limits=LIMITS)


LAYOUTS = ["inline", "inline", "included", "included", "included-twice", "split"]
_INC_HEAD = ('<!DOCTYPE busconfig PUBLIC "-//freedesktop//DTD D-Bus Bus Configuration 1.0//EN" '
             '"http://www.freedesktop.org/standards/dbus/1.0/busconfig.dtd">\n<busconfig>\n')


def config_layout(blocks, layout, incdir):
    """The same policy in another file layout: <include> merges the included file's rules at the place of the element, in
    file order, so WHERE a rule is written (main file, included file, a file included by an included file) must not change
    any decision.  Writes the included files into incdir and returns the text of the main file."""
    if layout == "inline":
        return config_text(blocks)
    os.makedirs(incdir, exist_ok=True)

    def put(name, body):
        path = os.path.join(incdir, name)
        tmp = path + ".new"
        with open(tmp, "w") as fh:
            fh.write(_INC_HEAD + body + "</busconfig>\n")
        os.rename(tmp, path)
        return path
    if layout == "included":
        inc = put("policy.conf", pm.render(blocks))
        return busproc.make_config("@SOCK@", policy_xml="", limits=LIMITS, extra="  <include>%s</include>" % inc)
    if layout == "included-twice":
        inner = put("policy-inner.conf", pm.render(blocks))
        outer = put("policy-outer.conf", "  <include>%s</include>\n" % inner)
        return busproc.make_config("@SOCK@", policy_xml="", limits=LIMITS, extra="  <include>%s</include>" % outer)
    # split: the first blocks stay in the main file, the rest moves into an included file that follows them
    k = max(1, len(blocks) // 2)
    inc = put("policy-tail.conf", pm.render(blocks[k:]))
    return busproc.make_config("@SOCK@", policy_xml=pm.render(blocks[:k]), limits=LIMITS, extra="  <include>%s</include>" % inc)


def gen_script(rng, sid, users, tier):
    """Skeleton of one daemon lifetime: clients, value pools and 1..3 stages (configurations); the
    probes are generated while executing, against the observed state, and recorded into it."""
    nusers = rng.choice([2, 2, 3]) if len(users) >= 3 else 2
    us = rng.sample(users, nusers)
    eaves = rng.random() < 0.35
    owner = [u for u in users if u["uid"] == os.getuid()][0]
    if eaves and owner not in us:
        us[-1] = owner              # only the owner of the bus may add eavesdrop='true' match rules
    extra = [u for u in users if u not in us]
    ncl = rng.randint(3, 5)
    assign = us + [rng.choice(us) for _ in range(ncl - len(us))]
    assign = assign[:ncl]
    rng.shuffle(assign)
    if len(set(u["user"] for u in assign)) < 2:
        assign[0], assign[1] = us[0], us[1]
    if eaves:
        assign[-1] = owner
        if len(set(u["user"] for u in assign)) < 2:
            assign[0] = [u for u in us if u is not owner][0]
    clients = [{"user": u["user"], "uid": u["uid"], "gid": u["gid"], "group": u["group"], "listen": None, "owner": False}
               for u in assign]
    active = list(range(ncl))
    if eaves:
        clients[-1]["listen"] = "eavesdrop"
        active = active[:-1]
    nl = rng.choice([1, 2, 2]) if len(active) > 2 else 1
    listeners = rng.sample(active, nl)
    for i in listeners:
        clients[i]["listen"] = "signal"
    rest = [i for i in active if i not in listeners]
    if rest and rng.random() < 0.7:
        owners = rng.sample(rest, min(len(rest), rng.choice([1, 2])))
    else:
        owners = rng.sample(active, min(len(active), rng.choice([1, 2])))
    for i in owners:
        clients[i]["owner"] = True
    V = _values(rng)
    # names that themed destination rules speak about, and who is to own them: mostly connections
    # that receive copies NOT addressed to them (broadcast listeners, the eavesdropper)
    if eaves and rng.random() < 0.75:
        clients[-1]["owner"] = True
    theme = None
    if rng.random() < 0.8 or eaves:
        own = []
        for k, name in enumerate(rng.sample(V["names"], rng.choice([2, 2, 3]) if eaves else rng.choice([1, 2, 2, 3]))):
            r = rng.random()
            if eaves and (k == 0 or (k > 1 and r < 0.4)):
                who = ncl - 1
            elif eaves and k == 1:
                who = rng.choice(active)
            elif r < 0.85:
                who = rng.choice(listeners)
            else:
                who = rng.choice(active)
            own.append([name, who])
        theme = {"own": own, "eaves": ncl - 1 if eaves else None}
    nst = rng.choice([1, 2, 2, 3])
    stages = []
    for si in range(nst):
        themed = []
        stages.append({"mode": "fresh" if si == 0 else "reload",
                       "blocks": gen_blocks(rng, V, us, extra, False, eaves=eaves, theme=theme, themed=themed),
                       "themed": themed,
                       "nops": rng.randint(100, 200) if tier == "quick" else rng.randint(100, 300),
                       "ops": []})
    return {"id": sid, "clients": clients, "extra_users": extra, "V": V, "theme": theme, "stages": stages}


# -------------------------------------------------------------------------------------- executor

class Abort(Exception):
    pass


def _wait_driver_reply(cl, serial):
    """Like Client.wait_reply, but the reply must also come from org.freedesktop.DBus: an
    eavesdropper also sees other clients' replies, whose REPLY_SERIAL (a serial of ANOTHER
    connection) can equal the serial of its own barrier call.  Everything else stays in the inbox,
    in order."""
    keep = []
    try:
        while True:
            rec = cl.recv(client.WATCHDOG)
            k = rec.msg.known()
            if rec.msg.type in (2, 3) and k.get(5) == serial and k.get(7) == DRIVER.encode():
                return rec
            keep.append(rec)
    finally:
        cl.inbox[:0] = keep


class Scn(object):
    """One daemon lifetime: executes (and, with an rng, generates) the ops of a script."""

    def __init__(self, b, rundir, script, part, full_budget):
        self.b, self.rundir, self.script, self.part = b, rundir, script, part
        self.full_budget = full_budget          # key -> full witnesses still allowed
        self.V = script["V"]
        self.daemon = None
        self.clients = []
        self.clock = client.Clock()
        self.registry = {}                      # name -> [client index, ...] primary first
        self.pending = collections.OrderedDict()  # op number of the call -> dict
        self.answered = collections.OrderedDict()
        self.noreply = collections.OrderedDict()
        self.blocks = None
        self.eff = []
        self.si = -1
        self.opn = 0
        self.token = None
        self.aborted = None
        self.hung = False
        self.up = False

    # -- plumbing ---------------------------------------------------------------------------
    def live(self):
        return range(len(self.clients))

    def meta(self, i):
        return self.script["clients"][i]

    def active(self):
        return [i for i in self.live() if self.meta(i)["listen"] != "eavesdrop"]

    def eaves(self):
        return [i for i in self.live() if self.meta(i)["listen"] == "eavesdrop"]

    def listeners(self):
        return [i for i in self.live() if self.meta(i)["listen"]]

    def names_of(self, i):
        s = set(n for n, q in self.registry.items() if i in q)
        s.add(self.clients[i].unique.decode())
        return s

    def primary(self, name):
        q = self.registry.get(name)
        return q[0] if q else None

    def witness(self, key, op, **more):
        w = {"config": config_text(self.blocks), "probe": op, "stage": self.si,
             "clients": [dict(self.meta(i), unique=self.clients[i].unique.decode(), names=sorted(self.names_of(i)))
                         for i in self.live()]}
        w.update(more)
        if self.full_budget.get(key, FULL_WITNESS_PER_KEY) > 0:
            self.full_budget[key] = self.full_budget.get(key, FULL_WITNESS_PER_KEY) - 1
            s = copy.deepcopy(self.script)
            s["stages"] = s["stages"][:self.si + 1]
            w["script"] = s
        return w

    def violation(self, key, what, op, **more):
        key = "%s:%s" % (PROP, key)
        self.part.violation(key, what, self.witness(key, op, **more))

    def _drain(self, i):
        recs = self.clients[i].take_inbox()
        for r in recs:
            for fd in r.fds:
                try:
                    os.close(fd)
                except OSError:
                    pass
        return recs

    def observe(self, sender):
        """Ordering barrier (DESIGN 1.4): sender round-trip, then every other client's round-trip;
        returns {client index: [Received before its barrier reply]}."""
        _wait_driver_reply(self.clients[sender], self.clients[sender].bus_call_async(b"GetId"))
        others = [i for i in self.live() if i != sender]
        ser = [(i, self.clients[i].bus_call_async(b"GetId")) for i in others]
        for i, s in ser:
            _wait_driver_reply(self.clients[i], s)
        self.part.count("barriers", len(others) + 1)
        return {i: self._drain(i) for i in self.live()}

    def tokens_in(self, inbox, op):
        """{client: number of copies of the current probe}; stale probes are reported."""
        out = {}
        for i, recs in inbox.items():
            n = 0
            for r in recs:
                b0 = r.msg.body[0] if r.msg.body else None
                if isinstance(b0, bytes) and b0.startswith(b"c06-"):
                    if b0 == self.token:
                        n += 1
                    else:
                        self.violation("late-delivery", "probe %r reached client %d after its barrier" % (b0, i), op)
            out[i] = n
        return out

    def sync_name(self, name, via=0):
        r = self.clients[via].bus_call(b"ListQueuedOwners", b"s", [name.encode()])
        q = []
        if r.msg.type == 2:
            uniq = {c.unique: i for i, c in enumerate(self.clients)}
            for u in r.msg.body[0]:
                q.append(uniq.get(u, -1))
        self.registry[name] = q
        return q

    def recompute(self):
        self.eff = [pm.effective(self.blocks, self.meta(i)["user"], [self.meta(i)["group"]]) for i in self.live()]

    # -- stage handling ---------------------------------------------------------------------
    def begin_stage(self, si):
        st = self.script["stages"][si]
        self.si = si
        self.blocks = st["blocks"]
        import zlib
        layout = LAYOUTS[zlib.crc32(("%s:%d" % (self.script["id"], si)).encode()) % len(LAYOUTS)]
        text = config_layout(self.blocks, layout, os.path.join(self.rundir, self.script["id"], "inc%d" % si))
        self.part.count("config-layout:" + layout)
        if st["mode"] == "fresh":
            self.daemon = busproc.Daemon(self.b, os.path.join(self.rundir, self.script["id"]), text, name="bus")
            if not self.daemon.started():
                self.up = False
                raise Abort("daemon did not start with the generated configuration:\n" + self.daemon.stderr_text()[-1500:])
            # a complete round-trip as the bus owner first: the daemon is then in its main loop
            # (socket permissions opened, SIGTERM handler installed) before other uids connect
            client.connect(self.daemon.sock, self.clock).close()
            self.up = True
            for i, m in enumerate(self.script["clients"]):
                c = client.connect(self.daemon.sock, self.clock, uid=m["uid"], gid=m["gid"], negotiate_fd=True, label=str(i))
                if c.unique is None or not c.unix_fd:
                    raise Abort("client %d (%s) could not say Hello / negotiate fds" % (i, m["user"]))
                self.clients.append(c)
            for i in self.live():
                rule = {"signal": b"type='signal'", "eavesdrop": b"eavesdrop='true'"}.get(self.meta(i)["listen"])
                if rule:
                    r = self.clients[i].bus_call(b"AddMatch", b"s", [rule])
                    if r.msg.type != 2:
                        raise Abort("AddMatch refused: %r" % (r,))
            self.part.count("stages:fresh")
            self.part.count("scenario-clients:%d" % len(self.clients))
            self.part.count("scenario-uids:%d" % len(set(m["uid"] for m in self.script["clients"])))
            if self.eaves():
                self.part.count("scenario-with-eavesdropper")
        else:
            self.daemon.reload_config(text)
            r = self.clients[0].bus_call(b"ReloadConfig")
            if r.msg.type != 2:
                raise Abort("ReloadConfig failed: %r" % (r,))
            self.part.count("stages:reload")
        self.recompute()
        for n in self.V["names"]:
            self.sync_name(n)
        self.observe(0)
        self.part.count("configs")
        if st.get("themed"):
            self.part.count("configs-with-themed-destination-rule-pairs")
        for b in self.blocks:
            if not b.get("fixed"):
                self.part.count("rules-generated", len(b["rules"]))
                self.part.count("ctx-block:" + b["ctx"])
                for r in b["rules"]:
                    for a in r["attrs"]:
                        self.part.count("rule-attr:" + a)
                    if _optimizer_catch_all(r) and pm.kind_of(r) in ("send", "receive"):
                        self.part.count("rules-with-only-boolean-or-wildcard-attributes")

    def finish(self):
        for c in self.clients:
            c.close()
        if self.daemon is not None:
            self.daemon.stop()
            for cls, site, text in self.daemon.problems():
                if cls.startswith("exit:") and not self.up:
                    continue        # never came up (rejected configuration / killed while starting): Abort says so
                key = "%s:%s:%s" % (PROP, cls, site)
                w = {"config": config_text(self.blocks) if self.blocks else None, "stderr": text[-3000:],
                     "script": self.script}
                self.part.violation(key, "daemon reported %s in %s" % (cls, site), w)
            self.part.count("daemons-scraped")

    # -- op generation ------------------------------------------------------------------------
    def setup_ops(self, rng, si):
        ops = []
        owners = [i for i in self.live() if self.meta(i)["owner"]] or self.active()
        themed = dict((n, c) for n, c in ((self.script.get("theme") or {}).get("own") or []))
        if si == 0:
            for n in self.V["names"]:
                k = 2 if n.endswith(".q") else rng.choice([1, 1, 1, 2])
                who = [themed[n] if n in themed else rng.choice(owners)]
                if k == 2:
                    oth = [i for i in self.active() if i != who[0]]
                    who.append(rng.choice([i for i in owners if i != who[0]] or oth))
                for c in who:
                    ops.append({"op": "own", "c": c, "name": n, "flags": 0})
        else:
            for _ in range(rng.randint(1, 3)):
                ops.append({"op": "own", "c": rng.choice(self.active()), "name": rng.choice(self.V["names"]),
                            "flags": rng.choice([0, 4])})
            for n, c in sorted(themed.items()):
                if c not in self.registry.get(n, []):        # refused under the previous configuration
                    ops.append({"op": "own", "c": c, "name": n, "flags": 0})
        return ops

    def gen_op(self, rng):
        r = rng.random()
        V = self.V
        act = self.active()
        if r < 0.07:
            return {"op": "own", "c": rng.choice(act), "name": rng.choice(V["names"]),
                    "flags": rng.choice([0, 0, 4, 1, 2, 3, 6, 7])}
        if r < 0.09 and self.script["extra_users"]:
            u = rng.choice(self.script["extra_users"])
            return {"op": "connect", "user": u["user"], "uid": u["uid"], "gid": u["gid"], "group": u["group"]}
        op = {"op": "msg", "c": rng.choice(act), "flags": 0, "nfds": 1 if rng.random() < 0.2 else 0,
              "path": None, "iface": None, "member": None, "error": None, "reply": None}
        k = rng.choices(["bcast", "usig", "call", "driver", "reply"], [20, 10, 30, 7, 33])[0]
        if k == "reply":
            sub = rng.random()
            ref = None
            if sub < 0.5 and self.pending:
                n = rng.choice(list(self.pending))
                ref, rk = self.pending[n], "requested"
            elif sub < 0.6 and self.answered:
                n = rng.choice(list(self.answered))
                ref, rk = self.answered[n], "second"
            elif sub < 0.68 and self.noreply:
                n = rng.choice(list(self.noreply))
                ref, rk = self.noreply[n], "noreply-call"
            if ref is not None:
                op["c"], target = ref["callee"], ref["caller"]
                op["reply"] = {"kind": rk, "call": n}
            else:
                target = rng.choice([i for i in act if i != op["c"]])
                op["reply"] = {"kind": "bogus"}
            op["type"] = rng.choice(["method_return", "error"])
            wk = [nm for nm in V["names"] if self.primary(nm) == target]
            if wk and rng.random() < 0.25:
                op["dest"] = {"kind": "name", "name": rng.choice(wk)}
            else:
                op["dest"] = {"kind": "unique", "c": target}
            if op["type"] == "error":
                op["error"] = rng.choice(V["errors"])
            if rng.random() < 0.2:
                op["iface"] = rng.choice(V["ifaces"])
            if rng.random() < 0.15:
                op["member"] = rng.choice(V["members"])
            if rng.random() < 0.2:
                op["path"] = rng.choice(V["paths"])
            return op
        if k == "driver":
            op["type"] = "method_call"
            op["dest"] = {"kind": "driver"}
            op["nfds"] = 0
            op["path"], op["iface"], op["member"] = rng.choice([
                ("/org/freedesktop/DBus", "org.freedesktop.DBus.Peer", "Ping"),
                ("/", "org.freedesktop.DBus.Peer", "GetMachineId"),
                ("/org/freedesktop/DBus", "org.freedesktop.DBus.Introspectable", "Introspect"),
                ("/org/freedesktop/DBus", None, "GetId"),
                ("/org/freedesktop/DBus", None, "ListNames"),
                (rng.choice(V["paths"]), None, "Ping"),
                (rng.choice(V["paths"]), rng.choice(V["ifaces"]), rng.choice(V["members"])),
                ("/org/freedesktop/DBus", rng.choice(V["ifaces"]), rng.choice(V["members"])),
            ])
            return op
        op["type"] = "signal" if k in ("bcast", "usig") else "method_call"
        op["path"] = rng.choice(V["paths"])
        op["member"] = rng.choice(V["members"])
        op["iface"] = rng.choice(V["ifaces"]) if (op["type"] == "signal" or rng.random() < 0.75) else None
        themed = self.script["stages"][self.si].get("themed")
        if themed and rng.random() < (0.55 if self.eaves() else 0.4):
            q = rng.choice(themed)["q"]
            op["iface"] = q.get("send_interface", op["iface"])
            op["member"] = q.get("send_member", op["member"])
            op["path"] = q.get("send_path", op["path"])
        if k == "bcast":
            op["dest"] = None
            return op
        if op["type"] == "method_call" and rng.random() < 0.12:
            op["flags"] |= NO_REPLY
        owned = [nm for nm in V["names"] if self.primary(nm) is not None and self.primary(nm) >= 0]
        hubs = [t["name"] for t in (themed or []) if t["form"] == "hub" and t["name"] in owned and self.primary(t["name"]) != op["c"]]
        if hubs and rng.random() < 0.25:
            # to the connection for which a themed <allow ... send_destination=N/> opens the door
            nm = rng.choice(hubs)
            op["dest"] = {"kind": "name", "name": nm} if rng.random() < 0.5 else {"kind": "unique", "c": self.primary(nm)}
        elif owned and rng.random() < 0.55:
            op["dest"] = {"kind": "name", "name": rng.choice(owned)}
        else:
            oth = [i for i in act if i != op["c"]]
            op["dest"] = {"kind": "unique", "c": rng.choice(oth if rng.random() < 0.97 else act)}
        return op

    # -- execution ------------------------------------------------------------------------------
    def exec_op(self, op):
        self.opn += 1
        op["n"] = self.opn
        self.part.evaluations += 1
        if op["op"] == "own":
            return self.exec_own(op)
        if op["op"] == "connect":
            return self.exec_connect(op)
        return self.exec_msg(op)

    def explain(self, predict, observed_ok):
        """Try the named deviations: predict(eff) -> outcome, observed_ok(outcome) -> bool."""
        for name, f in DEVIATIONS:
            eff2 = [f(rules) for rules in self.eff]
            if observed_ok(predict(eff2)):
                return name
        # two deviations at once (the later one is applied to the rules first)
        for i, (n1, f1) in enumerate(DEVIATIONS):
            for n2, f2 in DEVIATIONS[i + 1:]:
                eff2 = [f1(f2(rules)) for rules in self.eff]
                if observed_ok(predict(eff2)):
                    return n1 + "+" + n2
        return None

    def where(self, kind, d):
        """Position class of the deciding rule among the GENERATED rules of its kind that apply to
        the connection (the two fixed harness rules at the very end are not counted)."""
        if d.rule is None:
            return "no-match"
        if d.rule.get("fixed"):
            return "fixed-harness-rule"
        n = d.n - 1 if kind in ("send", "receive") else d.n     # one fixed rule of each message kind
        if n == 1:
            return "only"
        if d.pos == n - 1:
            return "last"
        return "first" if d.pos == 0 else "middle"

    def note_decision(self, kind, d, shape):
        p = self.part
        p.count("%s:%s" % (kind, "allowed" if d.allowed else "denied"))
        p.count("winner-pos:%s:%s" % (kind, self.where(kind, d)))
        if d.silent:
            p.count("silent1_dependent")
        if d.rule is not None:
            if d.rule.get("fixed"):
                p.count("winner:fixed-harness-rule")
            else:
                p.count("winner-ctx:" + d.rule["ctx"])
                for a in d.rule["attrs"]:
                    p.count("winner-attr:" + a)
        if d.n >= 2:
            p.sig(kind, shape, d.label(), d.rule["ctx"] if d.rule else "-", self.where(kind, d))

    def note_registry_shape(self, d, names, addressed_name):
        """How the deciding owner-based rule matched: via a name the peer only queues for, or via
        another name than the one the message was addressed to."""
        if d.rule is None:
            return
        a = d.rule["attrs"]
        v = a.get("send_destination") or a.get("receive_sender")
        pre = a.get("send_destination_prefix")
        hit = []
        if v not in (None, "*"):
            hit = [v] if v in names else []
        elif pre is not None:
            hit = [n for n in names if not n.startswith(":") and pm.word_prefix(n, pre)]
        if not hit:
            return
        peer = [i for i in self.live() if self.clients[i].unique.decode() in names][0]
        self.part.count("owner-rule-decided")
        if all(self.primary(n) != peer for n in hit):
            self.part.count("owner-rule-decided:via-queued-ownership-only")
        if addressed_name is not None and addressed_name not in hit:
            self.part.count("owner-rule-decided:via-other-name-than-addressed")

    def note_eavesdropped_copy(self, v, s_addr, enames):
        """Evidence for the copy of a DELIVERED unicast message that an eavesdropper would get: is
        it the sender's send rules, seen with the eavesdropper's names, that keep it away?"""
        p = self.part
        if not v.send_denied:
            return
        p.count("eavesdropped-copy:send-rules-deny-it-for-the-eavesdropper")
        if v.recv_denied:
            return
        # the eavesdropper's own receive rules do not deny for sure: only the send rules stand between
        p.count("eavesdropped-copy:withheld-by-send-rules-only")
        a = v.send.rule["attrs"] if v.send.rule is not None else {}
        d, pre = a.get("send_destination"), a.get("send_destination_prefix")
        own = [n for n in enames if not n.startswith(":")]
        if (d not in (None, "*") and d in own) or (pre is not None and any(pm.word_prefix(n, pre) for n in own)):
            p.count("eavesdropped-copy:withheld-by-destination-rule-naming-the-eavesdropper")
        elif pm.names_destination_rule(s_addr.rule):
            p.count("eavesdropped-copy:withheld-because-the-allow-names-only-the-addressee")

    def exec_own(self, op):
        c, name = op["c"], op["name"]
        before = list(self.sync_name(name, via=c))
        d = pm.check_own(self.eff[c], name)
        r = self.clients[c].bus_call(b"RequestName", b"su", [name.encode(), op["flags"]])
        after = self.sync_name(name, via=c)
        self.part.count("probe:own")
        if r.msg.type == 2:
            allowed = True
        elif r.msg.known().get(4) == ACCESS_DENIED:
            allowed = False
        else:
            self.violation("own-unexpected-error:%s" % r.msg.known().get(4, b"?").decode("latin1"),
                           "RequestName of a valid name answered with another error", op)
            return
        obs = {"reply": r.msg.body[:1] if r.msg.type == 2 else r.msg.known().get(4), "queue_before": before, "queue_after": after}
        if not allowed and before != after:
            self.violation("denied-own-changed-registry", "owner queue of %s changed although RequestName was denied" % name,
                           op, observed=obs)
        if allowed == d.allowed:
            self.note_decision("own", d, "own")
            self.part.sample({"kind": "own", "name": name, "user": self.meta(c)["user"], "decided_by": d.label(),
                              "allowed": allowed}, cap=2)
            return
        dev = self.explain(lambda eff: pm.check_own(eff[c], name).allowed, lambda o: o == allowed)
        key = dev or "decision-differs:own:%s" % d.label()
        self.violation(key, "RequestName(%s) by %s: model %s (%s), bus %s" % (
            name, self.meta(c)["user"], "allows" if d.allowed else "denies", d.label(), "allowed" if allowed else "denied"),
            op, observed=obs, model={"allowed": d.allowed, "rule": d.rule}, effective_rules=self.eff[c])

    def exec_connect(self, op):
        d = pm.check_connect(self.blocks, op["user"], [op["group"]], op["uid"] == os.getuid())
        self.part.count("probe:connect")
        ok, detail = False, ""
        c = None
        try:
            c = client.Client(self.daemon.sock, self.clock, op["uid"], op["gid"], "x")
            c.auth(negotiate_fd=False)
            r = c.hello()
            ok = r.msg.type == 2
            detail = "hello type %d" % r.msg.type
        except client.Closed as e:
            detail = str(e)[:200]
        finally:
            if c is not None:
                c.close()
        if ok == d.allowed:
            self.note_decision("connect", d, "connect")
            return
        self.violation("decision-differs:connect:%s" % d.label(),
                       "connection of user %s: model %s, bus %s (%s)" % (op["user"], d.allowed, ok, detail), op,
                       model={"allowed": d.allowed, "rule": d.rule})

    def exec_msg(self, op):
        c = op["c"]
        cl = self.clients[c]
        dest = op["dest"]
        # ---- resolve the addressee
        if dest is None:
            addressed, dname = None, None
        elif dest["kind"] == "driver":
            addressed, dname = "driver", DRIVER
        elif dest["kind"] == "unique":
            addressed, dname = dest["c"], self.clients[dest["c"]].unique.decode()
        else:
            addressed, dname = self.primary(dest["name"]), dest["name"]
            if addressed is None or addressed < 0:
                self.part.count("skipped:destination-has-no-owner")
                return
        requested = False
        reply_serial = None
        ref = None
        if op["reply"]:
            rk = op["reply"]["kind"]
            if rk == "bogus":
                reply_serial = 0x7F000000 + op["n"]
            else:
                table = {"requested": self.pending, "second": self.answered, "noreply-call": self.noreply}[rk]
                ref = table.get(op["reply"]["call"])
                if ref is None or ref["callee"] != c or ref["caller"] != addressed:
                    self.part.count("skipped:reply-reference-gone")
                    return
                reply_serial = ref["serial"]
                requested = rk == "requested"
                if rk == "requested":
                    del self.pending[op["reply"]["call"]]        # silent point 7: never retried
        msg = {"type": op["type"], "path": op["path"], "iface": op["iface"], "member": op["member"],
               "error": op["error"], "dest": dname, "nfds": op["nfds"]}
        self.token = ("c06-%s-%d" % (self.script["id"], op["n"])).encode()
        enc = lambda s: None if s is None else s.encode()
        fds = []
        if op["nfds"]:
            fds = [os.open("/dev/null", os.O_RDONLY)]
        serial, data = cl.build(TYPES[op["type"]], path=enc(op["path"]), iface=enc(op["iface"]), member=enc(op["member"]),
                                dest=enc(dname), error_name=enc(op["error"]), reply_serial=reply_serial,
                                sig=b"sh" if fds else b"s", body=[self.token, 0] if fds else [self.token],
                                flags=op["flags"] | NO_AUTO_START, unix_fds=1 if fds else None)
        try:
            cl.send_msg(data, serial, fds=fds)
        finally:
            for fd in fds:
                os.close(fd)
        inbox = self.observe(c)
        got = self.tokens_in(inbox, op)
        # reply multiplicity (DESIGN 1.3): every driver reply must belong to a call that waited for it
        for i, recs in inbox.items():
            for r in recs:
                if r.msg.type in (2, 3) and r.msg.known().get(7) == DRIVER.encode() and \
                        not (i == c and r.msg.known().get(5) == serial):
                    self.violation("reply-multiplicity", "client %d holds an extra driver reply: %r" % (i, r), op)
        # answers to this probe: not the sender's own eavesdropped copy of what it just sent (an eavesdropper matches its
        # own outgoing messages; the REPLY_SERIAL a reply carries may coincide with the serial the reply itself got)
        mine = cl.unique
        errs = [r for r in inbox[c] if r.msg.type == 3 and r.msg.known().get(5) == serial and r.msg.known().get(7) != mine]
        others = [r for r in inbox[c] if r.msg.type == 2 and r.msg.known().get(5) == serial and r.msg.known().get(7) != mine]
        denied_errs = [r for r in errs if r.msg.known().get(4) == ACCESS_DENIED and r.msg.known().get(7) == DRIVER.encode()]
        shape = "%s:%s" % (op["type"], "broadcast" if dest is None else dest["kind"])
        self.part.count("probe:" + shape)
        if op["nfds"]:
            self.part.count("probe-with-fd")
        if op["reply"]:
            self.part.count("probe-reply:" + op["reply"]["kind"])
        for f in ("path", "iface", "member"):
            self.part.count("field-%s:%s" % (f, "present" if op[f] is not None else "absent"))
        obs = {"received_by": {str(i): n for i, n in got.items() if n},
               "errors_at_sender": [(r.msg.known().get(4, b"").decode("latin1"), (r.msg.body[0].decode("latin1")[:300]
                                     if r.msg.body and isinstance(r.msg.body[0], bytes) else "")) for r in errs],
               "replies_at_sender": len(others)}
        for i, n in got.items():
            if n > 1:
                self.violation("duplicate-delivery", "client %d received %d copies" % (i, n), op, observed=obs)
                return

        # ---- driver
        if addressed == "driver":
            d = pm.check_send(self.eff[c], msg, None, False)
            allowed = not denied_errs
            if len(errs) + len(others) != 1:
                self.violation("driver-call-reply-count:%d" % (len(errs) + len(others)),
                               "call to the driver got %d replies" % (len(errs) + len(others)), op, observed=obs)
                return
            if any(got.values()):
                self.violation("delivered-to-bystander", "a call to the driver reached a client", op, observed=obs)
                return
            if allowed == d.allowed:
                self.note_decision("send", d, shape)
                return
            dev = self.explain(lambda eff: pm.check_send(eff[c], msg, None, False).allowed, lambda o: o == allowed)
            self.violation(dev or "decision-differs:send:%s" % d.label(),
                           "call to the driver by %s: model %s (%s), bus %s" % (self.meta(c)["user"], d.allowed, d.label(), allowed),
                           op, observed=obs, model={"send": {"allowed": d.allowed, "rule": d.rule}}, effective_rules_sender=self.eff[c])
            return

        # ---- peer traffic: predicted outcome under a given set of effective lists
        snames = self.names_of(c)
        eav = [i for i in self.eaves()]

        def queued_for_addressed(j):
            return dest is not None and dest["kind"] == "name" and j in self.registry.get(dest["name"], [])

        # silent point 6 (resolved): the sender's send rules are evaluated once per prospective
        # recipient - addressee, every broadcast recipient, every eavesdropper - with ITS names
        def predict(eff):
            must, mustnot, detail = set(), set(), {}
            if addressed is None:
                for i in self.listeners():
                    s = pm.check_send(eff[c], msg, self.names_of(i), False)
                    r = pm.check_receive(eff[i], msg, snames, False, False)
                    detail[i] = (s, r)
                    (must if (s.allowed and r.allowed) else mustnot).add(i)
                mustnot |= set(j for j in self.live() if j not in must)
            else:
                s = pm.check_send(eff[c], msg, self.names_of(addressed), requested)
                r = pm.check_receive(eff[addressed], msg, snames, requested, False)
                detail[addressed] = (s, r)
                ok = s.allowed and r.allowed
                if ok:
                    must.add(addressed)
                for j in self.live():
                    if j in must:
                        continue
                    # (an eavesdropper that sends also matches its own message: by the man page's
                    # definition it eavesdrops on it like on anybody else's)
                    if j in eav and ok:
                        v = pm.eavesdrop_verdict(eff[c], eff[j], msg, snames, self.names_of(j), queued_for_addressed(j))
                        detail[("eaves", j)] = v
                        if v.must_not:
                            mustnot.add(j)
                    else:
                        mustnot.add(j)
            return must, mustnot, detail

        def agrees(outcome):
            must, mustnot, _ = outcome
            return all(got.get(i, 0) == 1 for i in must) and all(got.get(i, 0) == 0 for i in mustnot)

        out = predict(self.eff)
        must, mustnot, detail = out
        # ---- bookkeeping of pending calls from what was OBSERVED
        if addressed is not None and op["type"] == "method_call" and got.get(addressed, 0) == 1:
            ent = {"caller": c, "callee": addressed, "serial": serial}
            if op["flags"] & NO_REPLY:
                self.noreply[op["n"]] = ent
            else:
                self.pending[op["n"]] = ent
        if ref is not None and op["reply"]["kind"] == "requested" and got.get(addressed, 0) == 1:
            self.answered[op["reply"]["call"]] = ref
        for t in (self.pending, self.answered, self.noreply):
            while len(t) > 40:
                t.popitem(last=False)

        if not agrees(out):
            dev = self.explain(predict, agrees)
            wrong = sorted([i for i in must if got.get(i, 0) != 1] + [i for i in mustnot if got.get(i, 0) != 0])
            w = wrong[0]
            if w in detail:
                s, r = detail[w]
                if got.get(w, 0):       # delivered although the model denies
                    side, dd = ("send", s) if not s.allowed else ("receive", r)
                else:                   # refused although the model allows
                    txt = " ".join(e[1] for e in obs["errors_at_sender"])
                    side, dd = ("receive", r) if "Rejected receive message" in txt else ("send", s)
                key = dev or "decision-differs:%s:%s" % (side, dd.label())
                model = {"send": {"allowed": s.allowed, "rule": s.rule}, "receive": {"allowed": r.allowed, "rule": r.rule},
                         "requested_reply": requested}
            elif ("eaves", w) in detail:
                # the copy for an eavesdropper: which of the two rule lists keeps it away
                v = detail[("eaves", w)]
                side, dd = ("send", v.send) if v.send_denied else ("receive", v.recv)
                key = dev or "eavesdropper-received-although-denied:%s:%s" % (side, dd.label())
                model = {"must_receive": sorted(must), "must_not_receive": sorted(mustnot),
                         "eavesdropper": {"send_rules_of_sender_with_eavesdropper_as_receiver":
                                          {"denied_for_sure": v.send_denied, "allowed": v.send.allowed, "rule": v.send.rule},
                                          "receive_rules_of_eavesdropper":
                                          {"denied_for_sure": v.recv_denied, "allowed": v.recv.allowed, "rule": v.recv.rule},
                                          "queued_for_addressed_name": queued_for_addressed(w)}}
            else:
                key = dev or ("eavesdropper-received-although-denied" if w in eav else "delivered-to-bystander")
                model = {"must_receive": sorted(must), "must_not_receive": sorted(mustnot)}
            self.violation(key, "%s from client %d (%s): model delivers to %s, bus delivered to %s" % (
                shape, c, self.meta(c)["user"], sorted(must), sorted(i for i, n in got.items() if n)),
                op, observed=obs, model=model, message=msg, effective_rules_sender=self.eff[c],
                effective_rules_recipient=self.eff[w] if isinstance(w, int) else None, judged_client=w)
            return

        # ---- agreed: error replies and evidence
        if addressed is not None:
            s, r = detail[addressed]
            delivered = addressed in must
            if op["type"] == "method_call" and not (op["flags"] & NO_REPLY):
                if not delivered and len(denied_errs) != 1:
                    self.violation("denied-call-error-count:%d" % len(denied_errs),
                                   "denied method call earned %d AccessDenied errors (other errors: %r)" % (len(denied_errs), obs["errors_at_sender"]),
                                   op, observed=obs, message=msg)
                    return
            else:
                self.part.count("error-replies-to-denied-non-calls(not judged)", len(errs) if not delivered else 0)
            if delivered and (errs or others):
                self.violation("error-despite-delivery", "delivered message also answered by the bus", op, observed=obs)
                return
            self.note_decision("send", s, shape)
            self.note_registry_shape(s, self.names_of(addressed), dname)
            if s.allowed:
                self.note_decision("receive", r, shape)
                self.note_registry_shape(r, snames, None)
            for j in eav:
                if delivered and ("eaves", j) in detail:
                    self.part.count("eavesdropper:" + ("must-not-receive(confirmed)" if j in mustnot else
                                                       "unjudged(silent point 4/8):%s" % ("got" if got.get(j) else "not-got")))
                    self.note_eavesdropped_copy(detail[("eaves", j)], s, self.names_of(j))
            if len(self.part.samples) < 6 and s.n >= 3:
                self.part.sample({"kind": shape, "sender": self.meta(c)["user"], "message": msg, "requested_reply": requested,
                                  "send": [s.allowed, s.label(), self.where("send", s)], "receive": [r.allowed, r.label(), self.where("receive", r)],
                                  "delivered": delivered})
        else:
            if errs or others:
                self.violation("broadcast-answered", "a broadcast earned its sender a reply", op, observed=obs)
                return
            for i, (s, r) in detail.items():
                self.note_decision("send", s, shape)
                self.note_registry_shape(s, self.names_of(i), None)
                if s.allowed:
                    self.note_decision("receive", r, shape)
                # would the outcome for this recipient be another one if the destination-qualified
                # rules were passed over (what a bus does that forgets who the recipient is)?
                if pm.names_destination_rule(s.rule):
                    self.part.count("broadcast-recipient:send-decided-by-destination-rule:" + ("allowed" if s.allowed else "denied"))
                if pm.check_send(self.eff[c], msg, set(), False).allowed != s.allowed:
                    self.part.count("broadcast-recipient:destination-rules-change-the-send-decision")
                    if r.allowed:
                        self.part.count("broadcast-recipient:destination-rules-change-the-delivery:" +
                                        ("delivered-only-thanks-to-them" if s.allowed else "withheld-only-because-of-them"))
                    if self.meta(i)["listen"] == "eavesdrop":
                        self.part.count("broadcast-recipient:destination-rules-change-the-send-decision:recipient-is-the-eavesdropper")
            if len(set(s.allowed for s, _ in detail.values())) == 2:
                self.part.count("broadcast:send-rules-split-the-recipients")
            self.part.count("broadcast-recipients-judged", len(detail))

    # -- driver loop ----------------------------------------------------------------------------
    def run(self, rng=None):
        try:
            for si, st in enumerate(self.script["stages"]):
                self.begin_stage(si)
                if rng is not None:
                    for op in self.setup_ops(rng, si):
                        st["ops"].append(op)
                        self.exec_op(op)
                    while len(st["ops"]) < st["nops"]:
                        op = self.gen_op(rng)
                        st["ops"].append(op)
                        self.exec_op(op)
                else:
                    for op in st["ops"]:
                        self.exec_op(op)
                self.token = b"c06-none"
                self.tokens_in(self.observe(0), {"op": "end-of-stage"})
                wk = lambda i: any(not n.startswith(":") for n in self.names_of(i))
                if any(wk(i) for i in self.eaves()):
                    self.part.count("configs-with-name-owning-eavesdropper")
                if any(wk(i) for i in self.listeners() if self.meta(i)["listen"] == "signal"):
                    self.part.count("configs-with-name-owning-broadcast-listener")
        except client.Timeout:
            self.hung = True
            self.aborted = "watchdog"
        except (client.Closed, OSError, Abort) as e:
            last = self.script["stages"][self.si]["ops"][-1:] if self.si >= 0 else None
            self.aborted = "%s: %s; last op %s; daemon stderr: %s" % (
                type(e).__name__, str(e)[:1500], json.dumps(last),
                self.daemon.stderr_text()[-600:] if self.daemon is not None else "")
        finally:
            self.finish()


def run_script(b, rundir, script, part, rng=None, full_budget=None):
    s = Scn(b, rundir, script, part, full_budget if full_budget is not None else {})
    s.run(rng)
    return s


def _worker(args):
    seed, shard, nconfigs, tier, users = args
    rng = gen.rng_for(seed, PROP, shard)
    part = report.Part()
    b = build.build("asan", quiet=True)
    rundir = tempfile.mkdtemp(prefix="verif-c06-")
    os.chmod(rundir, 0o755)
    budget = {}
    done = 0
    k = 0
    try:
        while done < nconfigs:
            script = gen_script(rng, "s%d-%d-%d" % (seed, shard, k), users, tier)
            k += 1
            script["stages"] = script["stages"][:max(1, nconfigs - done)]
            done += len(script["stages"])
            nv = len(part.violations)
            s = run_script(b, rundir, script, part, rng, budget)
            if s.aborted and len(part.violations) == nv:
                if s.hung:
                    # DESIGN 1.4: re-run once alone; only a repeat is a hang
                    p2 = report.Part()
                    s2 = run_script(b, rundir + "/again", copy.deepcopy(script), p2, None, {})
                    if s2.hung:
                        part.violation("%s:hang:stage%d" % (PROP, s2.si), "round-trip watchdog fired twice",
                                       {"script": script, "config": config_text(s2.blocks) if s2.blocks else None})
                    else:
                        part.count("watchdog-fired-once(rerun ok)")
                else:
                    part.inconclusive.append("scenario %s aborted: %s" % (script["id"], s.aborted))
    finally:
        shutil.rmtree(rundir, ignore_errors=True)
    return part


def _extra(r):
    def grab(prefix):
        return {k[len(prefix):]: int(v) for k, v in sorted(r.counters.items()) if k.startswith(prefix)}
    r.extra["decisive_rule_position"] = grab("winner-pos:")
    r.extra["attributes_in_deciding_rules"] = grab("winner-attr:")
    r.extra["attributes_in_generated_rules"] = grab("rule-attr:")
    r.extra["contexts_of_deciding_rules"] = grab("winner-ctx:")
    r.extra["probes_per_type"] = grab("probe:")
    r.extra["named_deviations"] = [n for n, _ in DEVIATIONS]


def run(tier, seed, replay=None, scale=1.0):
    r = report.Run(PROP, tier)
    r.rule = RULE
    b = build.build("asan")
    r.builds.append(b.info())
    r.assumptions = ["oracle vf/models/policy.py transcribes doc/dbus-daemon.1.xml.in; its module docstring lists the "
                     "ten points on which the man page is silent and how each is resolved or excluded (point 6: send rules "
                     "are evaluated per prospective recipient with that recipient's names)",
                     "ordering barrier of DESIGN 1.4 (no wall-clock waits); model state re-synchronised from "
                     "ListQueuedOwners and observed deliveries after every step",
                     "needs root to open connections as other users"]
    users = _users()
    if os.getuid() != 0 or len(users) < 3:
        r.inconclusive.append("needs root and at least 3 single-group passwd users (have %d, uid %d)" % (len(users), os.getuid()))
        return r.finish()
    if replay:
        w = json.load(open(replay))["witness"]
        script = w.get("script")
        if script is None:
            for m in json.load(open(replay)).get("more_witnesses", []):
                script = script or (m or {}).get("script")
        part = report.Part()
        if script is None:
            part.inconclusive.append("replay file holds no script")
        else:
            rundir = tempfile.mkdtemp(prefix="verif-c06-")
            os.chmod(rundir, 0o755)
            try:
                s = run_script(b, rundir, script, part, None, {})
                if s.aborted and not part.violations:
                    part.inconclusive.append("replay aborted: %s" % s.aborted)
            finally:
                shutil.rmtree(rundir, ignore_errors=True)
        r.merge(part)
        _extra(r)
        return r.finish()
    total = max(1, int((120 if tier == "quick" else 4000) * scale))
    nshards = min(total, 16 if tier == "quick" else 64)
    per = [total // nshards + (1 if i < total % nshards else 0) for i in range(nshards)]
    shards = [(seed, i, per[i], tier, users) for i in range(nshards)]
    for part in report.run_sharded(_worker, shards):
        r.merge(part)
    full = scale >= 1
    for k, m in (("send:allowed", 500), ("send:denied", 500), ("receive:allowed", 300), ("receive:denied", 200),
                 ("own:allowed", 100), ("own:denied", 100), ("stages:reload", 20), ("stages:fresh", 20),
                 ("probe-with-fd", 200), ("probe-reply:requested", 200), ("probe-reply:bogus", 200),
                 ("probe:signal:broadcast", 300), ("probe:method_call:driver", 100), ("connect:allowed", 5),
                 ("connect:denied", 5), ("daemons-scraped", 20)):
        r.require(k, m if full else 1)
    for k, m in (# per-recipient evaluation of the send rules (silent point 6): broadcasts / eavesdropped copies
                 # whose fate hangs on a send_destination(_prefix) rule and on who the recipient is
                 ("configs-with-name-owning-broadcast-listener", 30), ("configs-with-name-owning-eavesdropper", 5),
                 ("broadcast:send-rules-split-the-recipients", 30),
                 ("broadcast-recipient:destination-rules-change-the-delivery:delivered-only-thanks-to-them", 50),
                 ("broadcast-recipient:destination-rules-change-the-delivery:withheld-only-because-of-them", 50),
                 ("eavesdropped-copy:withheld-by-send-rules-only", 8),
                 ("eavesdropped-copy:withheld-by-destination-rule-naming-the-eavesdropper", 2),
                 ("eavesdropped-copy:withheld-because-the-allow-names-only-the-addressee", 2)):
        r.require(k, m if full else 0)
    _extra(r)
    return r.finish()
