"""C07 - broadcasts reach exactly the connections whose match rules match."""
import collections
import json
import os
import shutil
import tempfile

from vf import build, busproc, client, gen, report, wire
from vf.models import matchrules as mr

PROP = "C07"
RULE = ("scenarios of 3..5 raw clients on a fresh ASan daemon: histories of AddMatch (grammar-generated valid rules "
        "over every key and quoting style; mutated invalid rules; spec-silent rules are sent but not judged), "
        "RemoveMatch (existing rule re-quoted, non-existent rule), listener disconnect, interleaved with probes "
        "generated against the rule set (near-miss values, absent optional fields, args that are strings / object "
        "paths / other types / absent, senders owning well-known names, all 4 message types without destination, "
        "a few unicasts for the eavesdrop clause). Oracle: vf/models/matchrules.py; exactly-one delivery per matching "
        "connection, none otherwise; exactly one reply per AddMatch/RemoveMatch. distinct = (op kind, rule key set "
        "or error class, #matching connections)")

IFACES = [b"com.example.If1", b"com.example.If2", b"com.example.If1.Sub"]
MEMBERS = [b"Changed", b"Changed2", b"Foo"]
PATHS = [b"/com/example/foo", b"/com/example/foo/bar", b"/com/example/foobar", b"/", b"/com", b"/com/example"]
STRS = [b"/aa/bb/", b"/aa/", b"/aa/bb/cc", b"/aa/bb/cc/", b"/aa/b", b"/aa", b"/", b"", b"com.example.backend1",
        b"com.example.backend1.foo", b"com.example.backend1foo", b"com.example", b"x", b"it's", b"a,b", b"back\\slash",
        b"two\\\\", b"sp ace", "é".encode(), b"/aa/bb"]
OPATHS = [b"/aa/bb", b"/aa", b"/", b"/aa/bb/cc"]
WELL = [b"com.example.Sender1", b"com.example.Sender2"]


def _long_path(rng):
    """object paths have no length limit of their own (only the 1024 bytes of the rule text): 255, 256 and more bytes"""
    n = rng.choice([254, 255, 256, 257, 300, 512, 700])
    comps = []
    while sum(len(c) + 1 for c in comps) < n:
        comps.append(b"p" * min(rng.randint(1, 60), max(1, n - sum(len(c) + 1 for c in comps) - 1)))
    return b"/" + b"/".join(comps)


def gen_rule_pairs(rng, clients):
    keys = []
    pool = ["type", "sender", "interface", "member", "path", "path_namespace", "destination", "eavesdrop",
            "arg", "argpath", "arg0namespace"]
    n = rng.choice([0, 1, 1, 2, 2, 3, 4, 6])
    chosen = rng.sample(pool, min(n, len(pool)))
    if "path" in chosen and "path_namespace" in chosen:
        chosen.remove(rng.choice(["path", "path_namespace"]))
    pairs = []
    used = set()
    for k in chosen:
        if k == "type":
            pairs.append((b"type", rng.choice([b"signal", b"signal", b"signal", b"method_call", b"method_return", b"error"])))
        elif k == "sender":
            cands = [c.unique for c in clients] + WELL + [b"org.freedesktop.DBus"]
            # a unique name that has not been handed out yet: a later connection may well get it, and the rule then matches
            try:
                mx = max(int(c.unique.split(b".")[1]) for c in clients)
                cands += [b":1.%d" % (mx + 1), b":1.%d" % (mx + 1), b":1.%d" % (mx + 2)]
            except (ValueError, IndexError):
                pass
            pairs.append((b"sender", rng.choice(cands)))
        elif k == "interface":
            pairs.append((b"interface", rng.choice(IFACES)))
        elif k == "member":
            pairs.append((b"member", rng.choice(MEMBERS)))
        elif k == "path":
            pairs.append((b"path", rng.choice(PATHS) if rng.random() > 0.06 else _long_path(rng)))
        elif k == "path_namespace":
            pairs.append((b"path_namespace", rng.choice(PATHS) if rng.random() > 0.06 else _long_path(rng)))
        elif k == "destination":
            pairs.append((b"destination", rng.choice([c.unique for c in clients])))
        elif k == "eavesdrop":
            pairs.append((b"eavesdrop", rng.choice([b"true", b"true", b"false"])))
        elif k == "arg":
            for _ in range(rng.choice([1, 1, 2])):
                i = rng.choice([0, 0, 1, 2, 3, 63])
                if ("a", i) not in used:
                    used.add(("a", i))
                    pairs.append((b"arg%d" % i, rng.choice(STRS)))
        elif k == "argpath":
            i = rng.choice([0, 0, 1, 2])
            if ("a", i) not in used:
                used.add(("a", i))
                pairs.append((b"arg%dpath" % i, rng.choice(STRS)))
        elif k == "arg0namespace":
            if ("a", 0) not in used:
                used.add(("a", 0))
                pairs.append((b"arg0namespace", rng.choice([b"com.example.backend1", b"com.example", b"com", b"x"])))
    rng.shuffle(pairs)
    return pairs


def render(rng, pairs):
    return b",".join(k + b"=" + mr.quote(rng, v) for k, v in pairs)


def many_keys_rule(rng, nkeys):
    """valid rule with exactly nkeys distinct keys (uses arg1..argN)"""
    pairs = [(b"type", b"signal"), (b"interface", rng.choice(IFACES)), (b"member", rng.choice(MEMBERS))]
    i = 1
    while len(pairs) < nkeys:
        pairs.append((b"arg%d" % i, rng.choice([b"x", b"y"])))
        i += 1
    return pairs


def mutate_invalid(rng, text, clients):
    k = rng.choice(["unknown-key", "bad-type", "bad-iface", "bad-member", "bad-path", "bad-sender", "arg64", "both-paths",
                    "unterminated", "no-equals", "bad-eavesdrop", "argNnamespace", "spec-silent"])
    sep = b"," if text else b""
    if k == "unknown-key":
        return text + sep + rng.choice([b"foo='bar'", b"typ='signal'", b"arg='x'", b"argx='y'", b"arg0paths='x'", b"Type='signal'"])
    if k == "bad-type":
        return b"type=" + rng.choice([b"'sig'", b"'SIGNAL'", b"''", b"'4'"]) + (b"," + text if text and b"type=" not in text else b"")
    if k == "bad-iface":
        return rng.choice([b"interface='nodot'", b"interface='a..b'", b"interface=''", b"interface='a.b-c'", b"interface='1a.b'"])
    if k == "bad-member":
        return rng.choice([b"member='a.b'", b"member=''", b"member='1x'", b"member='a-b'"])
    if k == "bad-path":
        return rng.choice([b"path='a'", b"path='/a/'", b"path='//'", b"path=''", b"path_namespace='/a//b'", b"path_namespace='x'"])
    if k == "bad-sender":
        return rng.choice([b"sender='nodot'", b"sender='a..b'", b"sender=''", b"destination='a b.c'", b"sender='1a.b'"])
    if k == "arg64":
        return rng.choice([b"arg64='x'", b"arg100='x'", b"arg64path='/'", b"arg99999999999='x'"])
    if k == "both-paths":
        return b"path='/a',path_namespace='/a'"
    if k == "unterminated":
        return text + sep + rng.choice([b"member='Foo", b"arg0='"])
    if k == "no-equals":
        return rng.choice([b"type", b"member'Foo'", b"type='signal',member"])
    if k == "bad-eavesdrop":
        return rng.choice([b"eavesdrop='yes'", b"eavesdrop='TRUE'", b"eavesdrop=''", b"eavesdrop='1'"])
    if k == "argNnamespace":
        return rng.choice([b"arg1namespace='com.example'", b"arg0namespace='a..b'", b"arg0namespace=''", b"arg0namespace='1a'"])
    # spec-silent (sent, verdict not judged)
    return rng.choice([b"", b" type='signal'", b"type='signal' ,member='Foo'", b"type='signal',", b"type='signal',,member='Foo'",
                       b"type='signal',type='signal'", b"member='A',member='B'", b"arg00='x'", b"destination='com.example.X'",
                       b"arg0='" + b"x" * 1100 + b"'", b"sender=':x'"])


def msg_view(mtype, sender, path, iface, member, dest, args):
    return {"type": mtype, "sender": sender, "path": path, "interface": iface, "member": member, "destination": dest,
            "args": args}


def gen_args(rng):
    n = rng.choice([0, 1, 1, 2, 3, 4])
    sig = b""
    vals = []
    view = []
    for _ in range(n):
        r = rng.random()
        if r < 0.6:
            v = rng.choice(STRS)
            sig += b"s"
            vals.append(v)
            view.append(("s", v))
        elif r < 0.8:
            v = rng.choice(OPATHS)
            sig += b"o"
            vals.append(v)
            view.append(("o", v))
        elif r < 0.9:
            sig += b"u"
            vals.append(7)
            view.append(("u", 7))
        else:
            sig += b"v"
            vals.append(wire.Variant(b"s", b"/aa/"))
            view.append(("v", None))
    return sig, vals, view


class Scenario(object):
    def __init__(self, b, rundir, rng, part, sid):
        self.b, self.rundir, self.rng, self.part, self.sid = b, rundir, rng, part, sid
        self.clock = client.Clock()
        self.steps = []
        self.rules = {}      # unique -> list of (Rule, text)
        self.owners = {}
        self.queues = {}
        self.clients = []

    def witness(self, extra=None):
        w = {"scenario": self.sid, "steps": self.steps[-60:]}
        if extra:
            w.update(extra)
        return w

    def violation(self, key, what, extra=None):
        self.part.violation("%s:%s" % (PROP, key), what, self.witness(extra))

    def add_client(self):
        c = client.connect(self.daemon.sock, self.clock)
        self.clients.append(c)
        self.rules[c.unique] = []
        return c

    def start(self):
        self.daemon = busproc.Daemon(self.b, self.rundir, busproc.make_config("@SOCK@"), name="s%d" % self.sid,
                                     wrapper=getattr(self.b, "daemon_wrapper", ()))
        if not self.daemon.started():
            raise RuntimeError("daemon did not start: " + self.daemon.stderr_text()[-400:])
        n = self.rng.randint(3, 5)
        if self.rng.random() < 0.25:
            # make unique names that are prefixes of one another (":1.1" / ":1.1x"): two early clients stay, then
            # a run of short-lived connections burns the single-digit names
            self.add_client()
            self.add_client()
            for _ in range(self.rng.randint(8, 14)):
                t = client.connect(self.daemon.sock, self.clock)
                t.close()
            self.part.count("scenarios-with-prefix-related-unique-names")
            n = max(1, n - 2)
        for _ in range(n):
            self.add_client()
        # some senders own well-known names
        for w in WELL:
            if self.rng.random() < 0.7:
                c = self.rng.choice(self.clients)
                r = c.bus_call(b"RequestName", b"su", [w, 4])
                if r.msg.type == 2 and r.msg.body[0] == 1:
                    self.owners[w] = c.unique
                    self.queues[w] = [c.unique]
                    # sometimes a second connection waits in the name's queue: sender='<name>' means the PRIMARY owner only
                    others = [x for x in self.clients if x is not c]
                    if others and self.rng.random() < 0.5:
                        q = self.rng.choice(others)
                        r2 = q.bus_call(b"RequestName", b"su", [w, 0])
                        if r2.msg.type == 2 and r2.msg.body[0] == 2:
                            self.queues[w].append(q.unique)
                            self.part.count("names-with-a-queued-owner")
        for c in self.clients:
            c.barrier()
            c.take_inbox()

    def call_counted(self, c, member, text):
        """call the driver and count replies up to a barrier (exactly-one-reply monitor)."""
        serial = c.bus_call_async(member, b"s", [text])
        rep = c.wait_reply(serial)
        c.barrier()
        extra = [r for r in c.inbox if r.msg.type in (2, 3) and r.msg.known().get(5) == serial]
        c.inbox = [r for r in c.inbox if r not in extra]
        return rep, extra

    def op_add(self, c, text, cls):
        self.steps.append("AddMatch conn=%s rule=%r" % (c.unique.decode(), text))
        try:
            rule = mr.parse(text)
            verdict = "valid"
        except mr.RuleError as e:
            rule, verdict = None, e.kind
        rep, extra = self.call_counted(c, b"AddMatch", text)
        self.part.count("op:AddMatch:" + verdict.split(":")[0])
        self.part.sig("AddMatch", verdict if rule is None else tuple(sorted(k.rstrip(b"0123456789") if k.startswith(b"arg") else k for k in rule.d)))
        if extra:
            self.violation("add-match:%d-replies" % (1 + len(extra)), "AddMatch answered %d times" % (1 + len(extra)))
        accepted = rep.msg.type == 2
        if verdict == "valid":
            if not accepted:
                self.violation("valid-rule-rejected:%s" % ",".join(sorted(k.decode() for k in rule.d)),
                               "AddMatch rejected a rule of the specified grammar: %s" % rep.msg.known().get(4))
            else:
                self.rules[c.unique].append((rule, text))
        elif verdict.startswith("invalid:"):
            if accepted:
                self.violation("invalid-rule-accepted:%s" % verdict[8:], "AddMatch accepted a rule outside the grammar (%s)" % verdict)
                self.unknown_rules = True
        else:
            # spec-silent: either verdict is fine, but if accepted we no longer know this connection's rule set
            if accepted:
                self.tainted.add(c.unique)
                self.part.count("tainted-by-spec-silent-rule")

    def op_remove(self, c, text, expect_rule):
        self.steps.append("RemoveMatch conn=%s rule=%r" % (c.unique.decode(), text))
        try:
            rule = mr.parse(text)
        except mr.RuleError as e:
            rule = None
        rep, extra = self.call_counted(c, b"RemoveMatch", text)
        self.part.count("op:RemoveMatch")
        have = [i for i, (r, t) in enumerate(self.rules[c.unique]) if rule is not None and r.equal_key() == rule.equal_key()]
        self.part.sig("RemoveMatch", "present" if have else "absent", len(extra))
        if rule is None:
            # text outside the judged grammar: if the bus nevertheless removed something we no longer know
            # this connection's rule set
            if rep.msg.type == 2:
                self.tainted.add(c.unique)
                self.part.count("tainted-by-spec-silent-rule")
            return
        if c.unique in self.tainted:
            return
        if not have and rule.equal_key() in self.maybe.get(c.unique, []):
            # garbage-collectable rule (see op_disconnect): success or MatchRuleNotFound are both fine
            if rep.msg.type == 2 and not extra:
                self.maybe[c.unique].remove(rule.equal_key())
            self.part.count("remove-of-optional-rule")
            return
        if have:
            if extra:
                self.violation("remove-match:%d-replies" % (1 + len(extra)), "RemoveMatch of an existing rule answered %d times" % (1 + len(extra)))
            if rep.msg.type != 2:
                self.violation("remove-existing-failed", "RemoveMatch of a held rule failed: %s" % rep.msg.known().get(4))
            else:
                self.rules[c.unique].pop(have[0])
        else:
            kinds = sorted([rep.msg.type] + [e.msg.type for e in extra])
            if kinds == [2, 3] and any((e.msg.known().get(4) or rep.msg.known().get(4)) == b"org.freedesktop.DBus.Error.MatchRuleNotFound" for e in [rep] + extra):
                self.violation("remove-match:two-replies", "RemoveMatch of a rule that is not held was answered with a success AND MatchRuleNotFound")
            elif extra:
                self.violation("remove-match:%d-replies" % (1 + len(extra)), "RemoveMatch answered %d times" % (1 + len(extra)))
            elif rep.msg.type != 3 or rep.msg.known().get(4) != b"org.freedesktop.DBus.Error.MatchRuleNotFound":
                self.violation("remove-missing-not-reported", "RemoveMatch of a rule that is not held did not fail with MatchRuleNotFound (%s)"
                               % (rep.msg.known().get(4) if rep.msg.type == 3 else "success"))
                # which rule did it remove? unknown: taint
                self.tainted.add(c.unique)

    def op_disconnect(self, c):
        self.steps.append("disconnect conn=%s" % c.unique.decode())
        self.clients.remove(c)
        u = c.unique
        c.close()
        # wait until the bus has processed the disconnect: a fresh observer watches NameOwnerChanged
        obs = self.clients[0]
        obs.bus_call(b"AddMatch", b"s", [b"type='signal',sender='org.freedesktop.DBus',member='NameOwnerChanged',arg0='" + u + b"'"])
        r = obs.bus_call(b"NameHasOwner", b"s", [u])
        if r.msg.type == 2 and r.msg.body[0]:
            while True:
                rec = obs.recv(timeout=client.WATCHDOG)
                if rec.msg.type == 4 and rec.msg.known().get(3) == b"NameOwnerChanged" and rec.msg.body[0] == u:
                    break
        obs.bus_call(b"RemoveMatch", b"s", [b"type='signal',sender='org.freedesktop.DBus',member='NameOwnerChanged',arg0='" + u + b"'"])
        obs.take_inbox()
        for w, q in list(self.queues.items()):
            if u in q:
                q.remove(u)
            if q:
                self.owners[w] = q[0]        # the next in the queue is promoted
            else:
                self.owners.pop(w, None)
                del self.queues[w]
        self.dead_rules = self.rules.pop(u, [])
        # rules of OTHER connections that name the departed unique name as sender / destination can never
        # match again (unique names are not reused); the bus may garbage-collect them, which is only
        # observable through RemoveMatch -> both outcomes are accepted for them from now on
        for cu, held in self.rules.items():
            keep = []
            for rule, text in held:
                if rule.d.get(b"sender") == u or rule.d.get(b"destination") == u:
                    self.maybe.setdefault(cu, []).append(rule.equal_key())
                    self.part.count("rules-made-optional-by-disconnect")
                else:
                    keep.append((rule, text))
            self.rules[cu] = keep
        self.part.count("op:disconnect")

    def op_probe(self, unicast=False, forced=None):
        """forced: (member, [string args]) - a broadcast signal with exactly these arguments"""
        rng = self.rng
        s = rng.choice(self.clients)
        mtype = rng.choice([4] * 8 + [1, 2, 3])
        if forced is not None:
            mtype = 4
        if unicast and mtype in (2, 3):
            mtype = 4   # unrequested replies are a policy matter (C06/C09), not a match-rule matter
        path = rng.choice(PATHS)
        iface = rng.choice(IFACES)
        member = rng.choice(MEMBERS)
        if mtype != 4 and rng.random() < 0.4:
            iface = None
        sig, vals, view = gen_args(rng)
        if forced is not None:
            member = forced[0]
            sig, vals, view = b"s" * len(forced[1]), list(forced[1]), [("s", v) for v in forced[1]]
        dest = None
        if unicast:
            dest = rng.choice([c.unique for c in self.clients if c is not s] or [s.unique])
        kw = dict(path=path, iface=iface, member=member, sig=sig, body=vals, dest=dest)
        if mtype == 2:
            kw.update(path=None, iface=None, member=None, reply_serial=rng.randint(1, 1000))
            path = iface = member = None
        elif mtype == 3:
            kw.update(path=None, iface=None, member=None, reply_serial=rng.randint(1, 1000), error_name=b"com.example.Error.E")
            path = iface = member = None
        flags = 1 if mtype == 1 else 0   # NO_REPLY_EXPECTED on calls: recipients are raw clients that never answer
        serial, data = s.build(mtype, flags=flags, **kw)
        s.send_msg(data, serial)
        self.steps.append("probe from=%s serial=%d type=%d path=%s iface=%s member=%s dest=%s args=%r" % (
            s.unique.decode(), serial, mtype, path, iface, member, dest, view))
        mv = msg_view(mtype, s.unique, path, iface, member, dest, view)
        s.barrier()
        want = set()
        if dest is None and mtype in (2, 3):
            # only signals can be broadcast; the specification is silent on replies without a destination
            for c in self.clients:
                if c is not s:
                    c.barrier()
                c.take_inbox()
            self.part.count("probe-type-%d-unjudged" % mtype)
            return
        for c in self.clients:
            if dest is None and mtype == 1:
                break   # a method call without destination is for the bus itself and must not be shown to anyone
            if c.unique in self.tainted:
                continue
            if dest is not None and c.unique == dest:
                want.add(c.unique)
                continue
            if any(r.matches(mv, self.owners) for r, _ in self.rules[c.unique]):
                want.add(c.unique)
        got = collections.Counter()
        for c in self.clients:
            if c is not s:
                c.barrier()
            for rec in c.take_inbox():
                k = rec.msg.known()
                if k.get(7) == s.unique and rec.msg.serial == serial and rec.msg.type == mtype:
                    got[c.unique] += 1
        self.part.count("probes")
        self.part.count("probe-type-%d%s" % (mtype, "-unicast" if dest else ""))
        self.part.sig("probe", mtype, bool(dest), len(want))
        for c in self.clients:
            u = c.unique
            if u in self.tainted:
                continue
            n = got.get(u, 0)
            if u in want and n == 0:
                which = [t for r, t in self.rules[u] if r.matches(mv, self.owners)][:2]
                keys = sorted(set(k.rstrip(b"0123456789").decode() if k.startswith(b"arg") and not k.endswith(b"path") and k != b"arg0namespace" else k.decode()
                                  for r, t in self.rules[u] if r.matches(mv, self.owners) for k in r.d))
                self.violation("not-delivered:%s" % (",".join(keys) if dest is None else "addressed-recipient"),
                               "message matching a held rule was not delivered to %s (rules %r)" % (u.decode(), which))
            elif u in want and n > 1:
                self.violation("delivered-%d-times" % n, "message delivered %d times to %s" % (n, u.decode()))
            elif u not in want and n > 0:
                self.violation("delivered-without-match:%s" % ("unicast" if dest else "broadcast"),
                               "message delivered to %s, none of whose rules match: %r" % (u.decode(), [t for _, t in self.rules[u]][:6]))
        self.part.count("deliveries-checked", len(self.clients))

    def run(self):
        rng = self.rng
        self.tainted = set()
        self.maybe = {}
        self.start()
        nops = rng.randint(40, 90)
        for _ in range(nops):
            if not self.daemon.alive():
                self.violation("daemon-died", "the bus exited during the scenario")
                break
            r = rng.random()
            c = rng.choice(self.clients)
            if r < 0.22:
                pairs = gen_rule_pairs(rng, self.clients)
                if rng.random() < 0.04:
                    pairs = many_keys_rule(rng, rng.choice([15, 16, 17, 20]))
                text = render(rng, pairs)
                self.op_add(c, text, "valid")
            elif r < 0.26 and self.rules[c.unique]:
                # a twin of a held rule: same keys and values except for the KIND of one key (argN <-> argNpath <->
                # arg0namespace, path <-> path_namespace); RemoveMatch must tell them apart
                rule, text = rng.choice(self.rules[c.unique])
                pairs = list(rule.d.items())
                cands = [i for i, (k, v) in enumerate(pairs)
                         if k in (b"path", b"path_namespace") or (k.startswith(b"arg") and k != b"arg0namespace") or k == b"arg0namespace"]
                if cands:
                    i = rng.choice(cands)
                    k, v = pairs[i]
                    if k == b"path":
                        nk = b"path_namespace"
                    elif k == b"path_namespace":
                        nk = b"path"
                    elif k == b"arg0namespace":
                        nk = rng.choice([b"arg0", b"arg0path"])
                    elif k.endswith(b"path"):
                        nk = k[:-4]
                    else:
                        nk = k + b"path"
                        if k == b"arg0" and rng.random() < 0.5:
                            nk = b"arg0namespace"
                    pairs[i] = (nk, v)
                    rng.shuffle(pairs)
                    self.part.count("twin-rules-added")
                self.op_add(c, render(rng, pairs), "twin")
            elif r < 0.275:
                # twins that differ only in an EMPTY-valued argument key: argJ='' is a condition like any other (the J-th
                # argument is the empty string), not the absence of one.  Both rules are added, one of them is removed by its
                # own text, and two signals that tell them apart are broadcast.
                m_idx = rng.randint(1, 3)
                j_idx = rng.randrange(m_idx)
                v = rng.choice([x for x in STRS if x and b"'" not in x and b"\\" not in x and b"," not in x])
                member = rng.choice(MEMBERS)
                base = [(b"type", b"signal"), (b"member", member), (b"arg%d" % m_idx, v)]
                with_empty = base + [(b"arg%d" % j_idx, b"")]
                first, second = (base, with_empty) if rng.random() < 0.5 else (with_empty, base)
                for pr in (first, second):
                    pr = list(pr)
                    rng.shuffle(pr)
                    self.op_add(c, render(rng, pr), "valid")
                self.part.count("empty-arg-twins-added")
                if rng.random() < 0.8:
                    victim = list(rng.choice([base, with_empty]))
                    rng.shuffle(victim)
                    self.op_remove(c, render(rng, victim), True)

                def args_with(jval):
                    a = [rng.choice([b"x", b"/aa", b"zz"]) for _ in range(m_idx + 1)]
                    a[m_idx] = v
                    a[j_idx] = jval
                    return a
                self.op_probe(forced=(member, args_with(b"")))
                self.op_probe(forced=(member, args_with(b"q")))
            elif r < 0.30:
                base = render(rng, gen_rule_pairs(rng, self.clients))
                self.op_add(c, mutate_invalid(rng, base, self.clients), "mutated")
            elif r < 0.38:
                held = self.rules[c.unique]
                if held and rng.random() < 0.7:
                    rule, text = held[0] if rng.random() < 0.4 else rng.choice(held)
                    pairs = list(rule.d.items())
                    rng.shuffle(pairs)
                    self.op_remove(c, render(rng, pairs), True)
                else:
                    pairs = gen_rule_pairs(rng, self.clients)
                    if held and rng.random() < 0.5:
                        # near miss of a held rule: change one value
                        rule, text = rng.choice(held)
                        pairs = list(rule.d.items())
                        if pairs:
                            i = rng.randrange(len(pairs))
                            k, v = pairs[i]
                            alt = {b"path": PATHS, b"path_namespace": PATHS, b"interface": IFACES, b"member": MEMBERS}.get(k)
                            if alt:
                                pairs[i] = (k, rng.choice([x for x in alt if x != v]))
                            elif k.startswith(b"arg") and k != b"arg0namespace":
                                pairs[i] = (k, rng.choice([x for x in STRS if x != v]))
                    self.op_remove(c, render(rng, pairs), False)
            elif r < 0.41 and len(self.clients) > 2:
                if rng.random() < 0.5:
                    # the leaver holds a rule itself (the bus only scans the rule pools for connections that do)
                    self.op_add(c, b"type='signal',member='Leaver'", "valid")
                self.op_disconnect(c)
                if rng.random() < 0.6:
                    self.add_client()
            elif r < 0.47:
                self.op_probe(unicast=True)
            else:
                self.op_probe()
        self.finish()

    def finish(self):
        for c in self.clients:
            c.close()
        self.daemon.stop()
        for cls, site, text in self.daemon.problems():
            self.part.violation("%s:%s:%s" % (PROP, cls, site), "daemon reported %s" % cls, self.witness({"stderr": text[-3000:]}))


def _run_one(b, rundir, seed, shard, i, part):
    sid = shard * 100000 + i
    for attempt in (0, 1):
        sc = Scenario(b, os.path.join(rundir, "s%d-%d" % (i, attempt)), gen.rng_for(seed, PROP, shard, i), part, sid)
        try:
            sc.run()
            part.evaluations += len(sc.steps)
            part.count("scenarios")
            return sc
        except (client.Timeout, client.Closed) as e:
            alive = sc.daemon.alive() if getattr(sc, "daemon", None) else False
            try:
                sc.finish()
            except Exception:
                pass
            if attempt == 1:
                part.violation("%s:hang:%s" % (PROP, type(e).__name__), "scenario hung twice (daemon alive=%s)" % alive, sc.witness())
            else:
                part.count("watchdog")
        finally:
            shutil.rmtree(os.path.join(rundir, "s%d-%d" % (i, attempt)), ignore_errors=True)
    return None


VG = ["valgrind", "-q", "--tool=memcheck", "--undef-value-errors=yes", "--leak-check=no", "--error-exitcode=97"]


def _worker(args):
    seed, shard, count = args[:3]
    flavor = args[3] if len(args) > 3 else "asan"
    part = report.Part()
    b = build.build(flavor, quiet=True)
    if flavor == "plain":
        b.daemon_wrapper = VG
    rundir = tempfile.mkdtemp(prefix="verif-c07-")
    try:
        for i in range(count):
            sc = _run_one(b, rundir, seed, shard, i, part)
            if sc is not None and shard == 0 and i < 2:
                part.sample({"scenario": sc.sid, "steps": sc.steps[:14]})
    finally:
        shutil.rmtree(rundir, ignore_errors=True)
    return part


def run(tier, seed, replay=None, scale=1.0):
    r = report.Run(PROP, tier)
    r.rule = RULE
    b = build.build("asan")
    r.builds.append(b.info())
    if replay:
        j = json.load(open(replay))
        sid = j["witness"]["scenario"]
        shard, i = divmod(sid, 100000)
        part = report.Part()
        rundir = tempfile.mkdtemp(prefix="verif-c07-")
        try:
            _run_one(b, rundir, j["seed"], shard, i, part)
        finally:
            shutil.rmtree(rundir, ignore_errors=True)
        part.sig("replay", 0)
        r.merge(part)
        return r.finish()
    total = int((1600 if tier == "quick" else 12000) * scale)
    per = max(1, total // 16)
    for part in report.run_sharded(_worker, [(seed, i, per) for i in range(16)]):
        r.merge(part)
    if tier == "thorough":
        # a slice with the uninstrumented daemon under valgrind memcheck (uninitialised-value use)
        pb = build.build("plain")
        r.builds.append(pb.info())
        for part in report.run_sharded(_worker, [(seed, 500 + i, max(1, int(6 * scale)), "plain") for i in range(16)]):
            part.counters["memcheck-scenarios"] = part.counters.pop("scenarios", 0)
            r.merge(part)
    if scale >= 1:
        r.require("probes", 1000)
        r.require("op:AddMatch:valid", 200)
        r.require("op:AddMatch:invalid", 50)
        r.require("op:RemoveMatch", 100)
    r.assumptions = ["rule strings on which the specification is silent (whitespace, empty pairs, duplicate keys, >1024 bytes, >16 keys, "
                     "well-known destination) are sent but their verdict is not judged; a connection that had such a rule accepted is "
                     "excluded from delivery judgement for the rest of the scenario",
                     "ownership used for sender= matching is static between probes"]
    return r.finish()
