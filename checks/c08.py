"""C08 - a peer counts as authenticated only after a valid SASL exchange.

Layer 1 (in-process, harness/h_auth.c): a server-side DBusAuth object with chosen allowed mechanisms and
chosen socket credentials is fed generated client byte streams under many chunkings; every server line,
the state after every chunk, the final identity, the unused bytes and the fd-negotiation flag are judged
by stepping the reference server of vf/sasl.py (written from the specification) alongside.
Layer 2 (real dbus-daemon): the same script grammar over real sockets whose kernel credentials are uid
0 / 1 / 65534; success = "Hello is answered with a unique name", identity = GetConnectionUnixUser asked
from a second, well-behaved connection.
"""
import json
import os
import pwd
import shutil
import subprocess
import tempfile
import time

from vf import build, busproc, client, gen, hrun, report, sasl, wire
from vf.wire import Variant

PROP = "C08"
RULE = ("client scripts from a grammar over AUTH (EXTERNAL / DBUS_COOKIE_SHA1 / ANONYMOUS / unknown mechanisms, with and "
        "without initial response), DATA (right, wrong, odd-length, non-hex), CANCEL, ERROR, BEGIN, NEGOTIATE_UNIX_FD, "
        "junk, over-long lines, missing CR, non-ASCII, blanks; scenarios: valid flow, OK->CANCEL/ERROR->other "
        "mechanism->BEGIN, BEGIN before OK, AUTH twice, NEGOTIATE_UNIX_FD before OK, message bytes before BEGIN, data "
        "pipelined after BEGIN, rejection floods, 16 KiB boundary lines, EXTERNAL identity forms (own uid, other uid, "
        "login names, non-decimal spellings), cookie responses (right / wrong hash / wrong id / wrong context / stale "
        "cookie / malformed) computed from the server's live challenge; each script runs under one allowed-mechanism "
        "setting x socket credentials (daemon layer: unix sockets of uid 0 / 1 / 65534 and loopback TCP without credentials) x chunking (one write, 1-byte dribble, random cuts, per line, cut around BEGIN, "
        "fixed k). Oracle: vf/sasl.py stepped alongside. Server-application layer: a libdbus DBusServer (harness/h_hs.c) with / without a "
        "unix-user function that lets every uid in and with / without anonymous access, seven handshakes (ANONYMOUS with and without trace, "
        "EXTERNAL own / empty / other uid, EXTERNAL rejected then ANONYMOUS, BEGIN alone) in three chunkings: authenticated exactly when the "
        "permitted mechanism says so, the identity the application sees, the unix-user function never asked about a peer without uid, the "
        "message behind BEGIN delivered exactly once or not at all. distinct = (layer, scenario, mechanism setting, credential "
        "class, chunking kind, final outcome, set of model branches taken). Admission layer: histories of "
        "connect-as-uid / close / ReloadConfig with another <allow|deny user=/group=> policy on the real daemon, every "
        "attempt judged against the policy in force, also while other connections of the same user exist")

CRLF = b"\r\n"
GUID = b"0123456789abcdef0123456789abcdef"
CTX_A = sasl.DEFAULT_CONTEXT
# same length as the default context: _dbus_auth_set_context() overwrites only the first len(new) bytes of the
# current context (a defect of that setter, which no production code calls - see the report of this check)
CTX_B = b"verif_context_23_chars_"
assert len(CTX_B) == len(CTX_A)
CTX_OTHER = b"verif_other"
E, C, A = sasl.MECH_EXTERNAL, sasl.MECH_COOKIE, sasl.MECH_ANON
MECH_SETTINGS = [[E], [C], [A], [E, C], [E, A], [C, A], [E, C, A], None]
MAXBUF = sasl.MAX_HANDSHAKE_BUFFER


def _users():
    out = {}
    for p in pwd.getpwall():
        out.setdefault(p.pw_name.encode(), p.pw_uid)
    return out


USERS = _users()
OWNER_UID = os.getuid()
OWNER_NAMES = [n for n, u in USERS.items() if u == OWNER_UID] or [str(OWNER_UID).encode()]


def hello_bytes(serial=1):
    f = [(1, Variant(b"o", client.BUS_PATH)), (2, Variant(b"s", client.BUS)), (3, Variant(b"s", b"Hello")),
         (6, Variant(b"s", client.BUS))]
    return wire.encode_message(1, f, b"", (), serial=serial, flags=0, order="l")


HELLO = hello_bytes()
assert CRLF not in HELLO


# --------------------------------------------------------------------------------------- keyring

class Env(object):
    """A private HOME with a DBUS_COOKIE_SHA1 keyring (format per the specification: one cookie per line,
    'id creation-time hex-cookie', directory not accessible to others)."""

    def __init__(self, root, rng):
        self.home = os.path.join(root, "home")
        self.ring = os.path.join(self.home, ".dbus-keyrings")
        os.makedirs(self.ring, exist_ok=True)
        os.chmod(self.home, 0o700)
        os.chmod(self.ring, 0o700)
        now = int(time.time())
        self.store = {}
        self.stale = {}
        for ctx in (CTX_A, CTX_B, CTX_OTHER):
            fresh = [(7, now - 5), (12, now - 20)]
            rng.shuffle(fresh)
            rows = [(3, now - 1000)] + fresh       # id 3 is older than the 7 minute expiry: stale
            lines = []
            self.store[ctx] = {}
            for cid, ts in rows:
                cookie = bytes(rng.getrandbits(8) for _ in range(24)).hex().encode()
                lines.append(b"%d %d %s\n" % (cid, ts, cookie))
                if cid == 3:
                    self.stale[ctx] = cookie
                else:
                    self.store[ctx][cid] = cookie
            p = os.path.join(self.ring, ctx.decode())
            with open(p, "wb") as fh:
                fh.write(b"".join(lines))
            os.chmod(p, 0o600)

    def reread(self):
        """cookies the server added meanwhile (it regenerates when none is recent enough)"""
        now = int(time.time())
        for ctx in list(self.store):
            try:
                with open(os.path.join(self.ring, ctx.decode()), "rb") as fh:
                    for ln in fh.read().split(b"\n"):
                        f = ln.split(b" ")
                        if len(f) == 3 and f[0].isdigit() and f[1].isdigit() and now - int(f[1]) < 7 * 60:
                            self.store[ctx].setdefault(int(f[0]), f[2])
            except OSError:
                pass


def cookie_line(env, chal, kind, cc):
    """the client's DATA line for a cookie exchange, computed from the server's live challenge"""
    if chal is None:
        chal = (CTX_A, 7, b"00")
    ctx, cid, sc = chal
    ring = env.store.get(ctx, {})
    cookie = ring.get(cid, b"00")
    right = sasl.cookie_response(sc, cc, cookie)
    if kind == "right":
        resp = right
    elif kind == "wrong-id":
        other = [v for k, v in sorted(ring.items()) if k != cid]
        resp = sasl.cookie_response(sc, cc, other[0] if other else b"11")
    elif kind == "wrong-context":
        resp = sasl.cookie_response(sc, cc, env.store.get(CTX_OTHER if ctx != CTX_OTHER else CTX_A, {}).get(cid, b"22"))
    elif kind == "stale":
        resp = sasl.cookie_response(sc, cc, env.stale.get(ctx, b"33"))
    elif kind == "raw-cookie":
        try:
            resp = sasl.cookie_response(sc, cc, bytes.fromhex(cookie.decode()))
        except ValueError:
            resp = right[:-1] + b"0"
    elif kind == "upper" and right.upper() != right:
        resp = cc + b" " + right[len(cc) + 1:].upper()
    elif kind == "nospace":
        resp = cc + right[len(cc) + 1:]
    elif kind == "trunc":
        resp = right[:-1]
    elif kind == "empty-cc":
        resp = sasl.cookie_response(sc, b"", cookie)
    elif kind == "extra":
        resp = right + b" x"
    elif kind == "wrong-challenge":
        resp = sasl.cookie_response(sc + b"0", cc, cookie)
    else:   # wrong-hash
        last = right[-1:]
        resp = right[:-1] + (b"0" if last != b"0" else b"1")
    return b"DATA " + resp.hex().encode() + CRLF


COOKIE_BAD = ["wrong-hash", "wrong-id", "wrong-context", "stale", "raw-cookie", "upper", "nospace", "trunc", "empty-cc",
              "extra", "wrong-challenge"]


# --------------------------------------------------------------------------------------- script grammar

def hx(b):
    return b.hex().encode()


def _cc(rng):
    r = rng.random()
    if r < 0.7:
        return bytes(rng.getrandbits(8) for _ in range(rng.choice([1, 8, 16]))).hex().encode()
    if r < 0.85:
        return rng.choice([b"a:b", b"x", b"::", b"%$#", b"challenge"])
    return bytes(rng.choice(b"abcXYZ019:_-\x80\xff\x01") for _ in range(rng.randint(1, 12)))


def ident_forms(rng, cred):
    """(kind, identity bytes) for EXTERNAL"""
    u = cred if cred is not None else rng.choice([0, 1000])
    other = rng.choice([x for x in (0, 1, 1000, 65534, u + 1) if x != u])
    names = [n for n, v in USERS.items() if v == u]
    k = rng.choice(["own", "own", "own", "empty", "other", "other", "name-own", "name-other", "name-unknown", "octal", "hex",
                    "plus", "space", "minus", "trailing-space", "zeros", "huge", "nul", "wrap32", "neg-wrap"])
    if k == "own":
        return k, str(u).encode()
    if k == "empty":
        return k, b""
    if k == "other":
        return k, str(other).encode()
    if k == "name-own":
        return k, (rng.choice(names) if names else b"nosuchuser")
    if k == "name-other":
        return k, rng.choice([b"daemon", b"games", b"nobody", b"root"])
    if k == "name-unknown":
        return k, rng.choice([b"nosuchuser", b"Root", b"r\xc3\xb6\xc3\xb6t", b"root ", b"x" * 300])
    if k == "octal":
        return k, b"0" + oct(u)[2:].encode()
    if k == "hex":
        return k, hex(u).encode()
    if k == "plus":
        return k, b"+" + str(u).encode()
    if k == "space":
        return k, b" " + str(u).encode()
    if k == "minus":
        return k, b"-" + str(u).encode()
    if k == "trailing-space":
        return k, str(u).encode() + b" "
    if k == "zeros":
        return k, b"0" * rng.choice([1, 3, 50]) + str(u).encode()
    if k == "huge":
        return k, rng.choice([b"99999999999999999999999999", b"18446744073709551616", b"4294967296"])
    if k == "nul":
        return k, str(u).encode() + b"\0"
    if k == "wrap32":
        return k, str((1 << 32) + u).encode()
    return k, b"-" + str((1 << 64) - u).encode()


def flow(rng, mech, cred, good=True):
    """items that (try to) bring `mech` to OK"""
    if mech == E:
        if good:
            ident = rng.choice([str(cred if cred is not None else 0).encode(), b""])
        else:
            ident = ident_forms(rng, cred)[1]
        r = rng.random()
        if r < 0.6 and ident != b"":
            return [("raw", b"AUTH EXTERNAL " + hx(ident) + CRLF)]
        return [("raw", b"AUTH EXTERNAL" + CRLF), ("raw", (b"DATA " + hx(ident) if ident else rng.choice([b"DATA", b"DATA "])) + CRLF)]
    if mech == A:
        r = rng.random()
        if r < 0.5:
            return [("raw", b"AUTH ANONYMOUS" + CRLF)]
        trace = rng.choice([b"verif", b"a@b.c", b"\xff\xfe", b"x" * 300, b"tr\xc3\xa4ce"])
        return [("raw", b"AUTH ANONYMOUS " + hx(trace) + CRLF)]
    if mech == C:
        user = rng.choice(OWNER_NAMES + [str(OWNER_UID).encode()]) if good or rng.random() < 0.5 else \
            rng.choice([b"daemon", b"nobody", b"nosuchuser", b"1", b"", b"0x0", b"+0", b"00", b"root\0"])
        kind = "right" if good else rng.choice(COOKIE_BAD)
        if rng.random() < 0.8 and user:
            first = [("raw", b"AUTH DBUS_COOKIE_SHA1 " + hx(user) + CRLF)]
        else:
            first = [("raw", b"AUTH DBUS_COOKIE_SHA1" + CRLF), ("raw", b"DATA " + hx(user) + CRLF)]
        return first + [("cookie", kind, _cc(rng))]
    return [("raw", b"AUTH " + mech + rng.choice([b"", b" 30", b" 7ab83f32ee"]) + CRLF)]


UNKNOWN_MECHS = [b"KERBEROS_V4", b"SKEY", b"PLAIN", b"external", b"EXTERNAL2", b"DBUS_COOKIE_SHA", b"GSSAPI", b"", b"ANONYMOUS\x01"]


def soup_line(rng, cred):
    u = str(cred if cred is not None else 1000).encode()
    pool = [
        b"AUTH", b"AUTH ", b"AUTH EXTERNAL", b"AUTH EXTERNAL " + hx(u), b"AUTH EXTERNAL " + hx(b"0"), b"AUTH ANONYMOUS",
        b"AUTH DBUS_COOKIE_SHA1 " + hx(OWNER_NAMES[0]), b"AUTH DBUS_COOKIE_SHA1", b"AUTH " + rng.choice(UNKNOWN_MECHS),
        b"AUTH EXTERNAL 3", b"AUTH EXTERNAL 3g", b"AUTH EXTERNAL zz", b"AUTH EXTERNAL 30 31", b"AUTH EXTERNAL 30 ",
        b"AUTH  EXTERNAL " + hx(u), b"AUTH\tEXTERNAL " + hx(u), b"AUTH EXTERNAL\t" + hx(u),
        b"DATA", b"DATA ", b"DATA " + hx(u), b"DATA 3", b"DATA xyz", b"DATA 30 30", b"DATA " + hx(b"0"), b"DATA 3A3a",
        b"CANCEL", b"CANCEL now", b"ERROR", b"ERROR \"something\"", b"ERROR\t", b"BEGIN", b"BEGIN ", b"BEGIN x",
        b"NEGOTIATE_UNIX_FD", b"NEGOTIATE_UNIX_FD 1", b"AGREE_UNIX_FD", b"OK " + GUID, b"REJECTED EXTERNAL",
        b"FOOBAR", b"EXTENSION_COM_VERIF_DO_STUFF", b"", b" ", b"auth external", b"Begin", b"begin", b"BEGINX", b" BEGIN",
        b"\tBEGIN", b"AUTH\x80", b"\xffBEGIN", b"BEG\0IN", b"BEGIN\0", b"\0", b"AUTH EXTERNAL " + hx(u) + b"\r", b"BEGIN\r",
        b"\rBEGIN", b"\nBEGIN", b"AUTH EXTERNAL " + hx(u) + b"\nBEGIN", HELLO, b"l\1\0\1",
    ]
    return rng.choice(pool) + CRLF


def trailing(rng):
    r = rng.random()
    if r < 0.25:
        return b""
    if r < 0.5:
        return HELLO
    if r < 0.65:
        return bytes(rng.getrandbits(8) for _ in range(rng.choice([1, 7, 40])))
    if r < 0.8:
        return b"AUTH ANONYMOUS\r\nBEGIN\r\n" + HELLO
    if r < 0.9:
        return b"\r\n"
    return HELLO + b"BEGIN\r\n" + HELLO[:rng.randint(1, 20)]


def gen_script(rng, mechs, cred, daemon=False):
    """-> (scenario name, items).  items: ("raw", bytes) | ("cookie", kind, client challenge)"""
    allowed = mechs if mechs is not None else [E, C, A]
    pool = ["valid"] * 5 + ["switch"] * 4 + ["begin-early"] * 2 + ["soup"] * 5 + ["flood"] * 2 + ["long"] * 1 + ["ident"] * 4 + \
           ["cookie"] * 4 + ["premsg"] * 2 + ["auth-twice"] * 1 + ["neg-early"] * 1 + ["notallowed"] * 1
    sc = rng.choice(pool)
    anymech = lambda: rng.choice(allowed) if rng.random() < 0.8 else rng.choice([E, C, A])
    neg = lambda: [("raw", b"NEGOTIATE_UNIX_FD" + CRLF)] * rng.choice([0, 0, 1, 1, 2])
    begin = lambda: [("raw", b"BEGIN" + CRLF + (rng.choice([b"", HELLO, HELLO]) if daemon else trailing(rng)))]
    items = []
    if sc == "valid":
        items = flow(rng, anymech(), cred) + neg() + begin()
    elif sc == "switch":
        m1, m2 = anymech(), anymech()
        items = flow(rng, m1, cred) + neg() + [("raw", rng.choice([b"CANCEL", b"ERROR", b"ERROR x y"]) + CRLF)]
        if rng.random() < 0.25:
            items += begin()        # BEGIN right after the rejection: must not authenticate
        else:
            items += flow(rng, m2, cred, good=rng.random() < 0.7) + neg() + begin()
    elif sc == "begin-early":
        pre = rng.choice(["none", "auth-noresp", "cookie-chal", "rejected", "error"])
        if pre == "auth-noresp":
            items = [("raw", b"AUTH " + anymech() + CRLF)]
        elif pre == "cookie-chal":
            items = [("raw", b"AUTH DBUS_COOKIE_SHA1 " + hx(OWNER_NAMES[0]) + CRLF)]
        elif pre == "rejected":
            items = [("raw", b"AUTH EXTERNAL " + hx(b"4242") + CRLF)]
        elif pre == "error":
            items = [("raw", b"FOOBAR" + CRLF)]
        items += begin()
        if rng.random() < 0.5:
            items += flow(rng, anymech(), cred) + begin()
    elif sc == "soup":
        items = [("raw", soup_line(rng, cred)) for _ in range(rng.randint(1, 10))]
        if rng.random() < 0.5:
            items += flow(rng, anymech(), cred, good=rng.random() < 0.7) + begin()
    elif sc == "flood":
        n = rng.choice([3, 5, 6, 7, 12, 18, 25])
        rej = [b"AUTH", b"ERROR", b"AUTH EXTERNAL " + hx(b"424242"), b"AUTH SKEY 7ab83f32ee", b"AUTH " + anymech() + b" " + hx(b"nosuchuser")]
        for _ in range(n):
            items.append(("raw", rng.choice(rej) + CRLF))
            if rng.random() < 0.2:
                items.append(("raw", b"FOOBAR" + CRLF))
        items += flow(rng, anymech(), cred) + begin()
    elif sc == "long":
        kind = rng.choice(["tail", "tail", "line", "line", "auth-zeros"] + ([] if daemon else ["lines-burst"]))
        if rng.random() < 0.5:
            items += flow(rng, anymech(), cred)
        if kind == "tail":
            n = rng.choice([16383, 16384, 16385, 16400, 20000, 65536])
            items.append(("raw", rng.choice([b"x", b"AUTH EXTERNAL ", b"DATA "]) + b"3" * n))
        elif kind == "line":
            n = rng.choice([8000, 16380, 16381, 16382, 16383, 16385, 20000])
            items.append(("raw", b"Z" * n + CRLF))
            items += flow(rng, anymech(), cred) + begin()
        elif kind == "auth-zeros":
            n = rng.choice([100, 4000, 8100])
            items.append(("raw", b"AUTH EXTERNAL " + b"30" * n + hx(str(cred if cred is not None else 0).encode()) + CRLF))
            items += begin()
        else:
            items += [("raw", b"FOOBAR" + CRLF)] * rng.choice([100, 2000, 3000])
            items += flow(rng, anymech(), cred) + begin()
    elif sc == "ident":
        k, ident = ident_forms(rng, cred)
        sc = "ident:" + k
        if rng.random() < 0.6 and ident:
            items = [("raw", b"AUTH EXTERNAL " + hx(ident) + CRLF)]
        else:
            items = [("raw", b"AUTH EXTERNAL" + CRLF), ("raw", (b"DATA " + hx(ident)).rstrip(b" ") + CRLF)]
        items += neg() + begin()
    elif sc == "cookie":
        good = rng.random() < 0.45
        items = flow(rng, C, cred, good=good)
        if not good and rng.random() < 0.5:
            items += flow(rng, C, cred, good=True)      # failed attempt followed by a successful retry
        if rng.random() < 0.15:
            items.append(("cookie", "right", _cc(rng)))  # a second response after the exchange is over
        items += neg() + begin()
    elif sc == "premsg":
        items = flow(rng, anymech(), cred) + [("raw", HELLO + rng.choice([b"", CRLF, CRLF + b"FOO" + CRLF]))]
        if rng.random() < 0.6:
            items += begin()
    elif sc == "auth-twice":
        m1, m2 = anymech(), anymech()
        first = flow(rng, m1, cred)
        items = first[:1] + flow(rng, m2, cred)[:1] + first[1:] + begin()
    elif sc == "neg-early":
        items = [("raw", b"NEGOTIATE_UNIX_FD" + CRLF)] + flow(rng, anymech(), cred)[:rng.choice([1, 2])] + \
                [("raw", b"NEGOTIATE_UNIX_FD" + CRLF)] + begin()
    else:   # notallowed: a mechanism outside the allowed set, then BEGIN
        others = [m for m in (E, C, A) if m not in allowed] or [rng.choice(UNKNOWN_MECHS)]
        items = flow(rng, rng.choice(others), cred) + begin()
    # mutations
    if rng.random() < 0.25 and items:
        i = rng.randrange(len(items))
        m = rng.choice(["junk", "drop-cr", "lower", "tab", "nul", "hibit", "dup", "space", "begin-args"])
        if m == "junk":
            items.insert(i, ("raw", soup_line(rng, cred)))
        elif m == "dup":
            items.insert(i, items[i])
        elif items[i][0] == "raw":
            b = items[i][1]
            if m == "drop-cr" and CRLF in b:
                b = b.replace(CRLF, b"\n", 1)
            elif m == "lower":
                b = b[:4].lower() + b[4:]
            elif m == "tab" and b" " in b:
                b = b.replace(b" ", b"\t", 1)
            elif m == "space" and b" " in b:
                b = b.replace(b" ", b"  ", 1)
            elif m in ("nul", "hibit") and len(b) > 2:
                p = rng.randrange(0, min(len(b), 24))
                b = b[:p] + (b"\0" if m == "nul" else b"\xe9") + b[p:]
            elif m == "begin-args" and b.startswith(b"BEGIN" + CRLF) and not daemon:
                b = b"BEGIN now" + b[5:]
            items[i] = ("raw", b)
        sc += "+" + m
    return sc, items


def chunkings(rng, data, kind=None):
    """-> (kind, chunk list)"""
    n = len(data)
    if n == 0:
        return "one", []
    kind = kind or rng.choice(["one", "one", "dribble", "random", "random", "lines", "begin-cut", "k"])
    if kind == "dribble" and n > 1500:
        kind = "k"
    if kind == "one":
        return kind, [n]
    if kind == "dribble":
        return kind, [1] * n
    if kind == "lines":
        cuts = [e for _, e in sasl.split_lines(data)[0]][:300]
    elif kind == "begin-cut":
        i = data.find(b"BEGIN")
        if i < 0:
            cuts = [rng.randint(1, n)]
        else:
            cuts = sorted(set(min(n, max(1, i + rng.randint(-3, 12))) for _ in range(rng.choice([1, 2, 3]))))
    elif kind == "k":
        k = rng.choice([2, 3, 7, 64, 1000, 4096]) if n <= 1500 else rng.choice([64, 1000, 4096, 16384, 16385])
        if n // k > 300:
            k = n // 300 + 1
        cuts = list(range(k, n, k))
    else:
        cuts = sorted(set(rng.randint(1, n) for _ in range(rng.randint(1, 8))))
    out, prev = [], 0
    for c in cuts:
        if prev < c < n:
            out.append(c - prev)
            prev = c
    out.append(n - prev)
    return kind, out


def ser_items(items):
    return [[it[0], it[1].hex()] if it[0] == "raw" else ["cookie", it[1], it[2].hex()] for it in items]


def deser_items(js):
    return [("raw", bytes.fromhex(j[1])) if j[0] == "raw" else ("cookie", j[1], bytes.fromhex(j[2])) for j in js]


# --------------------------------------------------------------------------------------- named deviations

def c_strtoul0(s):
    """C strtoul(s, &end, 0) on a NUL-terminated copy, succeeding only if it consumed all len(s) bytes"""
    s = bytes(s)
    i = 0
    while i < len(s) and s[i] in b" \t\n\v\f\r":
        i += 1
    neg = False
    if i < len(s) and s[i] in b"+-":
        neg = s[i] == 0x2d
        i += 1
    base, digs = 10, b"0123456789"
    if s[i:i + 2].lower() == b"0x" and i + 2 < len(s) and s[i + 2] in b"0123456789abcdefABCDEF":
        base, digs = 16, b"0123456789abcdefABCDEF"
        i += 2
    elif s[i:i + 1] == b"0":
        base, digs = 8, b"01234567"
    j = i
    while j < len(s) and s[j] in digs:
        j += 1
    if j == i or j != len(s) or j - i > 40:
        return None
    v = int(s[i:j], base)
    if v >= 1 << 64:
        return None
    return (-v) % (1 << 64) if neg else v


class StrtoulModel(sasl.Model):
    """deviation: identity strings are run through strtoul(base 0): blanks, sign, 0x and octal spellings count as uids"""

    def resolve_identity(self, s):
        v = c_strtoul0(s)
        if v is not None:
            return v, "numeric"
        return self.users.get(bytes(s)), "name"


class NulTruncModel(sasl.Model):
    """deviation: a login name is looked up as a C string, i.e. cut at its first NUL byte"""

    def resolve_identity(self, s):
        s = bytes(s)
        if b"\0" in s and not s.split(b"\0")[0].isdigit():
            return self.users.get(s.split(b"\0")[0]), "name"
        return sasl.Model.resolve_identity(self, s)


class OddHexModel(sasl.Model):
    """deviation: hex of odd length is accepted, the dangling digit becoming the high nibble of a final byte"""

    def hexdecode(self, b):
        return sasl.hexdecode(b + b"0") if len(b) % 2 else sasl.hexdecode(b)


class AllDeviationsModel(OddHexModel, StrtoulModel):
    def resolve_identity(self, s):
        s = bytes(s)
        v = c_strtoul0(s)
        if v is not None:
            return v, "numeric"
        return self.users.get(s.split(b"\0")[0]), "name"


DEVIATIONS = [("malformed-hex:odd-length-accepted", OddHexModel, "hex data with an odd number of digits was decoded (last digit taken as a "
               "high nibble) instead of being refused"),
              ("identity-string:strtoul-base0", StrtoulModel, "an authorization identity that is not a plain decimal number was "
               "interpreted with strtoul(base 0) (blanks / sign / 0x / octal), or a decimal one with a leading zero as octal"),
              ("identity-string:login-name-cut-at-nul", NulTruncModel, "a user name containing a NUL byte was looked up as the part before the NUL"),
              ("malformed-hex+identity-string:combined", AllDeviationsModel, "several of the named hex / identity-string deviations at once")]


def tracker_for(model):
    devs = []
    for key, cls, what in DEVIATIONS:
        dm = cls.__new__(cls)
        dm.__dict__.update(model.__dict__)
        devs.append((key, dm))
    return sasl.Tracker(model, devs)


def report_deviations(part, tr, wit):
    seen = set()
    for key, line, obs, exp in tr.deviations_hit:
        if key in seen:
            continue
        seen.add(key)
        what = [w for k, _, w in DEVIATIONS if k == key][0]
        part.violation("%s:%s" % (PROP, key), "%s: client line %r answered with %r, the specification permits %s"
                       % (what, line[:60], obs[1][:40] if obs[0] == "line" else obs[0], "/".join(sorted(set(k for k, _ in exp)))), wit)


# --------------------------------------------------------------------------------------- judging (in-process)

def _mismatch_key(d, obs):
    if obs[0] == "line":
        o = sasl.parse_reply(obs[1])[0].lower()
    else:
        o = obs[0]
    core = [(k, l) for k, l in d["expected"] if not l.startswith("too-many-rejections")] or d["expected"]
    kinds = sorted(set(k for k, _ in core))
    labs = sorted(set(l.split("(")[0] for _, l in core))
    if d["content_problems"]:
        return "%s:reply-content:%s" % (PROP, d["content_problems"][0][0].lower()), d["content_problems"][0][1]
    return ("%s:%s-instead-of-%s:%s" % (PROP, o, "/".join(kinds).lower() or "nothing", "+".join(labs)[:90]),
            "server reacted with %s where the specification's state machine permits %s (model phase %s)"
            % (o.upper(), "/".join(kinds) or "nothing", "/".join(d["phases"])))


def judge(part, model, stream, steps, end, wit, tag):
    """steps: [[fed, out hex, state], ...]; end: final record.  Returns (outcome, tracker)."""
    tr = tracker_for(model)
    try:
        return _judge(part, model, tr, stream, steps, end, wit)
    finally:
        report_deviations(part, tr, wit)


def _judge(part, model, tr, stream, steps, end, wit):
    lines, _ = sasl.split_lines(stream)
    li = 0
    answered_end = 0
    outbuf = b""
    outcome = "WAIT"
    begin_end = None

    def viol(key, what):
        part.violation(key, what, wit)
        return "VIOLATION", tr

    for fed, outhex, state in steps:
        outbuf += bytes.fromhex(outhex)
        while True:
            i = outbuf.find(CRLF)
            if i < 0:
                break
            sline, outbuf = outbuf[:i], outbuf[i + 2:]
            if li >= len(lines) or lines[li][1] > fed:
                return viol("%s:reply-without-complete-line" % PROP, "server sent %r although no complete client line is outstanding" % sline[:60])
            if not sasl.is_ascii_line(sline):
                return viol("%s:reply-content:non-ascii" % PROP, "server line %r is not ASCII" % sline[:60])
            obs = ("line", sline)
            d = tr.step(lines[li][0], obs)
            if d:
                return viol(*_mismatch_key(d, obs))
            if tr.n_rejected > sasl.MAX_REJECTIONS:
                return viol("%s:unbounded-rejections" % PROP, "more than %d REJECTED answers without disconnect" % sasl.MAX_REJECTIONS)
            answered_end = lines[li][1]
            li += 1
        have_line = li < len(lines) and lines[li][1] <= fed
        if state == "AUTH":
            if outbuf:
                return viol("%s:reply-content:unterminated" % PROP, "unterminated server output %r" % outbuf[:60])
            obs = ("authenticated",)
            d = tr.step(lines[li][0], obs) if have_line else {"expected": [], "content_problems": [], "phases": tr.phases()}
            if d:
                exp = sorted(set(k for k, _ in d["expected"]))
                return viol("%s:authenticated-without-valid-exchange:%s" % (PROP, "/".join(d["phases"])),
                            "server reached AUTHENTICATED on client line %r in model phase %s (permitted: %s)"
                            % ((lines[li][0][:40] if have_line else None), "/".join(d["phases"]), "/".join(exp) or "nothing"))
            begin_end = lines[li][1]
            outcome = "AUTH"
            break
        if state == "DISC":
            outcome = "DISC"
            if fed - answered_end > MAXBUF:
                part.count("inproc:disconnect:buffer-overflow")
                tr.labels.append("buffer-overflow")
            elif len(outhex) // 2 > MAXBUF:
                # more than 16 KiB of replies were waiting to be written when the server gave up
                part.count("inproc:disconnect:output-overflow")
                tr.labels.append("output-overflow")
            elif have_line and any(k == "DISCONNECT" and not l.startswith("too-many-rejections")
                                   for k, l in tr.expectation_labels(lines[li][0])) and \
                    tr.step(lines[li][0], ("disconnect",)) is None:
                part.count("inproc:disconnect:on-line")
            elif tr.last_reply == "REJECTED":
                part.count("inproc:disconnect:rejections")
                part.count("rejection-bound:%d" % tr.n_rejected)
                tr.labels.append("too-many-rejections:after-rejected")
            elif have_line and tr.step(lines[li][0], ("disconnect",)) is None:
                part.count("inproc:disconnect:instead-of-rejected")
                part.count("rejection-bound:%d" % tr.n_rejected)
            else:
                return viol("%s:unexplained-disconnect:%s" % (PROP, "/".join(tr.phases())),
                            "server wants to disconnect; next client line %r, %d unanswered bytes buffered, last reply %s"
                            % ((lines[li][0][:40] if have_line else None), fed - answered_end, tr.last_reply))
            break
        if state != "WAIT":
            part.inconclusive.append("harness reported state %s" % state)
            return "INCONCLUSIVE", tr
        if have_line:
            exp = sorted(tr.expectations(lines[li][0]))
            return viol("%s:no-reaction:%s" % (PROP, "/".join(exp).lower()),
                        "complete client line %r got no reaction (permitted: %s)" % (lines[li][0][:40], "/".join(exp)))
        if fed - answered_end > MAXBUF:
            return viol("%s:handshake-buffer-unbounded" % PROP,
                        "%d bytes of unterminated handshake data buffered and the server keeps waiting" % (fed - answered_end))
    if outcome == "WAIT" and outbuf:
        return viol("%s:reply-content:unterminated" % PROP, "unterminated server output %r" % outbuf[:60])
    if end["state"] != outcome:
        return viol("%s:state-changed-without-input:%s-%s" % (PROP, outcome, end["state"]), "final state differs from the state after the last chunk")
    if outcome == "WAIT" and end["fed"] != len(stream):
        part.inconclusive.append("harness stopped feeding at %d of %d without a terminal state" % (end["fed"], len(stream)))
        return "INCONCLUSIVE", tr
    if outcome == "AUTH":
        idents = tr.identities()
        got = ("uid", end["uid"]) if end["uid"] is not None else ("anon",)
        if got not in idents:
            return viol("%s:identity:%s-instead-of-%s" % (PROP, got[0], "/".join(sorted(i[0] for i in idents if i))),
                        "identity after authentication is %r, the completed mechanism established %r" % (got, sorted(idents)))
        if end["pid"] is not None and end["pid"] != wit["setting"].get("pid"):
            return viol("%s:identity:pid" % PROP, "identity carries pid %r, socket credentials say %r" % (end["pid"], wit["setting"].get("pid")))
        want_unused = stream[begin_end:end["fed"]]
        if end["unused"] is None or bytes.fromhex(end["unused"]) != want_unused:
            return viol("%s:unused-bytes" % PROP, "unused bytes %r differ from the %d bytes that followed BEGIN"
                        % ((end["unused"] or "")[:80], len(want_unused)))
        ag = tr.agreed()
        if ag == {None} and end["fdneg"]:
            return viol("%s:fd-negotiated-without-agree" % PROP, "unix fd passing counts as negotiated but AGREE_UNIX_FD was never sent")
        if ag == {"cur"} and not end["fdneg"]:
            return viol("%s:fd-agree-forgotten" % PROP, "AGREE_UNIX_FD was sent after the final OK but fd passing is not negotiated")
        part.count("inproc:authenticated")
        part.count("inproc:authenticated-as:" + got[0])
        part.count("inproc:unused-bytes-compared")
    elif outcome == "DISC":
        part.count("inproc:disconnected")
    else:
        part.count("inproc:still-in-handshake")
    part.count("inproc:server-lines", li)
    part.count("inproc:rejected-lines", tr.n_rejected)
    for lab in set(tr.labels):
        part.count("branch:" + lab)
    return outcome, tr


def _crash_violation(part, c, wit, what):
    cls = c.get("class") or (("hang", "auth") if c.get("timeout") else ("crash", "rc%s" % c.get("rc")))
    part.violation("%s:%s:%s" % (PROP, cls[0], cls[1]), what, dict(wit, stderr=c.get("stderr", "")[-2500:]))


# --------------------------------------------------------------------------------------- in-process worker

def setting_params(setting, home):
    m = "*" if setting["mechs"] is None else ",".join(setting["mechs"])
    return "%s %s %s %s %d %s %d %s" % (
        m, "-" if setting["uid"] is None else setting["uid"], "-" if setting["pid"] is None else setting["pid"],
        setting["context"].encode().hex() if setting["context"] else "-", 1 if setting["fd"] else 0, home, setting["sq"],
        GUID.decode())


def model_for(setting, env):
    mechs = None if setting["mechs"] is None else [m.encode() for m in setting["mechs"]]
    return sasl.Model(mechs=mechs, cred_uid=setting["uid"], cookies=env.store,
                      context=(setting["context"].encode() if setting["context"] else CTX_A), owner_uid=OWNER_UID, users=USERS,
                      unix_fd_possible=bool(setting["fd"]), guid=GUID)


def rand_setting(rng):
    mechs = rng.choice(MECH_SETTINGS)
    cred = rng.choice(["0", "0", "1000", "1000", "none", "pidonly"])
    uid = {"0": 0, "1000": 1000}.get(cred)
    pid = None if cred == "none" else rng.choice([None, 4242, 1])
    if cred == "pidonly":
        pid = 4242
    return {"mechs": None if mechs is None else [m.decode() for m in mechs], "uid": uid, "pid": pid, "cred": cred,
            "context": rng.choice([None, None, CTX_B.decode()]), "fd": rng.choice([0, 1]), "sq": rng.choice([0, 0, 1, 7])}


class Interactive(object):
    """one harness process driven step by step (needed when the client's answer depends on the server's random
    challenge)"""

    def __init__(self, exe, env):
        self.exe = exe
        self.env = hrun.san_env({"HOME": env.home, "DBUS_TEST_HOMEDIR": env.home})
        self.p = None
        self.errf = None

    def _start(self):
        self.errf = tempfile.TemporaryFile()
        self.p = subprocess.Popen([self.exe], stdin=subprocess.PIPE, stdout=subprocess.PIPE, stderr=self.errf, env=self.env)

    def cmd(self, line):
        """-> parsed JSON or {"crash": {...}}"""
        if self.p is None or self.p.poll() is not None:
            self._start()
        try:
            self.p.stdin.write(line.encode() + b"\n")
            self.p.stdin.flush()
            out = self.p.stdout.readline()
        except (BrokenPipeError, OSError):
            out = b""
        if not out:
            rc = self.p.wait()
            self.errf.seek(0)
            err = self.errf.read().decode("latin1")
            self.p = None
            return {"crash": {"rc": rc, "timeout": False, "class": hrun.classify_stderr(err), "stderr": err[-6000:]}}
        return json.loads(out)

    def close(self):
        if self.p is not None and self.p.poll() is None:
            try:
                self.p.stdin.close()
                self.p.wait(timeout=20)
            except Exception:
                self.p.kill()
        if self.p is not None:
            self.errf.seek(0)
            err = self.errf.read().decode("latin1")
            self.p = None
            return hrun.classify_stderr(err), err
        return None, ""


def run_interactive(ia, env, setting, items, chunk_kind, rng, fixed_chunks=None):
    """-> (stream, steps, end, chunk lists, crash)"""
    r = ia.cmd("N " + setting_params(setting, env.home))
    if "crash" in r:
        return b"", [], None, [], r["crash"]
    stream = b""
    steps = []
    allchunks = []
    pending = b""
    outbuf = b""
    last_chal = None
    seg = 0

    def flush():
        nonlocal pending, stream, outbuf, last_chal, seg
        if not pending:
            return None
        if fixed_chunks is not None:
            ch = fixed_chunks[seg] if seg < len(fixed_chunks) else [len(pending)]
        else:
            ch = chunkings(rng, pending, chunk_kind)[1]
        seg += 1
        allchunks.append(ch)
        base = len(stream)
        rr = ia.cmd("F %s %s" % (pending.hex(), ",".join(str(c) for c in ch) or "-"))
        stream += pending
        pending = b""
        if "crash" in rr:
            return rr["crash"]
        for fed, outhex, state in rr["steps"]:
            steps.append([fed, outhex, state])
            outbuf += bytes.fromhex(outhex)
        # the most recent cookie challenge the server sent (syntactic extraction only; the model validates it)
        while CRLF in outbuf:
            i = outbuf.find(CRLF)
            sline, outbuf = outbuf[:i], outbuf[i + 2:]
            cls, arg = sasl.parse_reply(sline)
            if cls == "DATA" and arg:
                raw = sasl.hexdecode(arg)
                f = raw.split(b" ") if raw else []
                if len(f) == 3 and f[1].isdigit():
                    last_chal = (f[0], int(f[1]), f[2])
        return None

    for it in items:
        if it[0] == "raw":
            pending += it[1]
        else:
            c = flush()
            if c:
                return stream, steps, None, allchunks, c
            pending += cookie_line(env, last_chal, it[1], it[2])
    c = flush()
    if c:
        return stream, steps, None, allchunks, c
    end = ia.cmd("E")
    if "crash" in end:
        return stream, steps, None, allchunks, end["crash"]
    return stream, steps, end, allchunks, None


def _sig_and_sample(part, layer, sc, setting, ckind, outcome, tr, items, shard):
    part.sig(layer, sc.split("+")[0], ",".join(setting["mechs"]) if setting.get("mechs") else "default", str(setting.get("cred")),
             ckind, outcome, tuple(sorted(set(l.split("(")[0] for l in tr.labels)))[:12] if tr else ())
    if shard == 0 and len(part.samples) < 3 and outcome in ("AUTH", "DISC"):
        part.sample({"layer": layer, "scenario": sc, "setting": setting, "outcome": outcome,
                     "script": [i[1].decode("latin1")[:200] if i[0] == "raw" else "<cookie response: %s>" % i[1] for i in items][:12],
                     "chunking": ckind, "model_branches": sorted(set(tr.labels))[:12] if tr else []})


def _worker_inproc(args):
    seed, shard, count, exe, root = args
    rng = gen.rng_for(seed, PROP, "inproc", shard)
    part = report.Part()
    wdir = os.path.join(root, "ip%d" % shard)
    os.makedirs(wdir, exist_ok=True)
    env = Env(wdir, rng)
    batch_lines, batch_meta, inter = [], [], []
    for ci in range(count):
        setting = rand_setting(rng)
        sc, items = gen_script(rng, None if setting["mechs"] is None else [m.encode() for m in setting["mechs"]], setting["uid"])
        if any(it[0] == "cookie" for it in items):
            inter.append((sc, setting, items, rng.choice(["one", "dribble", "random", "lines", "k"])))
            continue
        stream = b"".join(it[1] for it in items)
        ckind, ch = chunkings(rng, stream)
        batch_lines.append("C %s %s %s" % (setting_params(setting, env.home), stream.hex() or "-", ",".join(str(c) for c in ch) or "-"))
        batch_meta.append((sc, setting, items, stream, ckind, ch))
    res = hrun.run_cases(exe, batch_lines, env={"HOME": env.home, "DBUS_TEST_HOMEDIR": env.home}, per_batch_timeout=900,
                         max_crashes=2000)
    env.reread()
    for (sc, setting, items, stream, ckind, ch), rr in zip(batch_meta, res):
        part.evaluations += 1
        wit = {"layer": "inproc", "scenario": sc, "setting": setting, "items": ser_items(items),
               "chunks": [ch if len(ch) <= 400 else ckind], "chunk_kind": ckind,
               "script_text": stream[:600].decode("latin1")}
        if rr is None:
            part.inconclusive.append("missing harness output (in-process)")
            continue
        if "crash" in rr:
            _crash_violation(part, rr["crash"], wit, "DBusAuth crashed / sanitizer report")
            continue
        if rr.get("k") != "case":
            part.inconclusive.append("harness answered %r" % (rr,))
            continue
        outcome, tr = judge(part, model_for(setting, env), stream, rr["steps"], rr, wit, "inproc")
        _sig_and_sample(part, "inproc", sc, setting, ckind, outcome, tr, items, shard)
    for extra in res[len(batch_lines):]:
        br = extra.get("batch_report") if extra else None
        if br:
            part.violation("%s:%s:%s" % (PROP, br["class"][0], br["class"][1]), "report at harness exit", {"stderr": br["stderr"][-3000:]})
    ia = Interactive(exe, env)
    seen_chal = set()
    for sc, setting, items, ckind in inter:
        part.evaluations += 1
        stream, steps, end, chunks, crash = run_interactive(ia, env, setting, items, ckind, rng)
        wit = {"layer": "inproc", "scenario": sc, "setting": setting, "items": ser_items(items), "chunks": [c if len(c) <= 400 else ckind for c in chunks],
               "chunk_kind": ckind, "script_text": stream[:600].decode("latin1")}
        if crash:
            _crash_violation(part, crash, wit, "DBusAuth crashed / sanitizer report (interactive)")
            continue
        env.reread()
        outcome, tr = judge(part, model_for(setting, env), stream, steps, end, wit, "inproc")
        for chal in tr.challenges:
            part.count("cookie:challenges-seen")
            if chal in seen_chal:
                part.violation("%s:cookie-challenge-reused" % PROP, "the server issued the same challenge twice", wit)
            seen_chal.add(chal)
        for it in items:
            if it[0] == "cookie":
                part.count("cookie-response-kind:" + it[1])
        _sig_and_sample(part, "inproc", sc, setting, ckind, outcome, tr, items, shard)
    cls, err = ia.close()
    if cls:
        part.violation("%s:%s:%s" % (PROP, cls[0], cls[1]), "report at interactive harness exit", {"stderr": err[-3000:]})
    return part


# --------------------------------------------------------------------------------------- daemon layer

DAEMON_CONFIGS = [
    {"auth": ["EXTERNAL"], "anon": False},
    {"auth": ["DBUS_COOKIE_SHA1"], "anon": False},
    {"auth": ["ANONYMOUS"], "anon": True},
    {"auth": ["ANONYMOUS", "EXTERNAL"], "anon": False},
    {"auth": ["EXTERNAL", "DBUS_COOKIE_SHA1"], "anon": False},
    {"auth": ["EXTERNAL", "ANONYMOUS"], "anon": True},
    {"auth": None, "anon": False},
    {"auth": None, "anon": True},
]
SOCK_UIDS = [0, 1, 65534, None]      # None: a loopback TCP connection - the kernel reports no credentials for it
REPLY_WATCHDOG = 10.0


def daemon_conversation(part, d, ctl, env, cfg, uid, sc, items, ckind, rng, wit):
    """runs one script against the daemon in lockstep with the model; returns (outcome, tracker)"""
    mechs = None if cfg["auth"] is None else [m.encode() for m in cfg["auth"]]
    model = sasl.Model(mechs=mechs, cred_uid=uid, allow_anonymous=cfg["anon"], cookies=env.store, context=CTX_A,
                       owner_uid=OWNER_UID, users=USERS, unix_fd_possible=True, guid=None)
    tr = tracker_for(model)
    try:
        if uid is None:
            c = client.Client(d.tcp_addr)
            part.count("daemon:conversations-over-tcp")
        else:
            c = client.Client(d.sock, uid=(None if uid == os.getuid() else uid), gid=(None if uid == os.getuid() else uid))
    except OSError:
        if _daemon_dead(d, 0.3):
            raise DaemonDied()
        raise
    sent = b""
    state = {"li": 0, "answered_end": 0, "outcome": "WAIT", "begin_end": None, "dead": False}

    def viol(key, what):
        if _daemon_dead(d, 0.3):
            raise DaemonDied()      # whatever was (not) observed is a consequence of the crash, which is reported as such
        part.violation(key, what, dict(wit, sent=sent[:2000].hex()))
        state["outcome"] = "VIOLATION"

    def send(data):
        nonlocal sent
        kind, ch = chunkings(rng, data, ckind)
        off = 0
        for n in ch:
            try:
                c.send_bytes(data[off:off + n])
            except OSError:
                state["dead"] = True
                break
            off += n
        sent += data

    def process():
        """consume replies for every complete client line sent so far"""
        lines, _ = sasl.split_lines(sent)
        while state["outcome"] == "WAIT" and state["li"] < len(lines):
            line, lend = lines[state["li"]]
            exp = tr.expectations(line)
            if not exp:
                break
            silent = exp <= {"AUTHENTICATED", "DISCONNECT"}
            if "AUTHENTICATED" in exp and not silent:
                part.count("daemon:ambiguous-begin-skipped")
                state["outcome"] = "SKIP"
                return
            if silent:
                if exp == {"AUTHENTICATED"}:
                    tr.step(line, ("authenticated",))
                    state["outcome"] = "AUTH"
                    state["begin_end"] = lend
                else:
                    tr.step(line, ("disconnect",))
                    state["outcome"] = "DISC"
                return
            try:
                sline = c.read_line(timeout=REPLY_WATCHDOG)
                obs = ("line", sline)
            except client.Closed:
                obs = ("disconnect",)
            except client.Timeout:
                viol("%s:no-reaction:%s" % (PROP, "/".join(sorted(exp)).lower()),
                     "daemon did not answer client line %r within %.0f s" % (line[:40], REPLY_WATCHDOG))
                return
            dd = tr.step(line, obs)
            if dd:
                if obs[0] == "disconnect" and (tr.last_reply == "REJECTED" or len(sent) - state["answered_end"] > MAXBUF):
                    state["outcome"] = "DISC"
                    part.count("daemon:disconnect:rejections" if tr.last_reply == "REJECTED" else "daemon:disconnect:buffer-overflow")
                    if tr.last_reply == "REJECTED":
                        part.count("rejection-bound:%d" % tr.n_rejected)
                    return
                viol(*_mismatch_key(dd, obs))
                return
            if obs[0] == "disconnect":
                state["outcome"] = "DISC"
                return
            if tr.n_rejected > sasl.MAX_REJECTIONS:
                viol("%s:unbounded-rejections" % PROP, "more than %d REJECTED answers without disconnect" % sasl.MAX_REJECTIONS)
                return
            state["answered_end"] = lend
            state["li"] += 1

    try:
        send(b"\0")
        sent = b""
        pending = b""
        for it in items:
            if it[0] == "raw":
                pending += it[1]
                continue
            if pending:
                send(pending)
                pending = b""
            process()
            if state["outcome"] != "WAIT":
                break
            chal = None
            for st in tr.configs:
                if st.phase == "data" and st.chal is not None:
                    chal = st.chal
            pending = cookie_line(env, chal, it[1], it[2])
        if pending and state["outcome"] == "WAIT":
            send(pending)
        if state["outcome"] == "WAIT":
            process()
        out = state["outcome"]
        lines, rest = sasl.split_lines(sent)
        if out == "AUTH":
            after = sent[state["begin_end"]:]
            if after == b"":
                try:
                    c.send_bytes(HELLO)
                except OSError:
                    pass
            if after in (b"", HELLO):
                try:
                    rep = c.wait_reply(1, timeout=REPLY_WATCHDOG)
                except (client.Closed, client.Timeout, wire.Invalid) as e:
                    viol("%s:hello-not-answered-after-valid-exchange" % PROP, "the model says authenticated, Hello got %s" % type(e).__name__)
                    return state["outcome"], tr
                if rep.msg.type != 2 or not rep.msg.body or not rep.msg.body[0].startswith(b":"):
                    viol("%s:hello-not-answered-after-valid-exchange" % PROP, "Hello answered with %r" % (rep,))
                    return state["outcome"], tr
                unique = rep.msg.body[0]
                part.count("daemon:hello-answered")
                q = ctl.bus_call(b"GetConnectionUnixUser", b"s", [unique])
                got = ("uid", q.msg.body[0]) if q.msg.type == 2 else ("anon",)
                idents = tr.identities()
                if got not in idents:
                    viol("%s:identity:%s-instead-of-%s" % (PROP, got[0], "/".join(sorted(i[0] for i in idents if i))),
                         "GetConnectionUnixUser says %r, the completed mechanism established %r (socket uid %r)" % (got, sorted(idents), uid))
                    return state["outcome"], tr
                part.count("daemon:identity-checked")
                part.count("daemon:authenticated-as:" + got[0])
            else:
                part.count("daemon:authenticated-with-garbage-after-begin(not probed)")
        elif out == "DISC":
            if not c.wait_eof(timeout=REPLY_WATCHDOG):
                viol("%s:no-disconnect" % PROP, "the daemon keeps the connection open where the state machine says disconnect")
                return state["outcome"], tr
            if any(r.msg.type == 2 for r in c.inbox):
                viol("%s:hello-answered-without-authentication" % PROP, "a message sent before/without a valid exchange was answered")
                return state["outcome"], tr
            part.count("daemon:disconnected")
        elif out == "WAIT":
            pend = len(sent) - state["answered_end"]
            if pend > MAXBUF:
                if not c.wait_eof(timeout=REPLY_WATCHDOG):
                    viol("%s:handshake-buffer-unbounded" % PROP, "%d bytes without line end and the daemon keeps waiting" % pend)
                    return state["outcome"], tr
                part.count("daemon:disconnect:buffer-overflow")
                state["outcome"] = "DISC"
            else:
                # still in the handshake: nothing that looks like a message may have been answered
                c.pump(0.0)
                if c.buf or c.inbox:
                    viol("%s:unsolicited-output" % PROP, "the daemon sent %r with no client line outstanding" % bytes(c.buf[:60]))
                    return state["outcome"], tr
                part.count("daemon:still-in-handshake")
        if state["outcome"] in ("AUTH", "DISC", "WAIT"):
            part.count("daemon:server-lines", state["li"])
            part.count("daemon:rejected-lines", tr.n_rejected)
            for lab in set(tr.labels):
                part.count("branch:" + lab)
                part.count("daemon-branch:" + lab)
        return state["outcome"], tr
    finally:
        report_deviations(part, tr, dict(wit, sent=sent[:2000].hex()))
        c.close()


class DaemonDied(Exception):
    pass


def _daemon_dead(d, wait=0.3):
    t = time.time() + wait
    while d.alive() and time.time() < t:
        time.sleep(0.01)
    return not d.alive()


def _worker_daemon(args):
    seed, shard, count, b, root = args
    rng = gen.rng_for(seed, PROP, "daemon", shard)
    part = report.Part()
    wdir = os.path.join(root, "d%d" % shard)
    os.makedirs(wdir, exist_ok=True)
    os.chmod(root, 0o755)
    os.chmod(wdir, 0o755)
    env = Env(wdir, rng)
    cfg = DAEMON_CONFIGS[shard % len(DAEMON_CONFIGS)]
    tcp_ok = busproc.tcp_loopback_available()
    conf = busproc.make_config("@SOCK@", auth=cfg["auth"] or (), allow_anonymous=cfg["anon"],
                               extra="  <listen>tcp:host=127.0.0.1,port=0</listen>" if tcp_ok else "")
    mechs = None if cfg["auth"] is None else [m.encode() for m in cfg["auth"]]
    box = {"d": None, "ctl": None, "n": 0}
    if not tcp_ok:
        part.count("daemon:tcp-loopback-unavailable(TCP conversations skipped)")

    def start():
        box["n"] += 1
        d = busproc.Daemon(b, os.path.join(wdir, "run%d" % box["n"]), conf, env={"HOME": env.home, "DBUS_TEST_HOMEDIR": env.home},
                           print_address=True)
        box["d"] = d
        if not d.started():
            return False
        d.tcp_addr = None
        for t, kv in d.addresses():
            if t == "tcp":
                d.tcp_addr = ("127.0.0.1", int(kv["port"]))
        if d.tcp_addr is None and tcp_ok:
            return False
        os.chmod(d.sock, 0o777)
        box["ctl"] = _control(d, cfg, env)
        return True

    def finish(wit):
        """stop the daemon; anything it printed / a crash is a keyed event carrying the script that was running"""
        if box["ctl"] is not None:
            box["ctl"].close()
            box["ctl"] = None
        d = box["d"]
        if d is None:
            return
        d.stop()
        for cls, site, text in d.problems():
            part.violation("%s:%s:%s" % (PROP, cls, site), "daemon problem during SASL scripts",
                           dict(wit or {"config": cfg}, stderr=text[-3000:]))
        box["d"] = None

    wit = None
    try:
        if not start():
            part.inconclusive.append("daemon did not start: " + box["d"].stderr_text()[-500:])
            return part
        done = 0
        guard = 0
        while done < count and guard < count * 4:
            guard += 1
            uid = rng.choice(SOCK_UIDS)
            if uid is None and not tcp_ok:
                uid = 0
            sc, items = gen_script(rng, mechs, uid, daemon=True)
            if uid is None and done % 5 == 0:
                uid = rng.choice(SOCK_UIDS)          # the forced cases claim a uid; over TCP every third of them (below)
                if (uid is None or done % 15 == 0) and tcp_ok:
                    uid = None
                elif uid is None:
                    uid = 0
            if sc.startswith("long") and sum(len(i[1]) for i in items if i[0] == "raw") > 40000 and rng.random() < 0.5:
                continue
            if done % 5 == 0:
                # the cases the property is about, forced: claim another uid / right uid / cookie / anonymous
                sc, items = _forced(rng, done // 5, uid)
            ckind = rng.choice(["one", "one", "random", "lines", "dribble"])
            d = box["d"]
            wit = {"layer": "daemon", "scenario": sc, "config": cfg, "sock_uid": uid, "items": ser_items(items), "chunk_kind": ckind,
                   "script_text": b"".join(i[1] for i in items if i[0] == "raw")[:600].decode("latin1"), "config_text": d.config_text}
            part.evaluations += 1
            done += 1
            tr = None
            try:
                outcome, tr = daemon_conversation(part, d, box["ctl"], env, cfg, uid, sc, items, ckind, rng, wit)
            except DaemonDied:
                outcome = "DAEMON-DIED"
            except (client.Closed, client.Timeout, OSError) as e:
                if _daemon_dead(d):
                    outcome = "DAEMON-DIED"
                else:
                    part.inconclusive.append("control connection failed: %r" % (e,))
                    break
            env.reread()
            setting = {"mechs": cfg["auth"], "cred": "%s%s" % ("tcp-no-credentials" if uid is None else "uid%d" % uid, "+anon" if cfg["anon"] else "")}
            _sig_and_sample(part, "daemon", sc, setting, ckind, outcome, tr, items, shard)
            if outcome == "DAEMON-DIED" or not d.alive():
                # the death is reported (with this script as witness) by finish(); go on with a fresh daemon
                part.count("daemon:died")
                finish(wit)
                if box["n"] > 40 or not start():
                    part.inconclusive.append("daemon could not be restarted after %d deaths" % box["n"])
                    break
    finally:
        finish(wit)
    return part


def _control(d, cfg, env):
    """a second, well-behaved connection (root): EXTERNAL where allowed, else the cookie mechanism, else anonymous"""
    auth = cfg["auth"]
    c = client.Client(d.sock)
    if auth is None or "EXTERNAL" in auth:
        c.auth()
    elif "DBUS_COOKIE_SHA1" in auth:
        c.send_bytes(b"\0AUTH DBUS_COOKIE_SHA1 " + hx(OWNER_NAMES[0]) + CRLF)
        cls, arg = sasl.parse_reply(c.read_line())
        f = (sasl.hexdecode(arg) or b"").split(b" ")
        c.send_bytes(cookie_line(env, (f[0], int(f[1]), f[2]), "right", b"636f6e74726f6c"))
        if not c.read_line().startswith(b"OK"):
            raise client.Closed("control connection: cookie auth failed")
        c.send_bytes(b"BEGIN\r\n")
    else:
        c.send_bytes(b"\0AUTH ANONYMOUS\r\n")
        if not c.read_line().startswith(b"OK"):
            raise client.Closed("control connection: anonymous auth failed")
        c.send_bytes(b"BEGIN\r\n")
    c.hello()
    if c.unique is None:
        raise client.Closed("control connection: no unique name")
    return c


def _forced(rng, k, uid):
    other = rng.choice([x for x in (0, 1, 1000, 65534) if x != uid])
    if uid is None:
        uid = 0          # over TCP there are no credentials: claiming ANY uid through EXTERNAL must be rejected
    begin = [("raw", b"BEGIN\r\n" + HELLO)]
    k = k % 8
    if k == 0:
        return "forced:external-own", [("raw", b"AUTH EXTERNAL " + hx(str(uid).encode()) + CRLF)] + begin
    if k == 1:
        return "forced:external-other", [("raw", b"AUTH EXTERNAL " + hx(str(other).encode()) + CRLF)] + begin
    if k == 2:
        return "forced:cookie-right", [("raw", b"AUTH DBUS_COOKIE_SHA1 " + hx(OWNER_NAMES[0]) + CRLF), ("cookie", "right", _cc(rng))] + begin
    if k == 3:
        return "forced:cookie-wrong", [("raw", b"AUTH DBUS_COOKIE_SHA1 " + hx(OWNER_NAMES[0]) + CRLF), ("cookie", rng.choice(COOKIE_BAD), _cc(rng))] + begin
    if k == 4:
        return "forced:anonymous", [("raw", b"AUTH ANONYMOUS" + CRLF)] + begin
    if k == 5:
        return "forced:begin-without-auth", begin
    if k == 6:
        return "forced:external-then-cancel-then-anonymous", [("raw", b"AUTH EXTERNAL " + hx(str(uid).encode()) + CRLF), ("raw", b"CANCEL" + CRLF),
                                                              ("raw", b"AUTH ANONYMOUS" + CRLF)] + begin
    return "forced:long-tail", [("raw", b"AUTH EXTERNAL " + b"3" * 65536)]


# --------------------------------------------------------------------------------------- entry point

# --------------------------------------------------------------------------------------- server-application layer
# A libdbus SERVER application (harness/h_hs.c: DBusServer on a unix socket, optionally with a unix-user function that lets
# every uid in, optionally with anonymous access enabled) and a raw client: what the application sees after the handshake.

def _worker_srvapp(args):
    seed, shard, b = args
    part = report.Part()
    rng = gen.rng_for(seed, PROP, "srvapp", shard)
    exe = b.harness("h_hs", testutils=True)
    me = os.getuid()
    call = wire.encode_message(1, [(1, Variant(b"o", b"/x")), (3, Variant(b"s", b"Ping")), (2, Variant(b"s", b"com.example.X"))], b"", [], serial=7)
    scripts = {
        "anonymous": b"\0AUTH ANONYMOUS\r\nBEGIN\r\n",
        "anonymous-trace": b"\0AUTH ANONYMOUS 7665726966\r\nBEGIN\r\n",
        "external-own": b"\0AUTH EXTERNAL " + hx(str(me).encode()) + b"\r\nBEGIN\r\n",
        "external-empty": b"\0AUTH EXTERNAL\r\nDATA\r\nBEGIN\r\n",
        "external-other": b"\0AUTH EXTERNAL " + hx(str(me + 1234).encode()) + b"\r\nBEGIN\r\n",
        "external-rejected-then-anonymous": b"\0AUTH EXTERNAL " + hx(str(me + 1234).encode()) + b"\r\nAUTH ANONYMOUS\r\nBEGIN\r\n",
        "begin-only": b"\0BEGIN\r\n",
    }
    for userfn in (False, True):
        for anon in (False, True):
            env = {"VERIF_RUNDIR": tempfile.mkdtemp(prefix="verif-c08s-")}
            if userfn:
                env["VERIF_HS_USERFN"] = "1"
            if anon:
                env["VERIF_HS_ANON"] = "1"
            names, lines = [], []
            for name, hs in sorted(scripts.items()):
                for rep in range(3):
                    data = hs + call
                    cuts = "-"
                    if rep == 1:
                        left, cs = len(data), []
                        while left > 0:
                            c = min(left, rng.randint(1, 40))
                            cs.append(c)
                            left -= c
                        cuts = ",".join(str(x) for x in cs)
                    if rep == 2:
                        cuts = ",".join(["1"] * len(data))
                    names.append(name)
                    lines.append("%s %s" % (data.hex(), cuts))
            try:
                res = hrun.run_cases(exe, lines, env=env)
            finally:
                shutil.rmtree(env["VERIF_RUNDIR"], ignore_errors=True)
            for name, out in zip(names, res):
                part.evaluations += 1
                setting = "userfn=%d,anon=%d" % (userfn, anon)
                wit = {"layer": "server-application", "script": name, "setting": setting, "result": out}
                if not isinstance(out, dict) or "auth" not in out:
                    part.violation("%s:server-app:harness-crash:%s" % (PROP, name), "h_hs gave no result for %s (%s): %r" % (name, setting, out), wit)
                    continue
                part.count("server-app:cases")
                part.count("server-app:" + name)
                delivered = len(out.get("msgs") or [])
                want_auth = {"anonymous": anon, "anonymous-trace": anon, "external-own": True, "external-empty": True,
                             "external-other": False, "external-rejected-then-anonymous": anon, "begin-only": False}[name]
                part.sig("server-app", name, userfn, anon, out["auth"], out["anon"], delivered)
                if bool(out["auth"]) != want_auth:
                    part.violation("%s:server-app:%s:%s" % (PROP, "authenticated-although-not-permitted" if out["auth"] else "not-authenticated", name),
                                   "libdbus server application (%s), script %s: authenticated=%d, the mechanism the server permits would give %d"
                                   % (setting, name, out["auth"], want_auth), wit)
                    continue
                if not want_auth and delivered:
                    part.violation("%s:server-app:message-delivered-without-authentication:%s" % (PROP, name),
                                   "%d message(s) reached the application of a connection that is not authenticated" % delivered, wit)
                if out.get("userfn_uid_is_unset"):
                    part.violation("%s:server-app:unix-user-function-called-without-a-uid:%s" % (PROP, name),
                                   "the application's unix-user function was asked about a peer that has no uid (%s)" % setting, wit)
                if want_auth:
                    if name in ("external-own", "external-empty"):
                        if not (out["has_uid"] == 1 and out["uid"] == me and out["anon"] == 0):
                            part.violation("%s:server-app:identity-differs:%s" % (PROP, name),
                                           "after EXTERNAL as uid %d the application sees has_uid=%r uid=%r anonymous=%r" % (me, out["has_uid"], out["uid"], out["anon"]), wit)
                        elif userfn and not (out["userfn_calls"] >= 1 and out["userfn_uid"] == me):
                            part.violation("%s:server-app:unix-user-function-not-asked:%s" % (PROP, name),
                                           "the unix-user function was called %d times, last with uid %r" % (out["userfn_calls"], out["userfn_uid"]), wit)
                        else:
                            part.count("server-app:identity-checked")
                    else:
                        if not (out["anon"] == 1 and out["has_uid"] == 0):
                            part.violation("%s:server-app:identity-differs:%s" % (PROP, name),
                                           "after ANONYMOUS the application sees has_uid=%r anonymous=%r" % (out["has_uid"], out["anon"]), wit)
                        else:
                            part.count("server-app:identity-checked")
                    if delivered != 1:
                        part.violation("%s:server-app:message-after-begin-delivered-%d-times:%s" % (PROP, delivered, name),
                                       "the message sent right after BEGIN reached the application %d times" % delivered, wit)
    return part


def _dispatch(s):
    if s[0] == "S":
        return _worker_srvapp(s[1])
    if s[0] == "A":
        from checks import c08adm
        return c08adm.worker(s[1])
    return _worker_inproc(s[1]) if s[0] == "I" else _worker_daemon(s[1])


def _replay(r, b, exe, root, path):
    w = json.load(open(path))["witness"]
    if w.get("layer") == "server-application":
        # the layer is small and deterministic: run all of it again
        part = _worker_srvapp((r.seed, 0, b))
        part.sig("replay", 1)
        part.sig("replay", 2)
        r.merge(part)
        return r.finish()
    rng = gen.rng_for(r.seed, PROP, "replay")
    part = report.Part()
    env = Env(os.path.join(root, "replay"), rng)
    items = deser_items(w["items"])
    part.evaluations = 1
    if w.get("layer") == "daemon":
        cfg = w["config"]
        conf = busproc.make_config("@SOCK@", auth=cfg["auth"] or (), allow_anonymous=cfg["anon"],
                                   extra="  <listen>tcp:host=127.0.0.1,port=0</listen>")
        os.chmod(root, 0o755)
        os.chmod(os.path.join(root, "replay"), 0o755)
        d = busproc.Daemon(b, os.path.join(root, "replay", "run"), conf, env={"HOME": env.home, "DBUS_TEST_HOMEDIR": env.home},
                           print_address=True)
        d.tcp_addr = None
        for t, kv in d.addresses():
            if t == "tcp":
                d.tcp_addr = ("127.0.0.1", int(kv["port"]))
        os.chmod(d.sock, 0o777)
        ctl = _control(d, cfg, env)
        try:
            daemon_conversation(part, d, ctl, env, cfg, w["sock_uid"], w["scenario"], items, w.get("chunk_kind"), rng, w)
        finally:
            ctl.close()
            d.stop()
            for cls, site, text in d.problems():
                part.violation("%s:%s:%s" % (PROP, cls, site), "daemon problem during replay", {"stderr": text[-3000:]})
    else:
        ia = Interactive(exe, env)
        fixed = [c for c in w.get("chunks", []) if isinstance(c, list)]
        stream, steps, end, chunks, crash = run_interactive(ia, env, w["setting"], items, w.get("chunk_kind"), rng,
                                                            fixed_chunks=fixed if len(fixed) == len(w.get("chunks", [])) else None)
        if crash:
            _crash_violation(part, crash, w, "DBusAuth crashed / sanitizer report (replay)")
        else:
            env.reread()
            judge(part, model_for(w["setting"], env), stream, steps, end, w, "replay")
        ia.close()
    part.sig("replay", 1)
    part.sig("replay", 2)
    r.merge(part)
    return r.finish()


def run(tier, seed, replay=None, scale=1.0):
    r = report.Run(PROP, tier)
    r.rule = RULE
    b = build.build("asan")
    r.builds.append(b.info())
    exe = b.harness("h_auth")
    root = tempfile.mkdtemp(prefix="verif-c08-")
    try:
        if replay:
            return _replay(r, b, exe, root, replay)
        n_in = int((8000 if tier == "quick" else 300000) * scale)
        n_d = int((300 if tier == "quick" else 10000) * scale)
        nsh = 16 if tier == "quick" else 64
        shards = [("D", (seed, i, max(1, n_d // 16), b, root)) for i in range(16)] + \
                 [("I", (seed, i, max(1, n_in // nsh), exe, root)) for i in range(nsh)]
        n_a = int((96 if tier == "quick" else 3000) * scale)
        if os.getuid() == 0:
            shards += [("A", (seed, i, max(1, n_a // 16))) for i in range(16)]
        shards += [("S", (seed, i, b)) for i in range(2 if tier == "quick" else 16)]
        can_switch = os.getuid() == 0
        if not can_switch:
            r.inconclusive.append("not running as root: sockets with other kernel credentials cannot be made")
        for part in report.run_sharded(_dispatch, shards):
            r.merge(part)
    finally:
        shutil.rmtree(root, ignore_errors=True)
    full = scale >= 1
    for ctr, q in (("inproc:authenticated", 800), ("inproc:rejected-lines", 2000), ("inproc:disconnected", 300),
                   ("inproc:unused-bytes-compared", 800), ("inproc:authenticated-as:uid", 300), ("inproc:authenticated-as:anon", 50),
                   ("branch:cookie:hash-matches", 100), ("branch:cookie:hash-differs", 100), ("branch:external:uid-differs", 100),
                   ("branch:external:uid-matches", 100), ("inproc:disconnect:rejections", 30), ("inproc:disconnect:buffer-overflow", 10),
                   ("branch:begin:authenticated", 800), ("branch:auth:begin-before-ok", 50), ("branch:data:begin-before-ok", 10),
                   ("branch:begin:cancel", 50), ("branch:begin:fd-agreed", 50), ("branch:non-ascii", 20),
                   ("daemon:hello-answered", 40), ("daemon:identity-checked", 40), ("daemon:disconnected", 20),
                   ("daemon-branch:external:uid-differs", 5), ("daemon-branch:cookie:hash-matches", 3),
                   ("daemon:authenticated-as:uid", 20), ("admission:admitted", 200), ("admission:refused", 200),
                   ("admission:reloads", 100), ("admission:refusal-expected-while-same-user-connected", 20)):
        r.require(ctr, q if full else 1)
    r.extra["model_branches_hit"] = sorted(k[7:] for k in r.counters if k.startswith("branch:"))
    r.extra["rejection_bounds_observed"] = sorted(int(k.split(":")[1]) for k in r.counters if k.startswith("rejection-bound:"))
    r.extra["sanitizer_reports"] = sum(1 for v in r.violations if ":asan:" in v["key"] or ":ubsan:" in v["key"] or ":assert:" in v["key"])
    r.assumptions = [
        "oracle vf/sasl.py transcribes the 'Authentication Protocol' chapter of doc/dbus-specification.xml; where the chapter permits "
        "several reactions or is silent every permitted reaction is accepted (list in the module docstring)",
        "default mechanism set = the three mechanisms the specification describes; DBusAuth itself has no allow-anonymous switch, so "
        "in-process ANONYMOUS is 'allowed' exactly when it is in the mechanism list; the transport-level switch is exercised through "
        "the daemon (<allow_anonymous/>)",
        "the server owner is the uid running the check (root); cookies are pre-created with fresh timestamps, the keyring is re-read "
        "after every batch so that server-added cookies are known to the model",
        "the 16 KiB handshake bound is taken from the property statement; disconnect is accepted whenever more than 16384 unanswered "
        "bytes are buffered and required once an unterminated line exceeds it",
        "daemon layer: EXTERNAL identity is compared with the uid the connecting process really had (setuid helper), observed through "
        "GetConnectionUnixUser on a second connection",
        "admission layer (checks/c08adm.py): histories of connect-as-uid / close / ReloadConfig; each attempt is judged against a "
        "reference evaluation of the <allow|deny user=/group=> rules of the default and mandatory contexts in force at that moment "
        "(last match wins; default: only the uid running the bus); the users' groups are the user database's (primary group only in "
        "this sandbox)",
    ]
    return r.finish()
