"""C08, final admission: after a successful SASL exchange the bus asks its policy (<allow|deny user=/group=> rules of
the default and mandatory contexts, bus_policy_allow_unix_user) whether the authenticated identity may connect at all.

Monitor: histories of connect-as-uid / close / ReloadConfig-with-another-policy on a real daemon; every connection
attempt is judged against a reference evaluation of the policy in force at that moment (last matching rule wins,
default = owner of the bus process only), independent of which other connections exist."""
import os
import pwd
import random
import shutil
import tempfile

from vf import busproc, client

PROP = "C08"
USERS = ["root", "daemon", "games", "nobody"]
GROUPS = ["root", "daemon", "games", "nogroup"]
BASE_RULES = ('    <allow send_destination="*" eavesdrop="true"/>\n    <allow eavesdrop="true"/>\n    <allow own="*"/>\n')


def _ids():
    out = {}
    for u in USERS:
        p = pwd.getpwnam(u)
        out[u] = (p.pw_uid, p.pw_gid, set(os.getgrouplist(u, p.pw_gid)))
    return out


def _gid(name):
    import grp
    return grp.getgrnam(name).gr_gid


def gen_policy(rng):
    """-> list of (context, allow?, kind, name)"""
    rules = []
    r = rng.random()
    if r < 0.5:
        rules.append(("default", True, "user", "*"))
    elif r < 0.6:
        rules.append(("default", True, "group", "*"))
    for _ in range(rng.randint(0, 4)):
        kind = rng.choice(["user", "user", "group"])
        name = rng.choice(USERS[1:] + ["*"]) if kind == "user" else rng.choice(GROUPS[1:] + ["*"])
        rules.append((rng.choice(["default", "default", "default", "mandatory"]), rng.random() < 0.45, kind, name))
    return rules


def render_policy(rules):
    out = ['  <policy context="default">\n' + BASE_RULES]
    for ctx, allow, kind, name in rules:
        if ctx == "default":
            out.append('    <%s %s="%s"/>\n' % ("allow" if allow else "deny", kind, name))
    out.append("  </policy>\n")
    mand = [r for r in rules if r[0] == "mandatory"]
    if mand:
        out.append('  <policy context="mandatory">\n')
        for ctx, allow, kind, name in mand:
            out.append('    <%s %s="%s"/>\n' % ("allow" if allow else "deny", kind, name))
        out.append("  </policy>\n")
    return "".join(out)


def allowed(rules, user, ids, owner_uid):
    uid, gid, groups = ids[user]
    ok = (uid == owner_uid)
    for ctx in ("default", "mandatory"):
        for c, allow, kind, name in rules:
            if c != ctx:
                continue
            if kind == "user":
                if name != "*" and ids[name][0] != uid:
                    continue
            else:
                if name != "*" and _gid(name) not in groups:
                    continue
            ok = allow
    return ok


def scenario(b, rundir, rng, part, sid):
    ids = _ids()
    policy = [("default", True, "user", "*")]
    d = busproc.Daemon(b, rundir, busproc.make_config("@SOCK@", render_policy(policy)), name="bus")
    steps = []

    def wit(extra=None):
        w = {"layer": "admission", "scenario": sid, "steps": steps[-40:], "policy_in_force": render_policy(policy)}
        w.update(extra or {})
        return w

    try:
        if not d.started():
            part.inconclusive.append("admission: daemon did not start")
            return
        os.chmod(d.sock, 0o777)
        ctl = client.connect(d.sock)
        open_conns = []           # (user, Client)
        for _ in range(rng.randint(10, 24)):
            r = rng.random()
            if r < 0.55:
                user = rng.choice(USERS)
                uid, gid, _g = ids[user]
                want = allowed(policy, user, ids, os.getuid())
                same_uid_open = any(u == user for u, _c in open_conns)
                steps.append("connect as %s (expected %s; %d other connection(s) of that user open)" %
                             (user, "admitted" if want else "refused", sum(1 for u, _c in open_conns if u == user)))
                c = client.Client(d.sock, uid=uid, gid=gid)
                got = None
                try:
                    c.auth()
                    rep = c.hello()
                    got = rep.msg.type == 2
                except client.Closed:
                    got = False
                except client.Timeout:
                    part.violation("%s:admission:no-verdict" % PROP, "neither admitted nor disconnected within the watchdog", wit())
                    c.close()
                    continue
                part.evaluations += 1
                part.count("admission:%s" % ("admitted" if got else "refused"))
                if same_uid_open:
                    part.count("admission:decided-while-same-user-connected")
                if not want and same_uid_open:
                    part.count("admission:refusal-expected-while-same-user-connected")
                part.sig("admission", user, want, same_uid_open, len(policy))
                if got != want:
                    part.violation("%s:admission:%s" % (PROP, "denied-identity-admitted" if got else "allowed-identity-refused"),
                                   "user %s was %s although the policy in force %s it" %
                                   (user, "admitted" if got else "refused", "allows" if want else "denies"), wit())
                if got and rng.random() < 0.65:
                    open_conns.append((user, c))
                else:
                    c.close()
                    ctl.barrier()
            elif r < 0.75 and open_conns:
                i = rng.randrange(len(open_conns))
                user, c = open_conns.pop(i)
                steps.append("close a connection of %s" % user)
                c.close()
                ctl.barrier()
            else:
                policy = gen_policy(rng)
                steps.append("reload with policy: " + render_policy(policy).replace("\n", " "))
                with open(d.conf, "w") as fh:
                    fh.write(busproc.make_config(d.sock, render_policy(policy)))
                rep = ctl.bus_call(b"ReloadConfig")
                if rep.msg.type != 2:
                    part.inconclusive.append("admission: ReloadConfig failed: %r" % (rep,))
                    return
                part.count("admission:reloads")
                # connections admitted earlier stay: they must still be served
                for user, c in open_conns:
                    try:
                        c.barrier()
                    except (client.Closed, client.Timeout):
                        part.violation("%s:admission:established-connection-dropped-by-reload" % PROP,
                                       "a connection of %s stopped being served after a configuration reload" % user, wit())
        for _u, c in open_conns:
            c.close()
        ctl.close()
        part.count("admission:scenarios")
    finally:
        d.stop()
        for cls, site, text in d.problems():
            part.violation("%s:%s:%s" % (PROP, cls, site), "daemon problem during admission scenario", wit({"stderr": text[-3000:]}))
        shutil.rmtree(rundir, ignore_errors=True)


def worker(args):
    from vf import build, gen, report
    seed, shard, count = args
    part = report.Part()
    b = build.build("asan", quiet=True)
    root = tempfile.mkdtemp(prefix="verif-c08adm-")
    os.chmod(root, 0o755)
    try:
        for i in range(count):
            sid = shard * 100000 + i
            try:
                scenario(b, os.path.join(root, "s%d" % i), gen.rng_for(seed, PROP, "adm", shard, i), part, sid)
            except (client.Closed, client.Timeout, OSError) as e:
                part.inconclusive.append("admission scenario %d aborted: %s %s" % (sid, type(e).__name__, e))
    finally:
        shutil.rmtree(root, ignore_errors=True)
    return part
