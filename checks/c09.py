"""C09 - only the addressee of a pending call can answer it, once."""
import collections
import json
import os
import shutil
import signal
import tempfile
import time

from vf import build, busproc, client, gen, h1trace, report
from vf.models import pending as pm

PROP = "C09"
RULE = ("histories of 25..55 operations by 3..5 raw clients (+1 passive observer) on a fresh ASan daemon whose only policy "
        "is system-bus-like (method calls denied except to the listed test names, signals allowed, method_return/error "
        "allowed only as requested replies, no *_requested_reply=\"false\" rule), reply_timeout in {300 ms, never}, "
        "max_replies_per_connection in {1,2,3,default}: method calls (fresh serial, NO_REPLY_EXPECTED, to a name / "
        "unique name, to itself, to a connection without a listed name, serial of an outstanding / finished call reused "
        "for the same / another callee, beyond the limit, and calls that pass the send rules but are denied by the addressee's receive "
        "rules - no slot may be left behind), replies as METHOD_RETURN or ERROR (genuine, duplicate, wrong "
        "serial, from a third party, to a third party, to a NO_REPLY call, to a refused call, after the caller saw NoReply, "
        "racing the timeout, to a departed caller), callee / caller disconnects, waiting for timeouts. After EVERY "
        "operation every client does a driver round-trip and everything it received is attributed (by a token in the "
        "body) and compared with vf/models/pending.py: who received the message how often, which error the sender got, "
        "which NoReply errors arrived (exactly one per slot closed by disconnect / timeout, none otherwise, never before "
        "reply_timeout elapsed); then, after one more round-trip, the bus's own pending-reply list (state dump of hook H1) "
        "must equal the model's set of open slots (a slot missing in the bus is tolerated only once its deadline has "
        "passed). Calls refused for a full queue (own buses, max_outgoing_bytes 60000, a callee that does not read): a call answered "
        "with LimitsExceeded never reaches the callee, the callee's later reply to it is refused with AccessDenied, and the callee's hang-up "
        "yields NoReply for the delivered calls only. Expiry behind a younger call (own buses, reply_timeout 1.6 s): with an older and a younger call outstanding "
        "the older one's NoReply (after its timeout / after its callee's hang-up) may be no later than a lone call's and the younger "
        "call's own NoReply on the same bus plus 300 ms; counted only when a fresh bus repeats it. distinct = (operation class, message type, addressing, expected fate, observed fate, "
        "finite timeout?, small limit?)")

BUS = b"org.freedesktop.DBus"
NOREPLY = b"org.freedesktop.DBus.Error.NoReply"
DENIED = b"org.freedesktop.DBus.Error.AccessDenied"
LIMITS = b"org.freedesktop.DBus.Error.LimitsExceeded"
NOC_RULE = b"type='signal',sender='org.freedesktop.DBus',interface='org.freedesktop.DBus',member='NameOwnerChanged'"
TEST_NAMES = [b"com.example.T%d" % i for i in range(16)]
TIMEOUT_MS = 300


def policy_xml():
    out = ['  <policy context="default">',
           '    <allow user="*"/>',
           '    <allow own="*"/>',
           '    <deny send_type="method_call"/>',
           '    <allow send_type="signal"/>',
           '    <allow send_type="method_return"/>',     # requested replies only: send_requested_reply defaults to true
           '    <allow send_type="error"/>',
           '    <allow receive_type="method_call"/>',
           '    <allow receive_type="method_return"/>',  # dito for receive_requested_reply
           '    <allow receive_type="error"/>',
           '    <allow receive_type="signal"/>',
           # calls of this interface pass every SEND rule and are refused by the addressee's RECEIVE rules
           '    <deny receive_type="method_call" receive_interface="com.example.NoRecv"/>',
           '    <allow send_destination="org.freedesktop.DBus" send_interface="org.freedesktop.DBus"/>']
    for n in TEST_NAMES:
        out.append('    <allow send_type="method_call" send_destination="%s"/>' % n.decode())
    out.append("  </policy>")
    return "\n".join(out)


class Ev(object):
    __slots__ = ("kind", "at", "rec", "token", "rs", "name", "used")

    def __init__(self, kind, at, rec, token=None, rs=None, name=None):
        self.kind, self.at, self.rec, self.token, self.rs, self.name = kind, at, rec, token, rs, name
        self.used = False


class Hang(Exception):
    def __init__(self, phase):
        Exception.__init__(self, phase)
        self.phase = phase


class StartFailure(Exception):
    """the daemon's socket did not appear in time (overloaded machine): harness event, the history is tried again"""


class History(object):
    def __init__(self, b, rundir, rng, part, hid):
        self.b, self.rundir, self.rng, self.part, self.hid = b, rundir, rng, part, hid
        self.clock = client.Clock()
        self.steps = []
        self.clients = []
        self.daemon = None
        self.obs = None
        self.phase = "start"
        self.ntok = 0
        self.sent = {}           # token -> dict
        self.closed = []         # (caller_u, callee_u, serial, how) slots finished by "reply" / "timeout"
        self.noreply_calls = []  # delivered NO_REPLY_EXPECTED calls (caller_u, callee_u, serial)
        self.refused_calls = []  # (caller_u, callee_u, serial)
        self.ghost_slots = []    # (departed caller_u, callee_u, serial)
        self.departed = []
        self.used_names = 0
        self.config_text = ""
        self.trace = None
        self.ndumps = 0
        self.flagged = set()

    # -- plumbing ------------------------------------------------------------------------------------
    def witness(self, extra=None):
        w = {"history": self.hid, "config": self.config_text, "reply_timeout_ms": self.timeout_ms,
             "max_replies_per_connection": self.limit, "steps": self.steps[-70:]}
        if extra:
            w.update(extra)
        return w

    def violation(self, key, what, extra=None):
        self.part.violation("%s:%s" % (PROP, key), what, self.witness(extra))

    def step(self, s):
        self.steps.append(s)

    def by_unique(self, u):
        for c in self.clients:
            if c.unique == u:
                return c
        return None

    def lab(self, u):
        return u.decode() if isinstance(u, bytes) else str(u)

    def new_client(self, named):
        c = client.connect(self.daemon.sock, self.clock)
        if c.unique is None:
            raise RuntimeError("Hello failed")
        c.tname = None
        if named and self.used_names < len(TEST_NAMES):
            n = TEST_NAMES[self.used_names]
            self.used_names += 1
            r = c.bus_call(b"RequestName", b"su", [n, 4])
            if r.msg.type == 2 and r.msg.body[0] == 1:
                c.tname = n
            else:
                raise RuntimeError("RequestName(%r) failed: %r" % (n, r))
        self.clients.append(c)
        self.step("connect %s name=%s" % (self.lab(c.unique), self.lab(c.tname) if c.tname else "-"))
        return c

    def start(self):
        rng = self.rng
        self.timeout_ms = TIMEOUT_MS if rng.random() < 0.4 else None
        self.limit = rng.choice([None, None, None, 1, 2, 3])
        limits = {}
        if self.timeout_ms:
            limits["reply_timeout"] = self.timeout_ms
        if self.limit:
            limits["max_replies_per_connection"] = self.limit
        self.model = pm.Pending(self.limit or 128, self.timeout_ms)
        self.config_text = busproc.make_config("@SOCK@", policy_xml=policy_xml(), limits=limits)
        os.makedirs(self.rundir, exist_ok=True)
        self.trace = os.path.join(self.rundir, "trace-h%d" % self.hid)
        self.daemon = busproc.Daemon(self.b, self.rundir, self.config_text, name="h%d" % self.hid,
                                     env={"DBUS_VERIF_TRACE": self.trace})
        if not self.daemon.started():
            raise StartFailure("daemon did not start within busproc's deadline: " + self.daemon.stderr_text()[-400:])
        self.obs = client.connect(self.daemon.sock, self.clock)
        r = self.obs.bus_call(b"AddMatch", b"s", [NOC_RULE])
        if r.msg.type != 2:
            raise RuntimeError("observer AddMatch refused: %r" % r)
        for i in range(rng.randint(3, 5)):
            self.new_client(named=(i < 2 or rng.random() < 0.8))
        self.quiesce()

    def sync(self, first=None):
        self.phase = "barrier"
        order = list(self.clients)
        if first is not None and first in order:
            order.remove(first)
            order.insert(0, first)
        for c in order:
            c.barrier()
        self.obs.barrier()

    def absorb(self):
        """Classify everything every client has received since the last call."""
        evs = []
        for c in self.clients:
            for rec in c.take_inbox():
                m = rec.msg
                k = m.known()
                if k.get(7) == BUS:
                    if m.type == 3:
                        evs.append(Ev("buserr", c.unique, rec, rs=k.get(5), name=k.get(4)))
                    elif m.type == 4:
                        continue      # NameAcquired / NameLost
                    else:
                        evs.append(Ev("stray", c.unique, rec))
                else:
                    tok = m.body[0] if m.body and isinstance(m.body[0], bytes) else None
                    evs.append(Ev("peer", c.unique, rec, token=tok))
        self.obs.take_inbox()
        return evs

    def settle(self, evs, owed=None):
        """Apply every NoReply the callers have read.  -> slots that expired during this operation."""
        now = time.monotonic()
        just = []
        owed = owed if owed is not None else collections.Counter()
        for e in evs:
            if e.kind != "buserr" or e.name != NOREPLY or e.used:
                continue
            e.used = True
            if owed.get((e.at, e.rs), 0) > 0:
                owed[(e.at, e.rs)] -= 1
                self.part.count("noreply:callee-disconnect")
                continue
            kind, slot = self.model.noreply(e.at, e.rs, now)
            if kind == "expired":
                just.append(slot)
                self.closed.append((slot.caller, slot.callee, slot.serial, "timeout"))
                self.part.count("noreply:timeout")
                self.part.sig("noreply", "timeout")
            elif kind == "premature":
                if self.model.timeout is None:
                    self.violation("noreply-without-cause", "caller %s got NoReply for serial %d although the callee is connected "
                                   "and reply_timeout is unlimited" % (self.lab(e.at), e.rs))
                else:
                    self.violation("noreply-before-timeout", "caller %s got NoReply for serial %d %.0f ms after writing the call "
                                   "(reply_timeout %d ms)" % (self.lab(e.at), e.rs, (now - slot.opened_at) * 1000, self.timeout_ms))
                self.model.close(slot.caller, slot.callee, slot.serial)
                just.append(slot)
            else:
                self.violation("noreply-without-open-call", "caller %s got a NoReply for serial %d which has no open reply slot "
                               "(already answered, already expired, flagged NO_REPLY_EXPECTED or never delivered)"
                               % (self.lab(e.at), e.rs), {"message": repr(e.rec)})
        return just

    def leftovers(self, evs):
        for e in evs:
            if e.used:
                continue
            if e.kind == "peer":
                s = self.sent.get(e.token)
                what = "%s of an earlier operation" % s["kind"] if s else "unattributable message"
                self.violation("unexpected-delivery:%s" % (s["kind"] if s else "unknown"),
                               "%s received a %s outside the operation that sent it: %r" % (self.lab(e.at), what, e.rec))
            elif e.kind == "buserr":
                self.violation("unexpected-error-from-bus:%s" % self.lab(e.name).rsplit(".", 1)[-1],
                               "%s received an unexplained error from the bus: %r" % (self.lab(e.at), e.rec))
            else:
                self.violation("unexpected-driver-message", "%s received an unexplained driver message: %r" % (self.lab(e.at), e.rec))
        self.compare_dump()

    def how_closed(self, key):
        """how a slot the bus still lists should have gone away (stable class for the violation key)"""
        for t in reversed(self.closed):
            if t[:3] == key:
                return {"reply": "answered", "timeout": "noreply-seen"}[t[3]]
        if key in self.noreply_calls:
            return "never-opened:no-reply-expected"
        if key in self.refused_calls:
            return "never-opened:refused-call"
        if key[0] in self.departed:
            return "caller-disconnected"
        if key[1] in self.departed or key[1] == b"?":
            return "callee-disconnected"
        return "never-opened"

    def compare_dump(self):
        """H1: the bus's own pending-reply list at a quiescent point against the model's open slots.  Every client has done its
        round-trip for this operation; one further round-trip guarantees that the dump of an earlier dispatch is complete."""
        if self.obs is None or not self.daemon.alive():
            return
        self.phase = "barrier"
        self.obs.barrier()
        self.obs.take_inbox()
        now = time.monotonic()
        blk = h1trace.last_block(self.trace)
        if blk is None:
            self.part.count("dump-unavailable")
            return
        self.ndumps += 1
        self.part.count("dump-comparisons")
        bus = collections.Counter(blk.pending)
        self.part.count("dump-slots-compared", len(self.model.slots))
        for key, n in bus.items():
            if n > 1 and ("dup", key) not in self.flagged:
                self.flagged.add(("dup", key))
                self.violation("pending-list-differs:slot-listed-%d-times" % n, "the bus holds %d reply slots %r" % (n, key))
            if key not in self.model.slots and key not in self.flagged:
                self.flagged.add(key)
                how = self.how_closed(key)
                self.violation("pending-list-differs:extra-in-bus:%s" % how, "the bus still holds the reply slot caller=%s callee=%s serial=%d "
                               "which should not exist (%s)" % (self.lab(key[0]), self.lab(key[1]), key[2], how))
        for key, slot in self.model.slots.items():
            if key in bus or key in self.flagged:
                continue
            if self.model.timeout is not None and now - slot.opened_at >= self.model.timeout - pm.SLACK:
                self.part.count("dump-slot-past-deadline-tolerated")     # its NoReply is on the way; judged when it is read
                continue
            self.flagged.add(key)
            self.violation("pending-list-differs:missing-in-bus:still-open", "the bus no longer holds the reply slot caller=%s callee=%s "
                           "serial=%d: no reply was delivered, nobody disconnected, no NoReply was seen%s"
                           % (self.lab(key[0]), self.lab(key[1]), key[2],
                              "" if self.model.timeout is None else " and only %.0f of %d ms have passed since the call was written"
                              % ((now - slot.opened_at) * 1000, self.timeout_ms)))
        if self.ndumps % 8 == 0:
            try:
                open(self.trace, "w").close()
            except OSError:
                pass

    def quiesce(self):
        self.sync()
        evs = self.absorb()
        self.settle(evs)
        self.leftovers(evs)

    def token(self, kind, **kw):
        self.ntok += 1
        t = b"k%d" % self.ntok
        kw["kind"] = kind
        self.sent[t] = kw
        return t

    def mode(self):
        return ("finite" if self.timeout_ms else "never", "small" if self.limit else "default")

    # -- method calls ----------------------------------------------------------------------------------
    def op_call(self, caller, callee, callee_u, by_name, serial=None, no_reply=False, klass="fresh"):
        """callee is a live client or None (then callee_u names a departed connection)."""
        dest = callee.tname if (callee is not None and by_name and callee.tname) else callee_u
        tok = self.token("call")
        t_pre = time.monotonic()
        used, data = caller.build(1, path=b"/t", iface=b"com.example.NoRecv" if klass == "recv-denied" else b"com.example.I", member=b"M",
                                  dest=dest, sig=b"s", body=[tok],
                                  flags=1 if no_reply else 0, serial=serial)
        caller.send_msg(data, used)
        self.step("call[%s] %s -> %s (dest %s) serial=%d%s" % (klass, self.lab(caller.unique), self.lab(callee_u), self.lab(dest), used,
                                                              " NO_REPLY" if no_reply else ""))
        self.sync(first=caller)
        evs = self.absorb()
        just = self.settle(evs)
        got = [e for e in evs if e.kind == "peer" and e.token == tok]
        errs = [e for e in evs if e.kind == "buserr" and e.at == caller.unique and e.rs == used and not e.used]
        for e in got + errs:
            e.used = True
        n_at = len([e for e in got if e.at == callee_u])
        n_else = len(got) - n_at
        self.part.count("op:call")
        self.part.count("op:call:" + klass)
        if n_else:
            self.violation("call-delivered-to-non-addressee", "a method call addressed to %s was also/instead delivered to %r"
                           % (self.lab(callee_u), [self.lab(e.at) for e in got if e.at != callee_u]))
        if n_at > 1:
            self.violation("call-delivered-%d-times" % n_at, "one method call reached its addressee %d times" % n_at)
        if n_at and errs:
            self.violation("call-delivered-and-refused", "a method call was delivered and its sender also got %s"
                           % self.lab(errs[0].name))
        if len(errs) > 1:
            self.violation("call-answered-%d-times-by-bus" % len(errs), "the bus sent %d errors for one method call" % len(errs))
        if not n_at and not errs:
            self.violation("call-vanished", "a method call was neither delivered nor refused with an error")
        observed = pm.DELIVER if n_at else ("refuse:" + {DENIED: "access-denied", LIMITS: "limits-exceeded"}.get(
            errs[0].name, self.lab(errs[0].name).rsplit(".", 1)[-1]) if errs else "vanished")
        key = (caller.unique, callee_u, used)
        if callee is None:
            self.part.sig("call", klass, observed, self.mode())
            if n_at or not errs:
                self.violation("call-to-departed-connection", "a call addressed to a departed unique name was not refused")
        elif callee.tname is None:
            self.part.sig("call", klass, observed, self.mode())
            if observed != pm.REFUSE_DENIED:
                # policy (C06) did not behave as configured: our assumption about the configuration is broken
                self.part.inconclusive.append("history %d: call to a connection owning no listed name was %s" % (self.hid, observed))
            else:
                self.part.count("call:refused-by-policy")
        elif klass == "recv-denied":
            # allowed to be sent, refused by the addressee's receive rules: AccessDenied for the caller, nobody gets it, and no
            # reply slot may be left behind (checked by the replies sent later 'to a refused call' and by the H1 comparison)
            self.part.sig("call", klass, no_reply, by_name, observed, self.mode())
            self.part.count("call:recv-denied:" + observed)
            if observed != pm.REFUSE_DENIED:
                self.violation("receive-denied-call:%s" % observed, "a method call that the addressee's receive rules deny was %s" % observed)
            n_at = 0
        else:
            outcomes = self.model.call_outcomes(caller.unique, callee_u, used, no_reply, just)
            self.part.sig("call", klass, no_reply, by_name and bool(callee.tname), caller is callee, tuple(sorted(outcomes)), observed, self.mode())
            self.part.count("call:" + observed)
            if len(outcomes) > 1:
                self.part.count("call:outcome-raced-with-timeout")
            if observed not in outcomes and observed != "vanished":
                if observed == pm.DELIVER and pm.REFUSE_DENIED in outcomes:
                    k = "outstanding-serial-reused-but-delivered"
                elif observed == pm.DELIVER:
                    k = "call-over-limit-delivered"
                elif pm.DELIVER in outcomes and len(outcomes) == 1:
                    k = "call-refused:%s" % observed.split(":", 1)[1]
                else:
                    k = "call-refusal-differs:%s" % observed.split(":", 1)[1]
                self.violation(k, "method call %s: observed %s, admissible %s" % (klass, observed, sorted(outcomes)))
        if n_at:
            if no_reply:
                self.noreply_calls.append(key)
            elif callee is not None:
                self.model.opened(caller.unique, callee_u, used, t_pre, tok)
        elif callee is not None:
            self.refused_calls.append(key)
        self.leftovers(evs)

    # -- replies ---------------------------------------------------------------------------------------
    def op_reply(self, replier, target_u, reply_serial, klass, mtype=None, by_name=False):
        rng = self.rng
        mtype = mtype or rng.choice([2, 2, 3])
        target = self.by_unique(target_u)
        dest = target.tname if (target is not None and by_name and target.tname) else target_u
        tok = self.token("reply")
        kw = dict(reply_serial=reply_serial, dest=dest, sig=b"s", body=[tok])
        if mtype == 3:
            kw["error_name"] = rng.choice([b"com.example.Error.E", NOREPLY, DENIED])
        flags = rng.choice([0, 0, 1])
        own, data = replier.build(mtype, flags=flags, **kw)
        replier.send_msg(data, own)
        self.step("reply[%s] %s -> %s (dest %s) type=%d reply_serial=%d own_serial=%d" % (
            klass, self.lab(replier.unique), self.lab(target_u), self.lab(dest), mtype, reply_serial, own))
        self.sync(first=replier)
        evs = self.absorb()
        just = self.settle(evs)
        got = [e for e in evs if e.kind == "peer" and e.token == tok]
        errs = [e for e in evs if e.kind == "buserr" and e.at == replier.unique and e.rs == own and not e.used]
        for e in got + errs:
            e.used = True
        n_at = len([e for e in got if e.at == target_u])
        n_else = len(got) - n_at
        self.part.count("op:reply")
        if target is None:
            expected = "refuse-any"
        else:
            expected = self.model.reply_outcome(replier.unique, target_u, reply_serial)
        was_just = any(s.key() == (target_u, replier.unique, reply_serial) for s in just)
        if was_just and klass in ("genuine", "race"):
            klass = "lost-race"
        observed = "delivered" if n_at else ("refused" if errs else "vanished")
        self.part.sig("reply", klass, mtype, by_name, flags, expected, observed, self.mode())
        self.part.count("reply:%s:%s" % (klass, observed))
        if n_else:
            self.violation("reply-reached-non-addressee:%s" % klass, "a reply addressed to %s reached %r"
                           % (self.lab(target_u), [self.lab(e.at) for e in got if e.at != target_u]))
        if expected == "deliver":
            if n_at == 0:
                self.violation("reply-refused-with-open-slot:%s" % klass,
                               "the reply of the addressee to a still-unanswered call (no NoReply seen) was not delivered; sender got %s"
                               % (self.lab(errs[0].name) if errs else "nothing"))
            elif n_at > 1:
                self.violation("reply-delivered-%d-times" % n_at, "one reply reached the caller %d times" % n_at)
            if n_at and errs:
                self.violation("reply-delivered-and-refused", "a reply was delivered and its sender also got %s" % self.lab(errs[0].name))
            if n_at:
                self.model.close(target_u, replier.unique, reply_serial)
                self.closed.append((target_u, replier.unique, reply_serial, "reply"))
        else:
            if n_at:
                if was_just:
                    self.violation("reply-and-noreply-both", "the caller got the bus's NoReply AND the callee's reply for one call")
                else:
                    self.violation("reply-reached-target:%s" % klass,
                                   "a reply for which the target has no open call to this sender (%s) was delivered" % klass)
            if expected == "refuse":
                if not errs and not n_at:
                    self.violation("refused-reply-not-answered:%s" % klass, "a refused reply was dropped without an error to its sender")
                elif errs and errs[0].name != DENIED:
                    self.violation("refused-reply-error-name:%s:%s" % (klass, self.lab(errs[0].name).rsplit(".", 1)[-1]),
                                   "a refused reply was answered with %s, not AccessDenied" % self.lab(errs[0].name))
            elif not errs and not n_at:
                self.violation("reply-to-departed-vanished", "a reply to a departed connection was dropped without an error to its sender")
            if len(errs) > 1:
                self.violation("refused-reply-answered-%d-times" % len(errs), "the bus sent %d errors for one refused reply" % len(errs))
        self.leftovers(evs)

    # -- disconnect ------------------------------------------------------------------------------------
    def op_disconnect(self, c, racing_caller=None):
        """racing_caller: the callee hangs up while a call for it already sits in the bus's socket buffer - the bus is frozen (SIGSTOP),
        `racing_caller` writes a call addressed to c, c closes, the bus continues and finds both in one main-loop round.  Whichever it
        handles first, the caller must get exactly one error for that call (NoReply if the call was routed first - its slot is closed by
        the disconnect -, no-such-name otherwise) and nobody else may see the call."""
        u = c.unique
        race = None
        if racing_caller is not None:
            by_name = self.rng.random() < 0.5
            dest = c.tname if by_name and c.tname else u
            tok = self.token("call")
            os.kill(self.daemon.pid, signal.SIGSTOP)
            try:
                t_pre = time.monotonic()
                used, data = racing_caller.build(1, path=b"/t", iface=b"com.example.I", member=b"M", dest=dest, sig=b"s", body=[tok])
                racing_caller.send_msg(data, used)
                c.close()
            finally:
                os.kill(self.daemon.pid, signal.SIGCONT)
            race = (racing_caller, used, tok, t_pre)
            self.step("call[into-hangup] %s -> %s (dest %s) serial=%d written, then %s closed, while the bus was stopped"
                      % (self.lab(racing_caller.unique), self.lab(u), self.lab(dest), used, self.lab(u)))
            self.part.count("op:call-into-hangup")
        self.clients.remove(c)
        self.departed.append(u)
        if race is None:
            c.close()
        self.part.count("op:disconnect")
        self.phase = "disconnect-notice"
        while True:
            rec = self.obs.recv(timeout=client.WATCHDOG)
            if rec.msg.type == 4 and rec.msg.known().get(3) == b"NameOwnerChanged" and rec.msg.body[:3] == [u, u, b""]:
                break
        race_err = None
        if race is not None:
            caller, used, tok, t_pre = race
            self.phase = "error-for-call-into-hangup"
            # logical, not wall-clock: the caller's round-trip starts after the departure was announced, so whatever the bus
            # queued for the caller while handling the call and the hang-up has been read when the round-trip completes
            caller.barrier()
            rec = None
            for cand in caller.inbox:
                if caller._is_reply(cand, used, None):
                    rec = cand
                    break
            if rec is None:
                self.violation("call-into-hangup:caller-got-nothing", "a call written just before its callee hung up got neither a reply "
                               "nor an error although the callee's departure was announced and the caller has since completed a "
                               "round-trip to the bus")
                race = None
            else:
                race_err = rec.msg.known().get(4) if rec.msg.type == 3 else b"?"
                if race_err == NOREPLY:
                    self.model.opened(caller.unique, u, used, t_pre, tok)      # routed first: the slot existed until the disconnect
        owed, dropped = self.model.disconnect(u)
        self.step("disconnect %s (owes %d replies, awaits %d)" % (self.lab(u), len(owed), len(dropped)))
        for s in dropped:
            if self.by_unique(s.callee) is not None:
                self.ghost_slots.append((s.caller, s.callee, s.serial))
        need = collections.Counter()
        for s in owed:
            need[(s.caller, s.serial)] += 1
            caller = self.by_unique(s.caller)
            self.phase = "noreply-after-callee-disconnect"
            rec = caller.wait_reply(s.serial)
            caller.inbox.insert(0, rec)
        self.sync()
        evs = self.absorb()
        if race is not None:
            caller, used, tok, t_pre = race
            seen = [e for e in evs if e.kind == "peer" and e.token == tok]
            errs = [e for e in evs if e.kind == "buserr" and e.at == caller.unique and e.rs == used]
            for e in seen:
                e.used = True
            if seen:
                self.violation("call-delivered-to-non-addressee", "a call addressed to the departing %s was delivered to %r"
                               % (self.lab(u), [self.lab(e.at) for e in seen]))
            if len(errs) != 1:
                self.violation("call-into-hangup:answered-%d-times" % len(errs), "the caller got %d errors for one call" % len(errs))
            short = self.lab(race_err).rsplit(".", 1)[-1]
            if race_err != NOREPLY:
                for e in errs:
                    e.used = True
                if short not in ("ServiceUnknown", "NameHasNoOwner"):
                    self.violation("call-into-hangup:refused:%s" % short, "a call to a callee that was hanging up was answered with %s "
                                   "although the caller was below its limit and the serial was fresh" % short)
            self.part.count("call-into-hangup:" + short)
            self.part.sig("call-into-hangup", short, self.mode())
        self.settle(evs, need)
        for (cu, ser), n in need.items():
            if n > 0:
                self.violation("callee-disconnect-without-noreply", "caller %s got a reply with serial %d that is not the bus's NoReply "
                               "after its callee disconnected" % (self.lab(cu), ser))
        self.part.sig("disconnect", min(len(owed), 3), min(len(dropped), 3), self.mode())
        self.leftovers(evs)

    # -- timeouts --------------------------------------------------------------------------------------
    def op_wait_expire(self, slot):
        caller = self.by_unique(slot.caller)
        self.step("wait for timeout of %s -> %s serial=%d" % (self.lab(slot.caller), self.lab(slot.callee), slot.serial))
        self.phase = "noreply-after-timeout"
        rec = caller.wait_reply(slot.serial)
        caller.inbox.insert(0, rec)
        self.sync()
        evs = self.absorb()
        self.settle(evs)
        if self.model.get(slot.caller, slot.callee, slot.serial) is not None:
            self.violation("timeout-answered-by-other-reply", "while waiting for the timeout the caller read a reply that is not NoReply")
        self.part.count("op:wait-expire")
        self.leftovers(evs)

    def op_race(self, slot):
        delay = slot.opened_at + self.model.timeout + self.rng.uniform(-0.03, 0.18) - time.monotonic()
        if delay > 0:
            time.sleep(delay)
        self.part.count("op:race")
        self.op_reply(self.by_unique(slot.callee), slot.caller, slot.serial, "race")
        if self.model.get(slot.caller, slot.callee, slot.serial) is not None:
            return
        # exactly one of {reply, NoReply} must have completed the call by now or the NoReply is still to come

    # -- driver ----------------------------------------------------------------------------------------
    def live(self, triples):
        return [t for t in triples if self.by_unique(t[0]) is not None and self.by_unique(t[1]) is not None]

    def run(self):
        rng = self.rng
        self.start()
        nops = rng.randint(25, 55)
        for _ in range(nops):
            if not self.daemon.alive():
                self.violation("daemon-died", "the bus exited during the history")
                break
            if len(self.clients) < 2:
                self.new_client(named=True)
                self.quiesce()
                continue
            r = rng.random()
            slots = list(self.model.slots.values())
            done = False
            if 0.30 <= r < 0.37 and slots:
                s = rng.choice(slots)
                caller = self.by_unique(s.caller)
                q = rng.random()
                if q < 0.6:
                    cal = self.by_unique(s.callee)
                    self.op_call(caller, cal, cal.unique, rng.random() < 0.4, serial=s.serial, klass="reuse-same-callee")
                    done = True
                else:
                    others = [c for c in self.clients if c.unique != s.callee and c.tname]
                    others = [c for c in others if not any(x.caller == s.caller and x.serial == s.serial and x.callee == c.unique for x in slots)]
                    # with a finite timeout a NoReply names only the serial: keep (caller, serial) unambiguous
                    if others and not self.timeout_ms:
                        cal = rng.choice(others)
                        self.op_call(caller, cal, cal.unique, rng.random() < 0.4, serial=s.serial, klass="reuse-other-callee")
                        done = True
            elif 0.37 <= r < 0.40:
                fin = [t for t in self.live(self.closed) if self.model.get(t[0], t[1], t[2]) is None
                       and not any(x.caller == t[0] and x.serial == t[2] for x in slots)]
                if fin:
                    t = rng.choice(fin)
                    cal = self.by_unique(t[1])
                    self.op_call(self.by_unique(t[0]), cal, cal.unique, rng.random() < 0.4, serial=t[2], klass="reuse-finished-serial")
                    done = True
            elif 0.40 <= r < 0.56 and slots:
                s = rng.choice(slots)
                self.op_reply(self.by_unique(s.callee), s.caller, s.serial, "genuine", by_name=rng.random() < 0.25)
                done = True
            elif 0.56 <= r < 0.62:
                fin = [t for t in self.live(self.closed) if t[3] == "reply" and self.model.get(t[0], t[1], t[2]) is None]
                if fin:
                    t = rng.choice(fin[-6:])
                    self.op_reply(self.by_unique(t[1]), t[0], t[2], "duplicate", by_name=rng.random() < 0.25)
                    done = True
            elif 0.62 <= r < 0.67:
                if slots and rng.random() < 0.8:
                    s = rng.choice(slots)
                    ser = s.serial + rng.choice([1, -1, 1000, 0x10000])
                    if ser > 0 and self.model.get(s.caller, s.callee, ser) is None:
                        self.op_reply(self.by_unique(s.callee), s.caller, ser, "wrong-serial")
                        done = True
                else:
                    a, b2 = rng.sample(self.clients, 2)
                    ser = rng.randint(1, 50)
                    if self.model.get(b2.unique, a.unique, ser) is None:
                        self.op_reply(a, b2.unique, ser, "unsolicited")
                        done = True
            elif 0.67 <= r < 0.73 and slots:
                s = rng.choice(slots)
                third = [c for c in self.clients if c.unique != s.callee and self.model.get(s.caller, c.unique, s.serial) is None]
                if third:
                    self.op_reply(rng.choice(third), s.caller, s.serial, "third-party", by_name=rng.random() < 0.25)
                    done = True
            elif 0.73 <= r < 0.78 and slots:
                s = rng.choice(slots)
                third = [c for c in self.clients if c.unique != s.caller and self.model.get(c.unique, s.callee, s.serial) is None]
                if third:
                    self.op_reply(self.by_unique(s.callee), rng.choice(third).unique, s.serial, "to-third-party")
                    done = True
            elif 0.78 <= r < 0.82:
                cand = [t for t in self.live(self.noreply_calls) if self.model.get(t[0], t[1], t[2]) is None]
                if cand:
                    t = rng.choice(cand[-6:])
                    self.op_reply(self.by_unique(t[1]), t[0], t[2], "no-reply-call")
                    done = True
            elif 0.82 <= r < 0.85:
                cand = [t for t in self.live(self.refused_calls) if self.model.get(t[0], t[1], t[2]) is None]
                if cand:
                    t = rng.choice(cand[-6:])
                    self.op_reply(self.by_unique(t[1]), t[0], t[2], "refused-call")
                    done = True
            elif 0.85 <= r < 0.88:
                fin = [t for t in self.live(self.closed) if t[3] == "timeout" and self.model.get(t[0], t[1], t[2]) is None]
                if fin:
                    t = rng.choice(fin[-6:])
                    self.op_reply(self.by_unique(t[1]), t[0], t[2], "after-expiry")
                    done = True
                elif self.timeout_ms and slots:
                    self.op_wait_expire(min(slots, key=lambda s: s.opened_at))
                    done = True
            elif 0.88 <= r < 0.925:
                involved = [c for c in self.clients if self.model.slots_of_callee(c.unique) or self.model.slots_of_caller(c.unique)]
                c = rng.choice(involved) if involved and rng.random() < 0.75 else rng.choice(self.clients)
                racers = [x for x in self.clients if x is not c and self.model.count(x.unique) < (self.limit or 128)]
                if c.tname and racers and rng.random() < 0.5:
                    self.op_disconnect(c, racing_caller=rng.choice(racers))
                else:
                    self.op_disconnect(c)
                if len(self.clients) < 3 or rng.random() < 0.5:
                    self.new_client(named=rng.random() < 0.85)
                    self.quiesce()
                done = True
            elif 0.925 <= r < 0.95:
                cand = [t for t in self.ghost_slots if self.by_unique(t[1]) is not None]
                if cand:
                    t = rng.choice(cand)
                    self.ghost_slots.remove(t)
                    self.op_reply(self.by_unique(t[1]), t[0], t[2], "to-departed-caller")
                    done = True
                elif self.departed and rng.random() < 0.5:
                    self.op_call(rng.choice(self.clients), None, rng.choice(self.departed), False, klass="to-departed")
                    done = True
            elif 0.95 <= r and self.timeout_ms and slots:
                s = rng.choice(slots)
                if rng.random() < 0.6:
                    self.op_race(s)
                else:
                    self.op_wait_expire(min(slots, key=lambda s: s.opened_at))
                done = True
            if done:
                continue
            # default: a fresh call
            caller = rng.choice(self.clients)
            q = rng.random()
            named = [c for c in self.clients if c.tname]
            nameless = [c for c in self.clients if not c.tname]
            if q < 0.07 and nameless:
                cal = rng.choice(nameless)
                self.op_call(caller, cal, cal.unique, False, no_reply=rng.random() < 0.3, klass="unlisted-destination")
            elif q < 0.12 and caller.tname:
                self.op_call(caller, caller, caller.unique, rng.random() < 0.4, no_reply=rng.random() < 0.2, klass="to-itself")
            elif q < 0.20 and named:
                cal = rng.choice([c for c in named if c is not caller] or named)
                self.op_call(caller, cal, cal.unique, rng.random() < 0.4, no_reply=rng.random() < 0.15, klass="recv-denied")
                # a later reply of the would-be callee is the probe; make it likely while the caller is still there
                if rng.random() < 0.6 and self.by_unique(cal.unique) is not None and self.by_unique(caller.unique) is not None:
                    t = self.refused_calls[-1]
                    if self.model.get(t[0], t[1], t[2]) is None:
                        self.op_reply(self.by_unique(t[1]), t[0], t[2], "refused-call")
            elif named:
                cal = rng.choice([c for c in named if c is not caller] or named)
                nr = rng.random() < 0.15
                self.op_call(caller, cal, cal.unique, rng.random() < 0.4, no_reply=nr, klass="no-reply-expected" if nr else "fresh")
            else:
                self.new_client(named=True)
                self.quiesce()
        self.quiesce()
        self.finish()

    def finish(self):
        for c in self.clients + ([self.obs] if self.obs else []):
            c.close()
        if self.daemon is not None:
            self.daemon.stop(timeout=180)
            for cls, site, text in self.daemon.problems():
                self.part.violation("%s:%s:%s" % (PROP, cls, site), "daemon reported %s" % cls, self.witness({"stderr": text[-3000:]}))
            self.part.count("daemon-stderr-scraped")


def _run_one(b, rundir, seed, shard, i, part):
    hid = shard * 100000 + i
    starts = 0
    attempt = 0
    while attempt < 2:
        d = os.path.join(rundir, "h%d-%d-%d" % (i, attempt, starts))
        h = History(b, d, gen.rng_for(seed, PROP, shard, i), part, hid)
        try:
            h.run()
            part.evaluations += len(h.steps)
            part.count("histories")
            part.count("histories:" + ("finite-timeout" if h.timeout_ms else "no-timeout"))
            return h
        except StartFailure as e:
            try:
                h.daemon.stop()        # no verdict is drawn from a daemon that never came up
            except Exception:
                pass
            starts += 1
            part.count("daemon-start-retried")
            if starts >= 4:
                part.inconclusive.append("history %d: %s" % (hid, e))
                return None
            continue
        except (client.Timeout, client.Closed) as e:
            alive = h.daemon.alive() if h.daemon else False
            try:
                h.finish()
            except Exception:
                pass
            if attempt == 1:
                part.violation("%s:hang:%s" % (PROP, h.phase), "history blocked twice in phase %r (%s, daemon alive=%s)"
                               % (h.phase, type(e).__name__, alive), h.witness())
            else:
                part.count("watchdog")
            attempt += 1
        finally:
            shutil.rmtree(d, ignore_errors=True)
    return None


def _worker(args):
    seed, shard, count = args
    part = report.Part()
    b = build.build("asan", quiet=True)
    rundir = tempfile.mkdtemp(prefix="verif-c09-")
    try:
        for i in range(count):
            h = _run_one(b, rundir, seed, shard, i, part)
            if h is not None and shard == 0 and i < 2:
                part.sample({"history": h.hid, "reply_timeout_ms": h.timeout_ms, "max_replies_per_connection": h.limit,
                             "steps": h.steps[:30]})
    finally:
        shutil.rmtree(rundir, ignore_errors=True)
    return part

# ======================================================================================= expiry behind a younger call
# Bounded progress of the NoReply clause when SEVERAL calls are outstanding: the slot of an older call must be closed when
# ITS timeout elapses (or its callee hangs up), whatever younger calls are still open in front of it in the bus's list.
# Lateness is a wall-clock quantity, so it is judged against controls measured on the same bus in the same seconds
# (a lone call's NoReply, and the younger call's own NoReply), needs a large margin, and counts only when a second run on
# a fresh bus repeats it.

LATE_T = 1.6          # reply_timeout of these buses (s)
LATE_MARGIN = 0.30    # how late the older call's NoReply may be, beyond what the controls show the machine does anyway


def _await_noreply(c, serial, limit_s):
    """-> arrival time (time.monotonic()) of the bus's error for `serial` on c, or None"""
    deadline = time.monotonic() + limit_s
    while time.monotonic() < deadline:
        try:
            rec = c.recv(timeout=max(0.01, deadline - time.monotonic()))
        except client.Timeout:
            return None
        k = rec.msg.known()
        if rec.msg.type == 3 and k.get(5) == serial and k.get(7) == BUS:
            return time.monotonic()
    return None


def lateness_case(b, rundir, mode):
    """mode 'timeout': old call A->B, half a timeout later young call C->D, nobody answers.
       mode 'hangup':  old call A->B, young call C->D, then B hangs up.
       -> dict of measured latenesses (s) or {'inconclusive': why}"""
    cfg = busproc.make_config("@SOCK@", policy_xml=policy_xml(), limits={"reply_timeout": int(LATE_T * 1000)})
    d = busproc.Daemon(b, rundir, cfg, name="late")
    out = {}
    cl = []
    try:
        if not d.started():
            return {"inconclusive": "daemon did not start"}
        names = {}
        for i, nm in enumerate("ABCD"):
            c = client.connect(d.sock)
            c.bus_call(b"RequestName", b"su", [TEST_NAMES[i], 0])
            names[nm] = c
            cl.append(c)
        A, B, C, D = (names[x] for x in "ABCD")

        def call(src, dst_i):
            serial, data = src.build(1, path=b"/t", iface=b"com.example.I", member=b"M", dest=TEST_NAMES[dst_i], sig=b"s", body=[b"late"])
            t = time.monotonic()
            src.send_msg(data, serial)
            return serial, t

        # control: a lone call
        s0, t0 = call(A, 1)
        a0 = _await_noreply(A, s0, LATE_T + client.WATCHDOG)
        if a0 is None:
            return {"inconclusive": "control call got no NoReply"}
        out["control"] = a0 - t0 - LATE_T
        if mode == "timeout":
            s1, t1 = call(A, 1)
            time.sleep(LATE_T / 2)
            s2, t2 = call(C, 3)
            a1 = _await_noreply(A, s1, LATE_T + client.WATCHDOG)
            a2 = _await_noreply(C, s2, LATE_T + client.WATCHDOG)
            if a1 is None or a2 is None:
                return dict(out, missing="old" if a1 is None else "young")
            out["old"] = a1 - t1 - LATE_T
            out["young"] = a2 - t2 - LATE_T
        else:
            s1, t1 = call(A, 1)
            s2, t2 = call(C, 3)
            A.barrier()
            C.barrier()
            th = time.monotonic()
            B.close()
            a1 = _await_noreply(A, s1, LATE_T + client.WATCHDOG)
            a2 = _await_noreply(C, s2, LATE_T + client.WATCHDOG)
            if a1 is None or a2 is None:
                return dict(out, missing="old" if a1 is None else "young")
            out["old"] = a1 - th                      # after the hang-up, no timeout has to pass
            out["young"] = a2 - t2 - LATE_T
        return out
    except (client.Timeout, client.Closed) as e:
        return {"inconclusive": "client %s" % type(e).__name__}
    finally:
        for c in cl:
            try:
                c.close()
            except Exception:
                pass
        d.stop()
        shutil.rmtree(rundir, ignore_errors=True)


def _late_worker(args):
    seed, shard, n = args
    part = report.Part()
    b = build.build("asan", quiet=True)
    base = tempfile.mkdtemp(prefix="verif-c09l-")
    try:
        for i in range(n):
            mode = "timeout" if (shard + i) % 2 == 0 else "hangup"
            part.evaluations += 1
            verdicts = []
            for attempt in (0, 1):
                m = lateness_case(b, os.path.join(base, "c%d-%d" % (i, attempt)), mode)
                if "inconclusive" in m:
                    part.count("late-part:inconclusive-sample")
                    verdicts.append(None)
                    break
                if "missing" in m:
                    verdicts.append(("missing", m))
                    continue
                noise = max(0.0, m["control"], m["young"])
                part.count("late-part:samples:" + mode)
                part.counters["late-part:max-control-lateness-ms"] = max(part.counters.get("late-part:max-control-lateness-ms", 0), int(noise * 1000))
                if m["old"] > noise + LATE_MARGIN:
                    verdicts.append(("late", m))
                    continue
                part.count("late-part:old-call-expired-on-time:" + mode)
                part.sig("late", mode, int(m["old"] * 20))
                verdicts.append(None)
                break
            if len(verdicts) == 2 and all(verdicts):
                kind, m = verdicts[1]
                if kind == "missing":
                    part.violation("%s:noreply-missing-with-younger-call-open:%s" % (PROP, mode),
                                   "with a younger call outstanding the %s call got no NoReply at all (twice)" % m["missing"], {"mode": mode, "measured": m})
                else:
                    part.violation("%s:noreply-late-behind-younger-call:%s" % (PROP, mode),
                                   "the older of two outstanding calls got its NoReply %.0f ms late (%s) while a lone call and the younger call were "
                                   "%.0f / %.0f ms late on the same bus; repeated on a fresh bus" % (m["old"] * 1000, mode, m["control"] * 1000, m["young"] * 1000),
                                   {"mode": mode, "measured": m, "first_run": verdicts[0][1]})
    finally:
        shutil.rmtree(base, ignore_errors=True)
    return part


# ======================================================================================= calls refused for a full queue
# A call that the bus refuses because the callee's outgoing queue is over max_outgoing_bytes (LimitsExceeded) was never
# delivered: it opens no reply slot.  Own buses with a small max_outgoing_bytes and a callee that does not read.

QF_LIMIT = 60000


def queue_full_case(b, rundir, rng, part, cid):
    cfg = busproc.make_config("@SOCK@", policy_xml=policy_xml(), limits={"max_outgoing_bytes": QF_LIMIT})
    d = busproc.Daemon(b, rundir, cfg, name="qf")
    wit = {"part": "queue-full", "case": cid, "steps": []}
    cl = []

    def violation(key, what):
        part.violation("%s:%s" % (PROP, key), what, dict(wit))

    try:
        if not d.started():
            part.inconclusive.append("queue-full case: daemon did not start")
            return
        A, B, O = (client.connect(d.sock) for _ in range(3))
        cl += [A, B, O]
        A.bus_call(b"RequestName", b"su", [TEST_NAMES[0], 0])
        B.bus_call(b"RequestName", b"su", [TEST_NAMES[1], 0])
        O.bus_call(b"AddMatch", b"s", [NOC_RULE])
        filler = b"f" * 30000
        refused, delivered = [], []
        for n in range(60):
            A.signal(b"/t", b"com.example.I", b"Fill", b"s", [filler], dest=TEST_NAMES[1])
            serial = A.call_async(TEST_NAMES[1], b"/t", b"com.example.I", b"Probe", b"s", [b"probe%d" % n])
            A.barrier()
            errs = [r for r in A.take_inbox() if r.msg.type == 3 and r.msg.known().get(5) == serial and r.msg.known().get(7) == BUS]
            if len(errs) > 1:
                violation("call-answered-%d-times-by-bus:queue-full" % len(errs), "the bus sent %d errors for one refused call" % len(errs))
            if errs:
                name = errs[0].msg.known().get(4)
                if name != LIMITS:
                    part.inconclusive.append("queue-full case: probe refused with %r" % name)
                    return
                refused.append(serial)
                if len(refused) >= rng.randint(1, 3):
                    break
            else:
                delivered.append(serial)
        wit["steps"].append("fillers+probes: %d delivered, %d refused with LimitsExceeded" % (len(delivered), len(refused)))
        if not refused:
            part.count("queue-full:limit-never-reached(not judged)")
            return
        part.count("queue-full:cases")
        part.count("queue-full:calls-refused", len(refused))
        part.evaluations += 1
        # the callee reads now: it must find the delivered probes and none of the refused ones
        for _ in range(400):
            n0 = len(B.inbox)
            B.pump(0.05)
            if len(B.inbox) == n0:
                break
        B.barrier()
        got = [r.msg.serial for r in B.take_inbox() if r.msg.type == 1 and r.msg.known().get(3) == b"Probe" and r.msg.known().get(7) == A.unique]
        for sr in refused:
            if sr in got:
                violation("call-delivered-and-refused:queue-full", "a call answered with LimitsExceeded reached the callee all the same")
        mode = rng.choice(["late-reply", "late-reply", "hangup", "both"])
        wit["steps"].append(mode)
        part.sig("queue-full", mode, len(refused), min(len(delivered), 3))
        if mode in ("late-reply", "both"):
            for sr in refused:
                own = B.reply_to(A.unique, sr) if hasattr(B, "reply_to") else None
                if own is None:
                    own, data = B.build(2, reply_serial=sr, dest=A.unique, sig=b"s", body=[b"late"])
                    B.send_msg(data, own)
                B.barrier()
                A.barrier()
                at_a = [r for r in A.take_inbox() if r.msg.type in (2, 3) and r.msg.known().get(5) == sr]
                at_b = [r for r in B.take_inbox() if r.msg.type == 3 and r.msg.known().get(5) == own and r.msg.known().get(7) == BUS]
                part.count("queue-full:late-replies-sent")
                if any(r.msg.known().get(7) == B.unique for r in at_a):
                    violation("reply-reached-target:call-refused-for-full-queue",
                              "the callee's reply to a call that the bus had refused with LimitsExceeded (never delivered) reached the caller: two answers for one call")
                elif at_a:
                    violation("refused-call-answered-again-by-bus:queue-full", "the caller got %r for a call already answered with LimitsExceeded" % (at_a[0],))
                elif not at_b or at_b[0].msg.known().get(4) != DENIED:
                    violation("refused-reply-not-answered:call-refused-for-full-queue", "the reply to a never-delivered call was not refused with AccessDenied: %r" % (at_b[:1],))
                else:
                    part.count("queue-full:late-reply-refused")
        if mode in ("hangup", "both"):
            ub = B.unique
            B.close()
            for _ in range(200):
                r = O.bus_call(b"NameHasOwner", b"s", [ub])
                if r.msg.type == 2 and r.msg.body == [0]:
                    break
                time.sleep(0.02)
            A.barrier()
            A.barrier()
            nore = collections.Counter(r.msg.known().get(5) for r in A.take_inbox()
                                       if r.msg.type == 3 and r.msg.known().get(7) == BUS and r.msg.known().get(4) == NOREPLY)
            for sr in refused:
                if nore.get(sr):
                    violation("noreply-without-open-call:call-refused-for-full-queue",
                              "the caller got NoReply (callee hung up) for a call the bus had already answered with LimitsExceeded")
                else:
                    part.count("queue-full:no-noreply-for-refused-call")
            for sr in delivered:
                if nore.get(sr, 0) != 1:
                    violation("noreply-count-%d:delivered-call:queue-full" % nore.get(sr, 0),
                              "a delivered, unanswered call got %d NoReply errors when its callee hung up" % nore.get(sr, 0))
                else:
                    part.count("queue-full:noreply-for-delivered-call")
    except (client.Timeout, client.Closed) as e:
        part.inconclusive.append("queue-full case %d aborted: %s" % (cid, type(e).__name__))
    finally:
        for c in cl:
            try:
                c.close()
            except Exception:
                pass
        d.stop()
        for cls, site, text in d.problems():
            part.violation("%s:%s:%s" % (PROP, cls, site), "daemon reported %s (queue-full part)" % cls, dict(wit, stderr=text[-2000:]))
        shutil.rmtree(rundir, ignore_errors=True)


def _any_worker(args):
    if args[0] == "qf":
        _, seed, shard, n = args
        part = report.Part()
        b = build.build("asan", quiet=True)
        base = tempfile.mkdtemp(prefix="verif-c09q-")
        try:
            for i in range(n):
                queue_full_case(b, os.path.join(base, "c%d" % i), gen.rng_for(seed, PROP, "qf", shard, i), part, shard * 1000 + i)
        finally:
            shutil.rmtree(base, ignore_errors=True)
        return part
    if args[0] == "late":
        return _late_worker(args[1:])
    return _worker(args)


REQUIRED = ["reply:genuine:delivered", "reply:duplicate:refused", "reply:wrong-serial:refused", "reply:third-party:refused",
            "reply:to-third-party:refused", "reply:no-reply-call:refused", "reply:refused-call:refused",
            "reply:after-expiry:refused", "reply:to-departed-caller:refused", "noreply:callee-disconnect", "noreply:timeout",
            "call:refuse:access-denied", "call:refuse:limits-exceeded", "call:deliver", "call:refused-by-policy", "op:race",
            "op:call-into-hangup"]


def run(tier, seed, replay=None, scale=1.0):
    r = report.Run(PROP, tier)
    r.rule = RULE
    b = build.build("asan")
    r.builds.append(b.info())
    if replay:
        j = json.load(open(replay))
        hid = j["witness"]["history"]
        shard, i = divmod(hid, 100000)
        part = report.Part()
        rundir = tempfile.mkdtemp(prefix="verif-c09-")
        try:
            _run_one(b, rundir, j["seed"], shard, i, part)
        finally:
            shutil.rmtree(rundir, ignore_errors=True)
        part.sig("replay", 0)
        part.sig("replay", 1)
        r.merge(part)
        return r.finish()
    total = int((320 if tier == "quick" else 8000) * scale)
    per = max(1, total // 16)
    nlate = max(1, int((16 if tier == "quick" else 96) * scale))
    nqf = max(1, int((48 if tier == "quick" else 1200) * scale))
    shards = [(seed, i, per) for i in range(16)] + [("late", seed, i, max(1, nlate // 8)) for i in range(min(8, nlate))] \
        + [("qf", seed, i, max(1, nqf // 8)) for i in range(8)]
    for part in report.run_sharded(_any_worker, shards):
        if "late-part:max-control-lateness-ms" in part.counters:
            r.extra["late_part_max_control_lateness_ms"] = max(r.extra.get("late_part_max_control_lateness_ms", 0),
                                                                part.counters.pop("late-part:max-control-lateness-ms"))
        r.merge(part)
    r.extra["outcome_classes"] = {k: int(v) for k, v in sorted(r.counters.items()) if k.startswith(("reply:", "call:", "noreply:"))}
    r.extra["policy"] = policy_xml()
    for k in REQUIRED:
        r.require(k, 3 if scale >= 1 else 1)
    r.require("daemon-stderr-scraped", 1)
    r.require("queue-full:cases", 30 if scale >= 1 else 0)
    r.require("queue-full:late-reply-refused", 20 if scale >= 1 else 0)
    r.require("queue-full:no-noreply-for-refused-call", 10 if scale >= 1 else 0)
    r.require("late-part:old-call-expired-on-time:timeout", 3 if scale >= 1 else 0)
    r.require("late-part:old-call-expired-on-time:hangup", 3 if scale >= 1 else 0)
    r.require("call:recv-denied:" + pm.REFUSE_DENIED, int(100 * min(1.0, scale)))
    r.require("reply:refused-call:refused", int(60 * min(1.0, scale)))
    r.require("dump-comparisons", int(5000 * min(1.0, scale)))
    r.require("dump-slots-compared", int(5000 * min(1.0, scale)))
    r.assumptions = [
        "policy under test is the one in coverage.policy (written for this check): no rule carries send_requested_reply=\"false\" or "
        "receive_requested_reply=\"false\"; a call to a connection owning none of the listed names must be refused by that policy, "
        "otherwise the run is inconclusive (that is C06's subject)",
        "a reply addressed to a unique name that has left the bus cannot reach anybody; any error to its sender is accepted there "
        "(the bus answers ServiceUnknown), 'refused as access denied' is required whenever the addressed connection exists",
        "when a call both reuses an outstanding serial and exceeds max_replies_per_connection either refusal is accepted",
        "a NoReply is attributed to a slot by (caller, reply serial); with a finite timeout the workload never keeps two slots of one "
        "caller with the same serial",
        "the timeout is judged in one direction only: a NoReply read earlier than reply_timeout after the call was written is premature; "
        "how late the bus may be is bounded only by the 20 s watchdog",
        "a would-be replier's AccessDenied is identified by REPLY_SERIAL = serial of the refused reply",
        "call-into-hangup: the bus process is stopped (SIGSTOP) while a caller below its limit writes a call with a fresh serial and the "
        "callee closes, then continued; exactly one error must reach the caller - NoReply (call routed first; the model then opens "
        "and closes the slot) or ServiceUnknown/NameHasNoOwner (hang-up handled first); which of the two is not judged",
        "hook H1 (FREEDESKTOP_DBUS_VERIF build) dumps the pending-reply list after every dispatch; it is read after a further driver "
        "round-trip; with a finite timeout a model slot absent from the dump is accepted when reply_timeout has elapsed since the "
        "call was written (its NoReply is then judged when read), lateness of the bus is never judged",
    ]
    return r.finish()
