"""C10 - one misbehaving client cannot crash, corrupt or stall the bus."""
import json
import os
import signal
import shutil
import socket
import struct
import tempfile
import time

from vf import build, busproc, client, gen, report, wire
from vf.wire import Variant

PROP = "C10"
RULE = ("per scenario a fresh ASan+UBSan daemon (leak check at SIGTERM) with a bystander caller, an echo service, and an "
        "eavesdropping observer; 20..60 attack steps by hostile raw clients, before and after authentication: single-site "
        "corruptions of valid bus traffic (every site class of the C01 generator), size-limit header words, declared-huge "
        "messages followed by silence, partial writes, garbage, SASL abuse incl. over-long lines, floods to a non-reading "
        "peer, floods without reading until the bus verifiably stops reading from the flooder (max_incoming_bytes reached) followed by a "
        "hang-up in that state (the dead connection must be dropped and the idle bus must not burn CPU), more silent connections than max_incomplete_connections, close after every prefix of a valid session, "
        "argument-level fuzzing of every driver method. After every step a bystander round-trip through the bus must "
        "return the right token; a hostile that sent a complete invalid message must see EOF; the invalid message's "
        "marker must never appear at any other client; at the end the idle daemon must not burn CPU. Four scenarios in ten also listen on "
        "loopback TCP (ANONYMOUS allowed) and about half of their hostile connections come in over TCP. Nonce-tcp part: buses with a nonce-tcp "
        "listener and hostile TCP connections that send no nonce / a part of it / a wrong one / the right one followed by garbage or a close, "
        "with a bystander on the unix socket of the same bus and a well-behaved nonce client as positive control. distinct = (attack "
        "class, oracle verdict/reason, outcome)")

ECHO = b"com.example.Echo"
DRIVER_METHODS = [(b"Hello", b""), (b"RequestName", b"su"), (b"ReleaseName", b"s"), (b"StartServiceByName", b"su"),
                  (b"UpdateActivationEnvironment", b"a{ss}"), (b"NameHasOwner", b"s"), (b"ListNames", b""),
                  (b"ListActivatableNames", b""), (b"AddMatch", b"s"), (b"RemoveMatch", b"s"), (b"GetNameOwner", b"s"),
                  (b"ListQueuedOwners", b"s"), (b"GetConnectionUnixUser", b"s"), (b"GetConnectionUnixProcessID", b"s"),
                  (b"GetAdtAuditSessionData", b"s"), (b"GetConnectionSELinuxSecurityContext", b"s"), (b"ReloadConfig", b""),
                  (b"GetId", b""), (b"GetConnectionCredentials", b"s"), (b"BecomeMonitor", b"asu")]


def known_c01_reasons():
    out = set()
    for k in report.load_known():
        if k.get("property") == "C01" and k.get("status") == "known" and k["key"].startswith("C01:accepted-but-invalid:"):
            out.add(k["key"][len("C01:accepted-but-invalid:"):])
    return out


class Scenario(object):
    def __init__(self, b, rundir, rng, part, sid, skip_reasons):
        self.b, self.rundir, self.rng, self.part, self.sid = b, rundir, rng, part, sid
        self.skip_reasons = skip_reasons
        self.clock = client.Clock()
        self.steps = []
        self.markers = []        # byte strings that must never show up at bystanders
        self.token = 0

    def witness(self, extra=None):
        w = {"scenario": self.sid, "steps": self.steps[-50:]}
        if extra:
            w.update(extra)
        return w

    def violation(self, key, what, extra=None):
        self.part.violation("%s:%s" % (PROP, key), what, self.witness(extra))

    def start(self):
        rng = self.rng
        self.limits = {"max_incomplete_connections": rng.choice([2, 4, 8]), "auth_timeout": rng.choice([400, 800]),
                       "max_message_size": rng.choice([65536, 1 << 20]), "max_incoming_bytes": 1 << 22,
                       "max_outgoing_bytes": 1 << 22}
        # four scenarios in ten: the bus also listens on TCP (loopback; EXTERNAL and ANONYMOUS allowed), and about half of the hostile
        # connections of such a scenario come in over TCP - no socket credentials, another accept path; the bystanders stay on unix
        self.tcp_addr = None
        extra = ""
        if rng.random() < 0.4 and busproc.tcp_loopback_available():
            extra = ("  <listen>tcp:host=127.0.0.1,port=0</listen>\n  <auth>EXTERNAL</auth>\n  <auth>ANONYMOUS</auth>\n"
                     "  <allow_anonymous/>")
        self.daemon = busproc.Daemon(self.b, self.rundir, busproc.make_config("@SOCK@", limits=self.limits, extra=extra),
                                     name="s%d" % self.sid, print_address=bool(extra), env={"TMPDIR": self.rundir})
        if not self.daemon.started():
            raise RuntimeError("daemon did not start: " + self.daemon.stderr_text()[-400:])
        if extra:
            for t, kv in self.daemon.addresses():
                if t == "tcp":
                    self.tcp_addr = ("127.0.0.1", int(kv["port"]))
            self.part.count("scenarios-with-tcp-listener" if self.tcp_addr else "tcp-listener-address-not-found")
        self.b1 = client.connect(self.daemon.sock, self.clock)
        self.b2 = client.connect(self.daemon.sock, self.clock)
        self.obs = client.connect(self.daemon.sock, self.clock)
        r = self.b2.bus_call(b"RequestName", b"su", [ECHO, 0])
        assert r.msg.type == 2 and r.msg.body[0] == 1
        self.obs.bus_call(b"AddMatch", b"s", [b"eavesdrop='true'"])
        for c in (self.b1, self.b2, self.obs):
            c.barrier()
            c.take_inbox()

    # -- the bystander monitor -----------------------------------------------------------
    def bystander_roundtrip(self, after):
        self.token += 1
        tok = b"tok-%d-%d" % (self.sid, self.token)
        t0 = time.time()
        try:
            serial = self.b1.call_async(ECHO, b"/echo", b"com.example.Echo", b"Echo", b"s", [tok])
            # the service answers
            while True:
                rec = self.b2.recv(timeout=client.WATCHDOG)
                if rec.msg.type == 1 and rec.msg.known().get(3) == b"Echo":
                    self.b2.reply(rec, b"s", [rec.msg.body[0]])
                    break
                self.check_leak(rec, "echo service")
            rep = self.b1.wait_reply(serial)
            if rep.msg.type != 2 or rep.msg.body != [tok]:
                self.violation("bystander-wrong-answer", "bystander call answered wrongly after %s: %r" % (after, rep))
            r2 = self.b1.bus_call(b"NameHasOwner", b"s", [ECHO])
            if r2.msg.type != 2 or r2.msg.body != [1]:
                self.violation("bystander-wrong-driver-answer", "driver answered NameHasOwner wrongly after %s" % after)
        except (client.Timeout, client.Closed) as e:
            raise
        self.part.count("bystander-roundtrips")
        dt = time.time() - t0
        self.maxrt = max(getattr(self, "maxrt", 0.0), dt)
        for c in (self.b1, self.b2):
            for rec in c.take_inbox():
                self.check_leak(rec, "bystander")
        # The observer eavesdrops on everything, floods included, and does not read while an attack runs: its queue inside the
        # bus can then be over max_outgoing_bytes, and the bus drops its own replies to such a connection (recorded C05 finding) -
        # the observer's barrier would wait for an answer that was thrown away.  Empty the queue first.
        for _ in range(400):
            n0 = len(self.obs.inbox)
            self.obs.pump(0.05)
            if len(self.obs.inbox) == n0:
                break
        self.obs.barrier()
        for rec in self.obs.take_inbox():
            self.check_leak(rec, "eavesdropper")

    def check_leak(self, rec, where):
        for m in self.markers:
            if m in rec.raw:
                self.violation("invalid-message-visible", "bytes of an invalid message reached the %s" % where,
                               {"marker": m.hex()})

    # -- hostile helpers -------------------------------------------------------------------
    def hostile(self, hello=True):
        # a new connection may be turned away while connections of an earlier attack are still being torn down
        # (limits on unauthenticated connections): try again a few times before treating it as the bus not serving
        over_tcp = self.tcp_addr is not None and self.rng.random() < 0.5
        for attempt in range(6):
            h = client.Client(self.tcp_addr if over_tcp else self.daemon.sock, self.clock)
            self.part.count("hostile-connections:" + ("tcp" if over_tcp else "unix")) if attempt == 0 else None
            try:
                h.auth()
                if hello:
                    h.hello()
                return h
            except client.Closed:
                h.close()
                if attempt == 5 or not self.daemon.alive():
                    raise
                self.part.count("hostile-connection-turned-away-once")
                time.sleep(0.05 * (attempt + 1))

    def expect_eof(self, h, cls, reason):
        ok = h.wait_eof(timeout=client.WATCHDOG)
        if not ok:
            self.violation("invalid-not-disconnected:%s" % reason, "sender of an invalid message (%s, %s) was not disconnected" % (cls, reason))
        return ok

    def valid_traffic(self, h, marker):
        rng = self.rng
        k = rng.choice(["signal", "call-echo", "call-driver", "broadcast"])
        body_sig, body = gen.rand_body(rng, maxdepth=3)
        body_sig, body = b"s" + body_sig, [marker] + body
        if len(body_sig) > 200:
            body_sig, body = b"s", [marker]
        order = rng.choice("lB")
        if k == "signal":
            return h.build(4, path=b"/x", iface=b"com.example.H", member=b"S", dest=self.b2.unique, sig=body_sig, body=body, order=order)
        if k == "call-echo":
            return h.build(1, path=b"/echo", iface=b"com.example.Echo", member=b"Other", dest=ECHO, sig=body_sig, body=body, flags=1,
                           order=order)
        if k == "call-driver":
            return h.build(1, path=b"/org/freedesktop/DBus", iface=b"org.freedesktop.DBus", member=b"NameHasOwner",
                           dest=b"org.freedesktop.DBus", sig=b"s", body=[b"com.example." + marker], order=order)
        return h.build(4, path=b"/x", iface=b"com.example.H", member=b"B", sig=body_sig, body=body, order=order)

    # -- attacks ------------------------------------------------------------------------------
    def attack_corrupt(self):
        rng = self.rng
        h = self.hostile()
        # random 64-bit tokens: no single-site corruption of one valid message can turn its token into another's
        marker = b"MK%016xK" % self.rng.getrandbits(64)
        serial, data = self.valid_traffic(h, marker)
        # re-encode with sites
        r = wire.validate(data, nfds=None)
        m = r.msg
        data, sites = wire.encode_message(m.type, m.fields, m.body_sig, m.body, serial=m.serial, flags=m.flags, order=chr(data[0]),
                                          add_signature=False, want_sites=True)
        bad, cls = gen.corrupt(rng, data, sites)
        if cls in ("truncate",):
            cls = "truncate"
        v = wire.validate(bad, nfds=0)
        complete = False
        if len(bad) >= 16:
            try:
                complete = len(bad) >= wire.frame_length(bad, array_limit=False)
            except wire.Invalid:
                complete = True
        self.steps.append("corrupt class=%s verdict=%s reason=%s hex=%s" % (cls, v.kind, v.reason, bad.hex()[:3000]))
        self.part.count("attack:corrupt")
        try:
            h.send_msg(bad, serial, chunks=rng.choice([None, [1, 3, 12], [16], [len(bad) // 2]]))
        except client.Closed:
            pass
        outcome = "sent"
        if v.kind == wire.INVALID and complete:
            base = (v.reason or "")
            if base in self.skip_reasons:
                outcome = "skipped-known-C01-deviation"
            else:
                self.markers.append(marker)
                outcome = "eof" if self.expect_eof(h, cls, base.split(":")[0]) else "no-eof"
        elif v.kind == wire.VALID:
            # a mutation that is still valid: must be treated like any message, connection stays usable
            try:
                h.barrier()
                outcome = "valid-still-connected"
            except (client.Closed, client.Timeout):
                # a frame that only LOOKS valid to the oracle when considered alone may be followed by trailing bytes
                if len(bad) == v.need:
                    self.violation("valid-message-disconnected", "a valid (mutated) message got its sender disconnected",
                                   {"hex": bad.hex()[:3000]})
                outcome = "valid-disconnected"
        self.part.sig("corrupt", cls.split(":")[0], v.kind, (v.reason or "").split(":")[0], outcome)
        h.close()

    def attack_reserved(self):
        """Messages on the reserved interface / path org.freedesktop.DBus.Local (which the library uses for its own
        synthetic Disconnected notification) arriving from the wire, in both byte orders: the specification says the
        reference bus disconnects any application that sends one, and nothing of it may reach anybody else."""
        rng = self.rng
        h = self.hostile(hello=rng.random() < 0.8)
        marker = b"MK%016xK" % rng.getrandbits(64)
        order = rng.choice("lB")
        shape = rng.choice(["forged-disconnected", "forged-disconnected", "local-iface", "local-path", "local-call", "local-to-bus"])
        if shape == "forged-disconnected":
            kw = dict(mtype=4, path=wire.LOCAL_PATH, iface=wire.LOCAL_IFACE, member=b"Disconnected")
            if rng.random() < 0.3:
                kw.update(sig=b"s", body=[marker])
        elif shape == "local-iface":
            kw = dict(mtype=4, path=b"/x", iface=wire.LOCAL_IFACE, member=rng.choice([b"Disconnected", b"X"]), sig=b"s", body=[marker],
                      dest=rng.choice([None, self.b2.unique]))
        elif shape == "local-path":
            kw = dict(mtype=4, path=wire.LOCAL_PATH, iface=b"com.example.H", member=rng.choice([b"Disconnected", b"X"]), sig=b"s",
                      body=[marker], dest=rng.choice([None, self.b2.unique]))
        elif shape == "local-call":
            kw = dict(mtype=1, path=rng.choice([b"/echo", wire.LOCAL_PATH]), iface=wire.LOCAL_IFACE, member=b"Disconnected", dest=ECHO,
                      sig=b"s", body=[marker])
        else:
            kw = dict(mtype=1, path=wire.LOCAL_PATH, iface=rng.choice([wire.LOCAL_IFACE, b"org.freedesktop.DBus"]), member=b"GetId",
                      dest=b"org.freedesktop.DBus")
        mtype = kw.pop("mtype")
        serial, data = h.build(mtype, order=order, **kw)
        self.steps.append("reserved %s order=%s hex=%s" % (shape, order, data.hex()[:600]))
        self.part.count("attack:reserved")
        self.part.count("attack:reserved:order-" + order)
        try:
            h.send_msg(data, serial, chunks=rng.choice([None, [16], [1, 3, 12]]))
        except client.Closed:
            pass
        self.markers.append(marker)
        ok = self.expect_eof(h, shape, "reserved-local-name:" + ("big-endian" if order == "B" else "little-endian"))
        self.part.sig("reserved", shape, order, "eof" if ok else "no-eof")
        h.close()

    def attack_write_and_close(self):
        """Messages that the bus itself answers (org.freedesktop.DBus.Peer handled inside libdbus when there is no
        destination, driver methods, calls to nobody) written by a client that closes its socket at once: when the
        message is dispatched its sender is already gone.  The bus must simply drop what it cannot send."""
        rng = self.rng
        h = self.hostile(hello=rng.random() < 0.6)
        n = rng.randint(1, 4)
        burst = b""
        shapes = []
        for _ in range(n):
            shape = rng.choice(["peer-ping-nodest", "peer-ping-nodest", "peer-machineid-nodest", "peer-unknown-nodest", "peer-ping-bus",
                                "driver-getid", "driver-listnames", "call-nobody", "call-echo", "hello-again"])
            order = rng.choice("lB")
            if shape.startswith("peer"):
                member = {"peer-ping-nodest": b"Ping", "peer-ping-bus": b"Ping", "peer-machineid-nodest": b"GetMachineId",
                          "peer-unknown-nodest": b"NoSuchMethod"}[shape]
                _, d = h.build(1, path=rng.choice([b"/", b"/org/freedesktop/DBus", b"/x"]), iface=b"org.freedesktop.DBus.Peer", member=member,
                               dest=b"org.freedesktop.DBus" if shape.endswith("bus") else None, order=order)
            elif shape == "driver-getid":
                _, d = h.build(1, path=b"/org/freedesktop/DBus", iface=b"org.freedesktop.DBus", member=b"GetId", dest=b"org.freedesktop.DBus", order=order)
            elif shape == "driver-listnames":
                _, d = h.build(1, path=b"/org/freedesktop/DBus", iface=b"org.freedesktop.DBus", member=b"ListNames", dest=b"org.freedesktop.DBus", order=order)
            elif shape == "hello-again":
                _, d = h.build(1, path=b"/org/freedesktop/DBus", iface=b"org.freedesktop.DBus", member=b"Hello", dest=b"org.freedesktop.DBus", order=order)
            elif shape == "call-nobody":
                _, d = h.build(1, path=b"/x", iface=b"com.example.H", member=b"M", dest=b"com.example.Nobody", order=order)
            else:
                _, d = h.build(1, path=b"/echo", iface=b"com.example.Echo", member=b"Other", dest=ECHO, sig=b"s", body=[b"bye"], order=order)
            burst += d
            shapes.append(shape)
        stop = rng.random() < 0.5
        self.steps.append("write-and-close %s%s" % (shapes, " (daemon stopped while writing)" if stop else ""))
        self.part.count("attack:write-and-close")
        if stop:
            os.kill(self.daemon.pid, signal.SIGSTOP)      # the bytes and the EOF are both there when the bus reads next
        try:
            try:
                h.send_bytes(burst)
            except OSError:
                pass
            h.close()
        finally:
            if stop:
                os.kill(self.daemon.pid, signal.SIGCONT)
        for sh in set(shapes):
            self.part.sig("write-and-close", sh, stop)

    def attack_sizes(self):
        rng = self.rng
        h = self.hostile()
        k = rng.choice(["huge-then-silence", "oversize", "body-len-max", "fields-len-max", "partial-header"])
        self.steps.append("sizes %s" % k)
        self.part.count("attack:sizes")
        lim = self.limits["max_message_size"]
        hdr = bytearray(wire.encode_message(4, [(1, Variant(b"o", b"/a")), (2, Variant(b"s", b"a.b")), (3, Variant(b"s", b"M")),
                                                (8, Variant(b"g", b"ay"))], b"", [], serial=9, add_signature=False))
        expect = None
        if k == "huge-then-silence":
            n = lim - 4096
            struct.pack_into("<I", hdr, 4, n + 4)
            payload = bytes(hdr) + struct.pack("<I", n) + b"x" * 1000
            expect = "stay"
        elif k == "oversize":
            n = lim + rng.choice([1, 8, 4096])
            struct.pack_into("<I", hdr, 4, n + 4)
            payload = bytes(hdr) + struct.pack("<I", n) + b"x" * 64
            expect = "eof"
        elif k == "body-len-max":
            struct.pack_into("<I", hdr, 4, rng.choice([1 << 27, 0xFFFFFFFF, (1 << 27) + 1, 0x80000000]))
            payload = bytes(hdr)
            expect = "eof"
        elif k == "fields-len-max":
            struct.pack_into("<I", hdr, 12, rng.choice([1 << 27, 0xFFFFFFFF, 0x80000000]))
            payload = bytes(hdr)
            expect = "eof"
        else:
            payload = bytes(hdr[:rng.randint(1, 15)])
            expect = "stay"
        try:
            h.send_bytes(payload)
        except OSError:
            pass
        if expect == "eof":
            self.expect_eof(h, k, k)
            h.close()
        else:
            # the half-sent message stays pending while the bystanders keep being served
            self.bystander_roundtrip("half-sent message (%s)" % k)
            self.part.count("half-sent-while-serving")
            h.close()
        self.part.sig("sizes", k, expect)

    def attack_preauth(self):
        rng = self.rng
        k = rng.choice(["garbage", "no-nul", "long-line", "many-rejects", "begin-first", "binary-after-auth", "close-immediately",
                        "half-auth-silence", "junk-commands", "junk-commands", "junk-commands"])
        self.steps.append("preauth %s" % k)
        self.part.count("attack:preauth")
        if self.tcp_addr is not None and rng.random() < 0.5:
            s = client.connect_as(self.tcp_addr)
            self.part.count("preauth-over-tcp")
        else:
            s = socket.socket(socket.AF_UNIX, socket.SOCK_STREAM)
            client._connect_retry(s, self.daemon.sock)
        s.settimeout(client.WATCHDOG)
        try:
            if k == "garbage":
                s.sendall(bytes(rng.getrandbits(8) for _ in range(rng.choice([1, 64, 5000]))))
            elif k == "no-nul":
                s.sendall(b"AUTH EXTERNAL 30\r\nBEGIN\r\n")
            elif k == "long-line":
                s.sendall(b"\0AUTH " + b"A" * rng.choice([16000, 17000, 70000]))
            elif k == "many-rejects":
                s.sendall(b"\0" + b"AUTH FOO\r\n" * 40)
            elif k == "begin-first":
                s.sendall(b"\0BEGIN\r\n" + b"l\1\0\1" + b"\0" * 12)
            elif k == "binary-after-auth":
                s.sendall(b"\0AUTH EXTERNAL 30\r\n" + bytes(rng.getrandbits(8) for _ in range(200)))
            elif k == "close-immediately":
                pass
            elif k == "half-auth-silence":
                s.sendall(b"\0AUTH EXTERN")
            elif k == "junk-commands":
                pool = [b"DATA zz\r\n", b"ERROR\r\n", b"CANCEL\r\n", b"\xff\xfe\r\n", b"NEGOTIATE_UNIX_FD\r\n", b"AUTH\r\n",
                        b"AUTH EXTERNAL 31\r\n", b"DATA\r\n", b"AUTH EXTERNAL\r\n", b"AUTH DBUS_COOKIE_SHA1\r\n",
                        b"AUTH DBUS_COOKIE_SHA1 726f6f74\r\n", b"AUTH ANONYMOUS\r\n", b"DATA 30\r\n", b"DATA 3\r\n", b"DATA 31 32\r\n",
                        b"DATA " + b"61" * 40 + b"\r\n", b"AUTH EXTERNAL zz\r\n", b"BEGIN\r\n", b"DATA \n\r\n", b"AUTH  \r\n"]
                lines = []
                for _ in range(rng.randint(3, 12)):
                    # themed runs: a mechanism opened without initial response followed by several DATA variants
                    if rng.random() < 0.5:
                        lines.append(rng.choice([b"AUTH EXTERNAL\r\n", b"AUTH DBUS_COOKIE_SHA1\r\n", b"AUTH DBUS_COOKIE_SHA1 726f6f74\r\n"]))
                        for _ in range(rng.randint(1, 4)):
                            lines.append(rng.choice([p for p in pool if p.startswith(b"DATA")]))
                    else:
                        lines.append(rng.choice(pool))
                s.sendall(b"\0" + b"".join(lines))
        except OSError:
            pass
        self.bystander_roundtrip("pre-auth abuse (%s)" % k)
        s.close()
        self.part.sig("preauth", k)

    def attack_flood(self):
        rng = self.rng
        self.steps.append("flood to non-reading peer")
        self.part.count("attack:flood")
        slow = self.hostile()
        h = self.hostile()
        n = rng.choice([200, 1000])
        blob = b"z" * rng.choice([100, 4000])
        try:
            for i in range(n):
                serial, data = h.build(4, path=b"/f", iface=b"com.example.F", member=b"Fl", dest=slow.unique, sig=b"ay", body=[list(blob)])
                h.send_msg(data, serial)
        except client.Closed:
            pass
        self.bystander_roundtrip("flood of %d messages to a peer that does not read" % n)
        self.part.sig("flood", n, len(blob))
        slow.close()
        h.close()

    def attack_flood_hangup(self):
        """A client writes without ever reading until the bus stops reading from it (its undelivered messages have reached
        max_incoming_bytes: the bus switches that connection's read watch off), and hangs up in exactly that state.  The
        precondition is verified, not assumed: the client's non-blocking send() has been refused for 0.4 s on end after
        more than max_incoming_bytes were accepted.  Afterwards the bus must go on serving, must drop the dead connection
        (its unique name disappears - asked through NameHasOwner, a logical condition polled under the usual watchdog) and
        must not burn CPU while everybody is idle."""
        rng = self.rng
        target = rng.choice(["self", "self", "peer"])
        how = rng.choice(["close", "shutdown-close", "shutdown-write"])
        self.part.count("attack:flood-hangup")
        h = self.hostile()
        slow = self.hostile() if target == "peer" else None
        dest = h.unique if target == "self" else slow.unique
        # a string body: the eavesdropping observer's Python decoder gets a copy of the whole flood, and an 'ay' body would cost it
        # one list element per byte (with 16 scenarios in parallel that alone exceeded the watchdog - a harness-made stall)
        blob = b"z" * rng.choice([3000, 20000, 60000])
        serial, data = h.build(4, path=b"/f", iface=b"com.example.F", member=b"Fl", dest=dest, sig=b"s", body=[blob])
        limit = self.limits["max_incoming_bytes"]
        self.steps.append("flood-hangup: %s-addressed flood of %d-byte messages until the bus stops reading, then %s" % (target, len(data), how))
        h.sock.setblocking(False)
        sent, off, stalled_since, stopped = 0, 0, None, False
        deadline = time.time() + client.WATCHDOG
        while time.time() < deadline:
            try:
                n = h.sock.send(data[off:off + 65536])
                sent += n
                off = (off + n) % len(data)
                stalled_since = None
            except BlockingIOError:
                now = time.time()
                if stalled_since is None:
                    stalled_since = now
                elif now - stalled_since > 0.4 and sent > limit:
                    stopped = True
                    break
                time.sleep(0.01)
            except OSError:
                break
        self.part.count("flood-hangup:bus-stopped-reading" if stopped else "flood-hangup:precondition-not-reached(not judged)")
        if stopped:
            self.part.count("flood-hangup:%s:%s" % (target, how))
        name = h.unique
        try:
            if how != "close":
                h.sock.shutdown(socket.SHUT_WR if how == "shutdown-write" else socket.SHUT_RDWR)
        except OSError:
            pass
        if how != "shutdown-write":
            h.close()
        self.bystander_roundtrip("flood-hangup (%s, %s, bus stopped reading: %s)" % (target, how, stopped))
        if slow is not None:
            # the messages are held for the peer that does not read; once it goes they are freed and the bus reads h's end of stream
            slow.close()
        if stopped and how != "shutdown-write":
            gone = False
            deadline = time.time() + client.WATCHDOG
            while time.time() < deadline:
                r = self.b1.bus_call(b"NameHasOwner", b"s", [name])
                if r.msg.type == 2 and r.msg.body == [0]:
                    gone = True
                    break
                time.sleep(0.05)
            if not gone:
                self.violation("hung-up-connection-not-dropped:" + target,
                               "a connection that hung up (%s) while the bus was not reading from it still owns %s %.0f s later"
                               % (how, name.decode(), client.WATCHDOG))
            t1 = self.daemon.cpu_ticks()
            time.sleep(0.7)
            t2 = self.daemon.cpu_ticks()
            if t1 is not None and t2 is not None:
                self.part.count("idle-windows")
                if t2 - t1 > 25:
                    self.violation("spin:after-flood-hangup", "the bus used %d clock ticks of CPU in a 0.7 s window in which no client "
                                   "did anything, after a flooding client hung up (%s, %s)" % (t2 - t1, target, how))
        if how == "shutdown-write":
            h.close()
        self.part.sig("flood-hangup", target, how, stopped, len(blob))

    def attack_incomplete_conns(self):
        rng = self.rng
        lim = self.limits["max_incomplete_connections"]
        n = lim + rng.randint(1, 6)
        kind = rng.choice(["silent", "authenticated-silent", "mixed"])
        self.steps.append("open %d %s connections that never say Hello (max_incomplete_connections=%d)" % (n, kind, lim))
        self.part.count("attack:incomplete")
        self.part.count("attack:incomplete:" + kind)
        socks = []
        for i in range(n):
            s = socket.socket(socket.AF_UNIX, socket.SOCK_STREAM)
            s.setblocking(False)
            try:
                s.connect(self.daemon.sock)
            except (BlockingIOError, OSError):
                pass
            if kind == "authenticated-silent" or (kind == "mixed" and i % 2 == 0):
                # complete the SASL handshake, then stay silent: still an incomplete connection for the bus
                try:
                    s.send(b"\0AUTH EXTERNAL 30\r\nBEGIN\r\n")
                except OSError:
                    pass
            socks.append(s)
        self.bystander_roundtrip("%d silent unauthenticated connections" % n)
        # bounded progress: after auth_timeout the slots are freed and a well-behaved newcomer gets in
        deadline = time.time() + self.limits["auth_timeout"] / 1000.0 + client.WATCHDOG
        ok = False
        while time.time() < deadline:
            try:
                c = client.Client(self.daemon.sock, self.clock)
                c.sock.settimeout(2.0)
                c.auth()
                c.hello()
                c.close()
                ok = True
                break
            except (client.Closed, client.Timeout, OSError):
                try:
                    c.close()
                except Exception:
                    pass
                time.sleep(0.1)
        if not ok:
            self.violation("newcomer-starved", "a well-behaved client could not connect within auth_timeout + watchdog while silent "
                                               "connections were open")
        for s in socks:
            s.close()
        self.part.sig("incomplete", kind, n > lim, ok)

    def attack_prefix_close(self):
        rng = self.rng
        h = client.Client(self.daemon.sock, self.clock)
        session = b"\0AUTH EXTERNAL 30\r\nBEGIN\r\n"
        s1, d1 = h.build(1, path=b"/org/freedesktop/DBus", iface=b"org.freedesktop.DBus", member=b"Hello", dest=b"org.freedesktop.DBus")
        s2, d2 = h.build(1, path=b"/org/freedesktop/DBus", iface=b"org.freedesktop.DBus", member=b"RequestName", dest=b"org.freedesktop.DBus",
                         sig=b"su", body=[b"com.example.P%d" % self.sid, 0])
        s3, d3 = h.build(4, path=b"/p", iface=b"com.example.P", member=b"S", sig=b"s", body=[b"bye"])
        session += d1 + d2 + d3
        cut = rng.randint(0, len(session))
        self.steps.append("valid session cut at byte %d of %d then close" % (cut, len(session)))
        self.part.count("attack:prefix-close")
        try:
            h.send_bytes(session[:cut])
        except OSError:
            pass
        h.close()
        self.part.sig("prefix-close", min(cut, 60) // 4)

    def attack_driver_fuzz(self):
        rng = self.rng
        h = self.hostile()
        n = rng.randint(3, 12)
        self.part.count("attack:driver-fuzz")
        for _ in range(n):
            member, sig = rng.choice(DRIVER_METHODS)
            if member in (b"Hello", b"ReloadConfig", b"BecomeMonitor") and rng.random() < 0.7:
                member, sig = b"GetNameOwner", b"s"
            r = rng.random()
            if r < 0.35:
                bsig, body = gen.rand_body(rng, maxdepth=3)           # wrong signature
            elif r < 0.7 and sig:
                ts = wire.parse_signature(sig)
                bsig, body = sig, [gen.rand_value(rng, t) for t in ts]   # right signature, random values
            else:
                bsig, body = sig, []
                for t in wire.parse_signature(sig):
                    if t.code == ord('s'):
                        body.append(rng.choice([b"", b":", b":1", b"org.freedesktop.DBus", b"a..b", b"x" * 300, b"a.b", h.unique, b":1.0", b"\xc3\xa9.x",
                                                b"type='signal',arg0path=''", b"arg0namespace='.'", b"eavesdrop='true',path_namespace='/'"]))
                    elif t.code == ord('u'):
                        body.append(rng.choice([0, 1, 7, 0xFFFFFFFF]))
                    else:
                        body.append(gen.rand_value(rng, t))
            iface = rng.choice([b"org.freedesktop.DBus", b"org.freedesktop.DBus", None, b"org.freedesktop.DBus.Monitoring",
                                b"org.freedesktop.DBus.Properties", b"org.freedesktop.DBus.Introspectable", b"org.freedesktop.DBus.Peer",
                                b"org.freedesktop.DBus.Debug.Stats"])
            path = rng.choice([b"/org/freedesktop/DBus", b"/org/freedesktop/DBus", b"/", b"/x"])
            self.steps.append("driver call %s.%s sig=%s" % (iface, member.decode(), bsig.decode("latin1")[:40]))
            try:
                serial = h.call_async(b"org.freedesktop.DBus", path, iface, member, bsig, body)
                rep = h.wait_reply(serial)
                self.part.sig("driver", member.decode(), "error" if rep.msg.type == 3 else "return")
                h.barrier()
                extra = [x for x in h.take_inbox() if x.msg.type in (2, 3) and x.msg.known().get(5) == serial]
                if extra and not (member == b"RemoveMatch"):
                    self.violation("driver-call-answered-twice:%s" % member.decode(), "driver method answered %d times" % (1 + len(extra)))
            except client.Closed:
                self.part.sig("driver", member.decode(), "disconnected")
                if member not in (b"BecomeMonitor",) and (member != b"Hello"):
                    # being disconnected for a well-formed method call is not something the property forbids for the
                    # hostile itself; count it
                    self.part.count("driver-fuzz-disconnected")
                break
        h.close()

    def run(self):
        rng = self.rng
        self.start()
        self.bystander_roundtrip("startup")
        n = rng.randint(20, 60)
        attacks = [(self.attack_corrupt, 10), (self.attack_sizes, 2), (self.attack_preauth, 3), (self.attack_flood, 1),
                   (self.attack_incomplete_conns, 1), (self.attack_prefix_close, 3), (self.attack_driver_fuzz, 3),
                   (self.attack_reserved, 2), (self.attack_write_and_close, 3), (self.attack_flood_hangup, 1)]
        pool = [a for a, w in attacks for _ in range(w)]
        for _ in range(n):
            if not self.daemon.alive():
                self.violation("daemon-died", "the bus exited during the scenario")
                return self.finish()
            a = rng.choice(pool)
            a()
            self.bystander_roundtrip(self.steps[-1][:80] if self.steps else "?")
        # spin check: everybody idle now
        time.sleep(0.3)
        t1 = self.daemon.cpu_ticks()
        time.sleep(0.7)
        t2 = self.daemon.cpu_ticks()
        if t1 is not None and t2 is not None:
            self.part.count("idle-windows")
            if t2 - t1 > 25:     # > 0.25 s CPU in a 0.7 s idle window
                self.violation("spin", "idle daemon used %d clock ticks of CPU in a 0.7 s window" % (t2 - t1))
        self.finish()

    def finish(self):
        for c in (self.b1, self.b2, self.obs):
            try:
                c.close()
            except Exception:
                pass
        self.daemon.stop()
        for cls, site, text in self.daemon.problems():
            self.part.violation("%s:%s:%s" % (PROP, cls, site), "daemon reported %s" % cls, self.witness({"stderr": text[-3000:]}))


def _run_one(b, rundir, seed, shard, i, part, skip):
    sid = shard * 100000 + i
    for attempt in (0, 1):
        d = os.path.join(rundir, "s%d-%d" % (i, attempt))
        sc = Scenario(b, d, gen.rng_for(seed, PROP, shard, i), part, sid, skip)
        try:
            sc.run()
            part.evaluations += len(sc.steps)
            part.count("scenarios")
            return sc
        except wire.Invalid as e:
            # a bystander received bytes from the bus that do not decode as a valid message
            sc.violation("invalid-message-relayed:%s" % str(e.reason).split("(")[-1].split(",")[1].strip(" '") if "Result(" in str(e.reason) else "invalid-message-relayed",
                         "the bus sent a frame to a well-behaved client that is not a valid message: %s" % e.reason)
            try:
                sc.finish()
            except Exception:
                pass
            part.evaluations += len(sc.steps)
            return sc
        except (client.Timeout, client.Closed) as e:
            import traceback
            where = "".join(traceback.format_tb(e.__traceback__)[-3:])
            alive = sc.daemon.alive() if getattr(sc, "daemon", None) else False
            try:
                sc.finish()
            except Exception:
                pass
            if attempt == 1:
                part.violation("%s:stall:%s" % (PROP, "daemon-alive" if alive else "daemon-dead"),
                               "bystander traffic stalled twice (%s) after: %s" % (type(e).__name__, sc.steps[-1][:120] if sc.steps else "?"),
                               sc.witness({"where": where}))
            else:
                part.count("watchdog")
        finally:
            shutil.rmtree(d, ignore_errors=True)
    return None


# ======================================================================================= nonce-tcp listener
# A bus that listens on nonce-tcp reads a 16-byte nonce from every new connection before anything else.  Hostile clients of
# this part attack exactly that step.  The bystander sits on the unix socket of the same bus.

def nonce_case(b, rundir, rng, part, cid):
    import urllib.parse
    extra = ("  <listen>nonce-tcp:host=127.0.0.1,port=0</listen>\n  <auth>EXTERNAL</auth>\n  <auth>ANONYMOUS</auth>\n  <allow_anonymous/>")
    d = busproc.Daemon(b, rundir, busproc.make_config("@SOCK@", extra=extra), name="n%d" % cid, print_address=True, env={"TMPDIR": rundir})
    wit = {"part": "nonce-tcp", "case": cid, "steps": []}
    held = []

    def violation(key, what):
        part.violation("%s:%s" % (PROP, key), what, dict(wit))

    try:
        if not d.started():
            part.inconclusive.append("nonce-tcp case: daemon did not start: " + d.stderr_text()[-200:])
            return
        port = nonce = None
        for t, kv in d.addresses():
            if t == "nonce-tcp":
                port = int(kv["port"])
                nonce = open(urllib.parse.unquote(kv["noncefile"]), "rb").read()
        if port is None or nonce is None or len(nonce) != 16:
            part.inconclusive.append("nonce-tcp case: no nonce-tcp address printed")
            return
        b1 = client.connect(d.sock)
        held.append(b1)

        def raw():
            s = socket.socket(socket.AF_INET, socket.SOCK_STREAM)
            s.connect(("127.0.0.1", port))
            held.append(s)
            return s

        def served(limit):
            try:
                r = b1.bus_call(b"GetId", timeout=limit)
                return r.msg.type == 2
            except client.Timeout:
                return False

        attacks = ["positive", "wrong-nonce", "no-nonce", "partial-nonce", "nonce-then-garbage", "nonce-then-close", "prefix-then-close", "positive"]
        rng.shuffle(attacks)
        for a in attacks[:rng.randint(4, 8)]:
            wit["steps"].append(a)
            part.count("nonce-tcp:attack:" + a)
            part.evaluations += 1
            if a == "positive":
                try:
                    c = client.Client(("127.0.0.1", port, nonce))
                    held.append(c)
                    c.auth()
                    ok = c.hello().msg.type == 2 and c.bus_call(b"GetId").msg.type == 2
                    c.close()
                except (client.Closed, client.Timeout, OSError):
                    ok = False
                if not ok:
                    violation("nonce-tcp:well-behaved-client-not-served", "a client that presented the right nonce could not register and call the bus")
                else:
                    part.count("nonce-tcp:well-behaved-client-served")
            elif a in ("no-nonce", "partial-nonce"):
                s = raw()
                if a == "partial-nonce":
                    s.sendall(nonce[:rng.randint(1, 15)])
                time.sleep(0.3)
                if served(3.0):
                    part.count("nonce-tcp:served-while-a-connection-withholds-its-nonce")
                else:
                    violation("stall:nonce-tcp:%s" % a, "while one TCP connection had sent %s and stayed silent, a bystander on the unix socket of the "
                              "same bus got no answer to GetId within 3 s" % ("nothing" if a == "no-nonce" else "a part of the nonce"))
                s.close()
                # bounded progress once the silent connection is gone: the bus must be back (and answer the call it had missed)
                try:
                    b1.barrier()
                    part.count("nonce-tcp:recovered-after-close")
                except (client.Timeout, client.Closed):
                    violation("stall:nonce-tcp:not-recovered-after-the-silent-connection-closed",
                              "the bus did not answer the bystander even after the silent TCP connection had been closed")
                    return
            else:
                s = raw()
                try:
                    if a == "wrong-nonce":
                        bad = bytes(x ^ 0x55 for x in nonce)
                        s.sendall(bad + b"\0AUTH ANONYMOUS 76\r\nBEGIN\r\n")
                    elif a == "nonce-then-garbage":
                        s.sendall(nonce + bytes(rng.getrandbits(8) for _ in range(rng.choice([1, 40, 3000]))))
                    elif a == "nonce-then-close":
                        s.sendall(nonce)
                    else:
                        s.sendall(nonce[:rng.randint(0, 15)])
                except OSError:
                    pass
                if a in ("nonce-then-close", "prefix-then-close"):
                    s.close()
                if not served(client.WATCHDOG):
                    violation("stall:nonce-tcp:%s" % a, "bystander not served after %s" % a)
                    return
                if a == "wrong-nonce":
                    s.settimeout(client.WATCHDOG)
                    try:
                        data = s.recv(4096)
                        while data and b"OK " not in data:
                            more = s.recv(4096)
                            if not more:
                                break
                            data += more
                    except OSError:
                        data = b""
                    if b"OK " in data:
                        violation("nonce-tcp:wrong-nonce-accepted", "a connection that presented a wrong nonce got as far as 'OK' in the handshake")
                    else:
                        part.count("nonce-tcp:wrong-nonce-turned-away")
                try:
                    s.close()
                except OSError:
                    pass
        part.count("nonce-tcp:cases")
        part.sig("nonce-tcp", tuple(sorted(set(wit["steps"]))))
    except (client.Timeout, client.Closed) as e:
        part.inconclusive.append("nonce-tcp case %d aborted: %s" % (cid, type(e).__name__))
    finally:
        for c in held:
            try:
                c.close()
            except Exception:
                pass
        d.stop()
        for cls, site, text in d.problems():
            part.violation("%s:%s:%s" % (PROP, cls, site), "daemon reported %s (nonce-tcp part)" % cls, dict(wit, stderr=text[-2000:]))
        shutil.rmtree(rundir, ignore_errors=True)


def _worker(args):
    if args[0] == "nonce":
        _, seed, shard, count = args
        part = report.Part()
        b = build.build("asan", quiet=True)
        base = tempfile.mkdtemp(prefix="verif-c10n-")
        try:
            for i in range(count):
                nonce_case(b, os.path.join(base, "c%d" % i), gen.rng_for(seed, PROP, "nonce", shard, i), part, shard * 1000 + i)
        finally:
            shutil.rmtree(base, ignore_errors=True)
        return part
    seed, shard, count = args
    part = report.Part()
    b = build.build("asan", quiet=True)
    skip = known_c01_reasons()
    rundir = tempfile.mkdtemp(prefix="verif-c10-")
    try:
        for i in range(count):
            sc = _run_one(b, rundir, seed, shard, i, part, skip)
            if sc is not None and shard == 0 and i < 2:
                part.sample({"scenario": sc.sid, "steps": [s[:200] for s in sc.steps[:12]]})
    finally:
        shutil.rmtree(rundir, ignore_errors=True)
    return part


def run(tier, seed, replay=None, scale=1.0):
    r = report.Run(PROP, tier)
    r.rule = RULE
    b = build.build("asan")
    r.builds.append(b.info())
    if replay:
        j = json.load(open(replay))
        if j["witness"].get("part") == "nonce-tcp":
            shard, i = divmod(j["witness"]["case"], 1000)
            part = report.Part()
            nonce_case(b, tempfile.mkdtemp(prefix="verif-c10n-"), gen.rng_for(j["seed"], PROP, "nonce", shard, i), part, j["witness"]["case"])
            part.sig("replay", 0)
            part.sig("replay", 1)
            r.merge(part)
            return r.finish()
        sid = j["witness"]["scenario"]
        shard, i = divmod(sid, 100000)
        part = report.Part()
        rundir = tempfile.mkdtemp(prefix="verif-c10-")
        try:
            _run_one(b, rundir, j["seed"], shard, i, part, known_c01_reasons())
        finally:
            shutil.rmtree(rundir, ignore_errors=True)
        part.sig("replay", 0)
        r.merge(part)
        return r.finish()
    total = int((128 if tier == "quick" else 2400) * scale)
    per = max(1, total // 16)
    nn = max(1, int((32 if tier == "quick" else 800) * scale))
    tcp_ok = busproc.tcp_loopback_available()
    r.extra["tcp_loopback_available"] = tcp_ok
    shards = [(seed, i, per) for i in range(16)] + ([("nonce", seed, i, max(1, nn // 8)) for i in range(8)] if tcp_ok else [])
    for part in report.run_sharded(_worker, shards):
        r.merge(part)
    if scale >= 1 and tcp_ok:
        r.require("nonce-tcp:cases", 16)
        r.require("nonce-tcp:well-behaved-client-served", 10)
        r.require("nonce-tcp:wrong-nonce-turned-away", 5)
        r.require("scenarios-with-tcp-listener", 15)
        r.require("hostile-connections:tcp", 150)
        r.require("bystander-roundtrips", 1000)
        r.require("attack:corrupt", 300)
        r.require("attack:preauth", 50)
        r.require("attack:driver-fuzz", 50)
        r.require("idle-windows", 10)
        r.require("flood-hangup:bus-stopped-reading", 8)
    r.assumptions = ["'within bounded time' is restated as: the bystander round-trip after each attack step completes before a 20 s watchdog "
                     "(twice, the second time in a solo re-run)",
                     "invalid-message reasons that are known C01 deviations (accepted by the parser) are not expected to disconnect",
                     "a hostile client being disconnected for valid-but-odd driver calls is counted, not judged"]
    return r.finish()
