"""C11 - message framing is independent of how the byte stream is chunked."""
import json

from vf import build, gen, hrun, msgoracle, report, wire
from vf.wire import Variant

PROP = "C11"
RULE = ("streams of 1..12 generated valid messages (both byte orders, sizes 16 B..several KiB), optionally followed "
        "by one corrupted frame and more bytes; each stream is fed to a DBusMessageLoader unsplit and under many "
        "partitions (1-byte dribble, all 1-cut and 2-cut partitions of short streams, random k-cuts, cuts forced "
        "into fixed header / field array / padding / body); second mode: the same through a real in-process "
        "DBusServer connection where the stream starts with the SASL handshake so that message bytes share a read "
        "with BEGIN; third mode: a raw client writes valid descriptor-carrying messages (lengths not multiples of 8) "
        "to the real daemon in chosen partitions (daemon SIGSTOPped around each write so its reads see exactly the "
        "chunks): every message must arrive, in order, with its descriptors. Oracle: unsplit run + independent "
        "framing (vf/wire.py). distinct = (mode, #messages, terminal "
        "state, partition kind, byte order mix)")

AUTH = b"\0AUTH EXTERNAL 30\r\nBEGIN\r\n"


def _stream(rng, short=False):
    n = rng.choice([1, 1, 2, 3, 5, 8, 12]) if not short else rng.choice([1, 1, 2])
    msgs = []
    for _ in range(n):
        m = gen.rand_message(rng, maxdepth=2 if short else 4)
        if short:
            m["fields"] = [(c, v) for c, v in m["fields"] if c in wire.REQUIRED.get(m["mtype"], ()) or c == 8][:4]
            m["body_sig"], m["body"] = rng.choice([(b"", []), (b"y", [7]), (b"u", [1])])
            m["fields"] = [(c, v) for c, v in m["fields"] if c != 8]
            if m["body_sig"]:
                m["fields"].append((8, Variant(b"g", m["body_sig"])))
            if m["mtype"] > 4:
                m["mtype"] = 2
                m["fields"] = [(5, Variant(b"u", 3))] + [(c, v) for c, v in m["fields"] if c == 8]
        msgs.append(gen.encode(m, want_sites=True))
    data = b"".join(d for d, _ in msgs)
    tail = "none"
    r = rng.random()
    if r < 0.4:
        m = gen.rand_message(rng)
        d, sites = gen.encode(m, want_sites=True)
        d2, cls = gen.corrupt(rng, d, sites)
        more = bytes(rng.getrandbits(8) for _ in range(rng.choice([0, 0, 5, 40])))
        if rng.random() < 0.3:
            more += gen.encode(gen.rand_message(rng))
        data += d2 + more
        tail = "corrupt:" + cls
    elif r < 0.5:
        data += gen.encode(gen.rand_message(rng))[:rng.randint(1, 30)]
        tail = "partial"
    return data, tail


def _partitions(rng, n, frames, exhaustive2=False):
    """yield (kind, chunk list)"""
    yield "dribble", [1] * n
    if exhaustive2 and n <= 96:
        for i in range(1, n):
            yield "1cut", [i, n - i]
        for i in range(1, n):
            for j in range(i + 1, n):
                yield "2cut", [i, j - i, n - j]
        return
    for _ in range(6):
        k = rng.randint(1, min(10, max(1, n - 1)))
        cuts = sorted(set(rng.randint(1, max(1, n - 1)) for _ in range(k)))
        yield "random", _cuts_to_chunks(cuts, n)
    # cuts aimed at structure: inside the fixed header, just before/after header end, inside body
    for off, r in frames[:4]:
        hl = r.msg.header_len
        for c in (off + 1, off + 4, off + 12, off + 15, off + 16, off + 17, off + hl - 1, off + hl, off + hl + 1, off + r.need - 1):
            if 0 < c < n:
                yield "aimed", _cuts_to_chunks([c], n)
        cs = sorted(set(x for x in (off + 8, off + 16, off + hl, off + hl + 3) if 0 < x < n))
        if cs:
            yield "aimed-multi", _cuts_to_chunks(cs, n)
    yield "pairs", [2] * (n // 2) + ([1] if n % 2 else [])
    yield "sevens", [7] * (n // 7) + ([n % 7] if n % 7 else [])


def _cuts_to_chunks(cuts, n):
    out = []
    prev = 0
    for c in cuts:
        out.append(c - prev)
        prev = c
    out.append(n - prev)
    return [x for x in out if x > 0]


def _msg_key(hd):
    return json.dumps(hd, sort_keys=True)


def _judge_loader(part, data, tail, kind, chunks, ref, res, se):
    wit = {"mode": "loader", "hex": data.hex()[:80000], "chunks": chunks if len(chunks) < 400 else ("dribble" if all(c == 1 for c in chunks) else chunks[:400]), "tail": tail}
    for name, rr in (("reference", ref), ("partition", res)):
        if rr is None:
            part.inconclusive.append("missing harness output")
            return
        if "crash" in rr:
            c = rr["crash"]
            cls = c.get("class") or (("hang", "loader") if c.get("timeout") else ("crash", "rc%s" % c.get("rc")))
            part.violation("%s:%s:%s" % (PROP, cls[0], cls[1]), "loader crashed (%s run)" % name, dict(wit, stderr=c.get("stderr", "")[-2000:]))
            return
    a = [_msg_key(m) for m in ref["msgs"]]
    b = [_msg_key(m) for m in res["msgs"]]
    if a != b:
        part.violation("%s:messages-differ:%s" % (PROP, "count" if len(a) != len(b) else "content"),
                       "partition %s yields %d messages, unsplit run %d" % (kind, len(b), len(a)), wit)
        return
    if bool(ref["corrupt"]) != bool(res["corrupt"]):
        part.violation("%s:corruption-differs" % PROP, "corrupt flag %s under partition, %s unsplit" % (res["corrupt"], ref["corrupt"]), wit)
        return
    if ref["corrupt"] and ref["reason"] != res["reason"]:
        # the internal reason code is not part of the property (the header validator is handed the whole
        # buffer, so a field value overrunning the header is reported differently depending on what follows);
        # the verdict and the point of corruption are what is compared
        part.count("corruption-reason-code-differs(not judged)")
    # boundary-by-boundary against the independent framing - only where the unsplit run itself agrees
    # with the oracle (a disagreement there is C01's business, not a chunking effect)
    agree = (len(ref["msgs"]) == len(se.frames) and
             ((se.terminal == "invalid" and ref["corrupt"]) or
              (se.terminal in ("clean", "incomplete") and not ref["corrupt"]) or se.terminal == "invalid-prefix"))
    if not agree:
        part.count("oracle-disagreement-skipped(C01 domain)")
        part.count("partitions-compared")
        return
    ends = [off + r.need for off, r in se.frames]
    seen_corrupt = False
    for off, popped, corrupt in res["trace"]:
        want = sum(1 for e in ends if e <= off)
        if popped > len(ends) and se.terminal != "unspecified":
            part.violation("%s:extra-message" % PROP, "more messages than valid frames", wit)
            return
        if seen_corrupt and popped > last_popped:
            part.violation("%s:message-after-corruption" % PROP, "a message was produced after corruption was flagged", wit)
            return
        if popped < want:
            part.violation("%s:late-delivery" % PROP, "at offset %d only %d of %d complete messages were produced" % (off, popped, want), wit)
            return
        if corrupt and off <= se.term_off and se.terminal in ("invalid", "invalid-prefix", "incomplete", "clean"):
            part.violation("%s:early-corruption" % PROP, "corruption flagged at offset %d before any byte of the invalid frame (at %d)" % (off, se.term_off), wit)
            return
        seen_corrupt = seen_corrupt or bool(corrupt)
        last_popped = popped
    part.count("partitions-compared")


def _judge_ref_vs_oracle(part, data, tail, ref, se):
    """The unsplit run against the oracle is C01's property; here it is only counted."""
    if ref is None or "crash" in ref:
        return
    ok = len(ref["msgs"]) == len(se.frames)
    if se.terminal == "invalid" and not ref["corrupt"]:
        ok = False
    if se.terminal in ("clean", "incomplete") and ref["corrupt"]:
        ok = False
    part.count("unsplit-agrees-with-oracle" if ok else "unsplit-disagrees-with-oracle(C01 domain)")


def _worker_loader(args):
    seed, shard, nstreams, exe, exhaustive = args
    rng = gen.rng_for(seed, PROP, "loader", shard)
    part = report.Part()
    GROUP = 5       # bounded memory: hex of a stream and its parsed result dumps are repeated once per partition
    for g0 in range(0, nstreams, GROUP):
        _loader_group(part, rng, range(g0, min(nstreams, g0 + GROUP)), exe, exhaustive, shard)
    return part


def _loader_group(part, rng, sis, exe, exhaustive, shard):
    lines = []
    meta = []
    for si in sis:
        short = exhaustive and si % 4 == 0
        data, tail = _stream(rng, short=short)
        se = msgoracle.StreamExpect(data)
        hx = data.hex()
        # a fifth of the streams meet a loader with a configured maximum message size near the size of one of their
        # messages: where the stream is declared corrupt must then not depend on the partition either
        lim = 0
        if se.frames and rng.random() < 0.2:
            off, r = rng.choice(se.frames)
            lim = max(17, r.need + rng.choice([-9, -8, -1, 0, 1, 7]))
            tail = tail + ":limit"
            part.count("streams-with-configured-size-limit")
        lines.append("L %d %s -" % (lim, hx))
        meta.append(("ref", data, tail, None, None, se))
        for kind, chunks in _partitions(rng, len(data), se.frames, exhaustive2=short):
            lines.append("L %d %s %s" % (lim, hx, ",".join(str(c) for c in chunks)))
            meta.append(("part", data, tail, kind, chunks, se))
    res = hrun.run_cases(exe, lines, per_batch_timeout=900)
    ref = None
    for (what, data, tail, kind, chunks, se), rr in zip(meta, res):
        if what == "ref":
            ref = rr
            part.evaluations += 1
            _judge_ref_vs_oracle(part, data, tail, ref, se)
            orders = "".join(sorted(set(r.msg.order for _, r in se.frames)))
            part.sig("loader", len(se.frames), se.terminal, "unsplit", orders)
            if len(part.samples) < 2 and shard == 0:
                part.sample({"mode": "loader", "stream_hex": data.hex()[:400], "frames": len(se.frames), "terminal": se.terminal, "tail": tail})
        else:
            part.evaluations += 1
            orders = "".join(sorted(set(r.msg.order for _, r in se.frames)))
            part.sig("loader", len(se.frames), se.terminal, kind, orders)
            _judge_loader(part, data, tail, kind, chunks, ref, rr, se)


def _worker_hs(args):
    seed, shard, nstreams, exe, rundir = args
    rng = gen.rng_for(seed, PROP, "hs", shard)
    part = report.Part()
    GROUP = 8
    for g0 in range(0, nstreams, GROUP):
        _hs_group(part, rng, range(g0, min(nstreams, g0 + GROUP)), exe, rundir)
    return part


def _hs_group(part, rng, sis, exe, rundir):
    lines, meta = [], []
    for si in sis:
        data, tail = _stream(rng, short=(si % 3 == 0))
        se = msgoracle.StreamExpect(data)
        full = AUTH + data
        n = len(full)
        hx = full.hex()
        lines.append(hx + " -")
        meta.append(("ref", data, tail, "unsplit", None, se))
        parts = [("dribble", [1] * n)]
        la = len(AUTH)
        # every cut position inside / around the BEGIN line and the first fixed header
        for c in list(range(la - 8, la + 18)):
            if 0 < c < n:
                parts.append(("begin-cut", [c, n - c]))
        for c in range(la - 7, la + 2):
            for c2 in (la + 1, la + 8, la + 16, la + 17):
                if 0 < c < c2 < n:
                    parts.append(("begin-2cut", [c, c2 - c, n - c2]))
        for _ in range(4):
            k = rng.randint(1, 8)
            cuts = sorted(set(rng.randint(1, n - 1) for _ in range(k)))
            parts.append(("random", _cuts_to_chunks(cuts, n)))
        for kind, chunks in parts:
            lines.append(hx + " " + ",".join(str(c) for c in chunks))
            meta.append(("part", data, tail, kind, chunks, se))
        # the same stream with the server connection driven by dbus_connection_read_write_dispatch (blocking-iteration
        # path of the transport) instead of main-loop watches
        lines.append("B " + hx + " -")
        meta.append(("part", data, tail, "blocking-unsplit", None, se))
        for kind, chunks in rng.sample(parts, min(6, len(parts))):
            lines.append("B " + hx + " " + ",".join(str(c) for c in chunks))
            meta.append(("part", data, tail, "blocking-" + kind, chunks, se))
    # one stream per group with allocation failures enumerated around the handshake-to-message boundary: BEGIN, a
    # message larger than one socket read (2048 bytes) and a second message, written in one piece / cut after AUTH
    big = gen.rand_message(rng, maxdepth=1, mtype=4)
    big["body_sig"], big["body"] = b"ay", [list(rng.getrandbits(8) for _ in range(rng.choice([2100, 3000, 5000])))]
    big["fields"] = [(c, v) for c, v in big["fields"] if c != 8] + [(8, Variant(b"g", b"ay"))]
    small = gen.rand_message(rng, maxdepth=1, mtype=1)
    data = gen.encode(big) + gen.encode(small)
    se = msgoracle.StreamExpect(data)
    if se.terminal == "clean" and len(se.frames) == 2:
        full = AUTH + data
        la1 = AUTH.index(b"BEGIN")
        lines.append(full.hex() + " -")
        meta.append(("ref", data, "none", "unsplit", None, se))
        for ci, chunks in ((0, None), (1, [la1, len(full) - la1]), (1, [la1, len(AUTH) - la1 + rng.choice([0, 1, 16, 700, 2048 - 7, 2500])])):
            if chunks is not None and sum(chunks) < len(full):
                chunks = chunks + [len(full) - sum(chunks)]
            lines.append("O %d %s %s" % (ci, full.hex(), ",".join(str(c) for c in chunks) if chunks else "-"))
            meta.append(("oom", data, "none", "oom-at-chunk-%d" % ci, chunks, se))
    # one stream per group that negotiates descriptor passing: the first message carries descriptors (they arrive with its
    # first byte), failing allocations are enumerated over the read that receives it
    nf = rng.choice([1, 2, 3])
    fmsg = wire.encode_message(rng.choice([1, 4]), [(1, Variant(b"o", b"/fd")), (2, Variant(b"s", b"com.example.Fd")), (3, Variant(b"s", b"M")),
                                                     (9, Variant(b"u", nf)), (8, Variant(b"g", b"h" * nf))], b"h" * nf, list(range(nf)),
                               serial=3, order=rng.choice("lB"), add_signature=False)
    small2 = gen.encode(gen.rand_message(rng, maxdepth=1, mtype=4))
    fdata = fmsg + small2
    fse = msgoracle.StreamExpect(small2)
    if wire.validate(fmsg, nf).kind == wire.VALID and fse.terminal == "clean":
        afd = AUTH.replace(b"BEGIN", b"NEGOTIATE_UNIX_FD\r\nBEGIN")
        ffull = afd + fdata
        # the read under fault ends inside the descriptor-carrying message: completing a message under fault is the
        # library part of C14's business (and runs into the descriptor hand-over finding recorded there)
        cut = rng.choice([1, 15, 16, 17, len(fmsg) // 2, len(fmsg) - 1])
        chunks = [len(afd), cut] + ([len(fdata) - cut] if cut < len(fdata) else [])
        lines.append("O F %d 1 1 %s %s" % (nf, ffull.hex(), ",".join(str(c) for c in chunks)))
        meta.append(("oomfd", fdata, "none", "oom-fd-at-chunk-1", chunks, fse))
    res = hrun.run_cases(exe, lines, env={"VERIF_RUNDIR": rundir}, per_batch_timeout=900)
    ref = None
    for (what, data, tail, kind, chunks, se), rr in zip(meta, res):
        part.evaluations += 1
        wit = {"mode": "handshake", "hex": (AUTH + data).hex()[:80000], "chunks": (chunks or [])[:200], "tail": tail}
        if rr is None:
            part.inconclusive.append("missing harness output (handshake mode)")
            continue
        if "crash" in rr:
            c = rr["crash"]
            cls = c.get("class") or (("hang", "server") if c.get("timeout") else ("crash", "rc%s" % c.get("rc")))
            part.violation("%s:%s:%s" % (PROP, cls[0], cls[1]), "server connection crashed", dict(wit, stderr=c.get("stderr", "")[-2000:]))
            continue
        part.sig("hs", len(se.frames), se.terminal, kind)
        if what == "oomfd" and "crash" not in rr:
            # no fault-free main-loop reference for this stream: the harness's own fault-free run is the reference; it must
            # have delivered both messages with live descriptors
            part.count("hs-oom-fd-cases")
            part.count("hs-oom-runs", rr.get("runs", 0))
            part.count("hs-oom-faults-fired", rr.get("fired", 0))
            part.count("hs-oom-connection-dropped-during-handshake(not judged)", rr.get("dropped_in_handshake", 0))
            r0 = rr.get("ref", {})
            m0 = r0.get("msgs", [])
            if r0.get("auth") != 1 or not r0.get("connected") or len(m0) != 2 or any(v == ["h", 0] for v in (m0[0].get("body") or []) if isinstance(v, list)):
                part.violation("%s:hs-fd-reference-wrong" % PROP, "fault-free run did not deliver the descriptor-carrying message and its successor: "
                               "auth=%s connected=%s messages=%d" % (r0.get("auth"), r0.get("connected"), len(m0)), wit)
            for bad in rr.get("bad", []):
                o = bad["out"]
                part.violation("%s:hs-oom-changes-stream:descriptors:%s" % (PROP, "lost-or-corrupt" if len(o["msgs"]) < len(m0) or not o["connected"] else "differs"),
                               "blocking iteration: with allocation %d (burst of %d) failing while the read that carries the descriptors is "
                               "processed the server receives %d message(s), connected=%s; without fault %d, connected=%s"
                               % (bad["k"], bad["nf"], len(o["msgs"]), o["connected"], len(m0), r0.get("connected")), dict(wit, k=bad["k"], nfail=bad["nf"]))
                break
            continue
        if what == "oom":
            part.count("hs-oom-cases")
            part.count("hs-oom-runs", rr.get("runs", 0))
            part.count("hs-oom-faults-fired", rr.get("fired", 0))
            # a failing allocation while the credentials byte / the SASL lines are handled may make the server give the
            # connection up before it is authenticated (not a matter of this property): counted, not judged
            part.count("hs-oom-connection-dropped-during-handshake(not judged)", rr.get("dropped_in_handshake", 0))
            for bad in rr.get("bad", []):
                o = bad["out"]
                part.violation("%s:hs-oom-changes-stream:%s" % (PROP, "lost-or-corrupt" if len(o["msgs"]) < len(rr["ref"]["msgs"]) else "differs"),
                               "blocking iteration: with allocation %d (burst of %d) failing while chunk %s is processed the server "
                               "receives %d message(s), connected=%s; without fault %d, connected=%s"
                               % (bad["k"], bad["nf"], kind[-1], len(o["msgs"]), o["connected"], len(rr["ref"]["msgs"]), rr["ref"]["connected"]),
                               dict(wit, k=bad["k"], nfail=bad["nf"]))
                break
            rr = rr["ref"]
            what = "part"
        if what == "ref":
            ref = rr
            if rr["auth"] != 1:
                part.violation("%s:hs-not-authenticated" % PROP, "valid pipelined handshake did not authenticate", wit)
                continue
            if len(rr["msgs"]) < len(se.frames):
                part.violation("%s:hs-unsplit-missing-messages" % PROP, "server got %d messages, stream has %d valid frames before anything invalid" % (len(rr["msgs"]), len(se.frames)), wit)
            for (off, r), hd in zip(se.frames, rr["msgs"]):
                d = msgoracle.compare(r.msg, hd)
                if d:
                    part.violation("%s:hs-unsplit-content:%s" % (PROP, d[0]), "message differs from independent decoding", wit)
                    break
            # whether the unsplit stream is accepted/rejected as the oracle says is C01/C10's business
            agree = not ((se.terminal == "invalid" and rr["connected"]) or
                         (se.terminal in ("clean", "incomplete") and not rr["connected"]) or
                         (se.terminal != "unspecified" and len(rr["msgs"]) > len(se.frames)))
            part.count("hs-unsplit-agrees-with-oracle" if agree else "hs-unsplit-disagrees-with-oracle(C01 domain)")
            continue
        if ref is None or "crash" in ref:
            continue
        a = [_msg_key(m) for m in ref["msgs"]]
        b = [_msg_key(m) for m in rr["msgs"]]
        if a != b:
            part.violation("%s:hs-messages-differ:%s" % (PROP, kind.split("-")[0]),
                           "partition %s: %d messages vs %d unsplit" % (kind, len(b), len(a)), wit)
        elif (ref["auth"], ref["connected"]) != (rr["auth"], rr["connected"]):
            part.violation("%s:hs-state-differs" % PROP, "auth/connected %s vs unsplit %s" % ((rr["auth"], rr["connected"]), (ref["auth"], ref["connected"])), wit)
        else:
            part.count("hs-partitions-compared")
            if kind.startswith("blocking") or kind.startswith("oom"):
                part.count("hs-blocking-partitions-compared")


def run(tier, seed, replay=None, scale=1.0):
    import shutil
    import tempfile
    r = report.Run(PROP, tier)
    r.rule = RULE
    b = build.build("asan")
    r.builds.append(b.info())
    exe = b.harness("h_parse")
    hexe = b.harness("h_hs", testutils=True)
    rundir = tempfile.mkdtemp(prefix="verif-c11-")
    try:
        if replay:
            w = json.load(open(replay))["witness"]
            data = bytes.fromhex(w["hex"])
            chl = w.get("chunks") or []
            if chl == "dribble":
                chl = [1] * len(data)
            w["chunks"] = chl
            ch = ",".join(str(c) for c in chl) or "-"
            part = report.Part()
            if w.get("mode") == "handshake":
                res = hrun.run_cases(hexe, [data.hex() + " -", data.hex() + " " + ch], env={"VERIF_RUNDIR": rundir})
                part.evaluations = 2
                if res[0] and res[1] and "crash" not in res[0] and "crash" not in res[1] and \
                        [_msg_key(m) for m in res[0]["msgs"]] != [_msg_key(m) for m in res[1]["msgs"]]:
                    part.violation("%s:hs-messages-differ:replay" % PROP, "replayed partition differs from unsplit", w)
            else:
                se = msgoracle.StreamExpect(data)
                res = hrun.run_cases(exe, ["L 0 %s -" % data.hex(), "L 0 %s %s" % (data.hex(), ch)])
                part.evaluations = 2
                _judge_ref_vs_oracle(part, data, "replay", res[0], se)
                _judge_loader(part, data, "replay", "replay", w.get("chunks") or [], res[0], res[1], se)
            part.sig("replay", 1)
            part.sig("replay", 2)
            r.merge(part)
            return r.finish()
        nl = int((3000 if tier == "quick" else 60000) * scale)
        nh = int((320 if tier == "quick" else 6000) * scale)
        nd = int((480 if tier == "quick" else 8000) * scale)
        shards = [("L", (seed, i, max(1, nl // 16), exe, i % 4 == 0)) for i in range(16)] + \
                 [("H", (seed, i, max(1, nh // 16), hexe, rundir)) for i in range(16)] + \
                 [("D", (seed, i, max(1, nd // 16))) for i in range(16)]
        for part in report.run_sharded(_dispatch, shards):
            r.merge(part)
    finally:
        shutil.rmtree(rundir, ignore_errors=True)
    r.require("partitions-compared", 100 if scale >= 1 else 1)
    r.require("hs-partitions-compared", 50 if scale >= 1 else 1)
    r.require("hs-blocking-partitions-compared", 50 if scale >= 1 else 1)
    r.require("hs-oom-faults-fired", 200 if scale >= 1 else 1)
    r.require("hs-oom-fd-cases", 20 if scale >= 1 else 1)
    r.require("daemon-fd-streams", 50 if scale >= 1 else 1)
    r.assumptions = ["read boundaries equal chunk boundaries because the server loop runs to idle after every write (handshake mode)",
                     "oracle framing = vf/wire.py"]
    return r.finish()


def _worker_daemon_fd(args):
    """Daemon-level mode with descriptor passing: a raw client writes a stream of valid unicast signals, some of
    which carry descriptors and whose lengths are not multiples of 8, in a chosen partition; the daemon is
    SIGSTOPped around each write so that what it finds in the socket at each read is exactly the chunk (plus
    everything after it for the last chunk).  Whatever the partition, the recipient must get every message, in
    order, with the announced number of descriptors, and the sender must stay connected."""
    import os
    import shutil
    import signal
    import tempfile
    import time
    from vf import busproc, client
    seed, shard, nstreams = args
    part = report.Part()
    b = build.build("asan", quiet=True)
    rng = gen.rng_for(seed, PROP, "dfd", shard)
    rundir = tempfile.mkdtemp(prefix="verif-c11d-")
    try:
        d = busproc.Daemon(b, rundir, busproc.make_config("@SOCK@"), name="bus")
        clock = client.Clock()
        rcv = client.connect(d.sock, clock, negotiate_fd=True)
        other = client.connect(d.sock, clock)
        for si in range(nstreams):
            snd = client.connect(d.sock, clock, negotiate_fd=True)
            nmsg = rng.randint(2, 5)
            msgs = []
            tmpf = tempfile.TemporaryFile()
            for mi in range(nmsg):
                nf = rng.choice([0, 1, 1, 2])
                pad = rng.randint(0, 9)
                serial, data = snd.build(4, path=b"/s", iface=b"com.example.S", member=b"M%d" % mi, dest=rcv.unique,
                                         sig=b"s", body=[b"x" * pad], unix_fds=nf if nf else None,
                                         order=rng.choice("lB"))
                msgs.append((serial, data, nf))
            stream = b"".join(m[1] for m in msgs)
            n = len(stream)
            # cut inside the first message (fixed header / fields / padding / body), the rest in one write
            first_len = len(msgs[0][1])
            kind = rng.choice(["none", "head", "head", "two", "dribble-first"])
            if kind == "none":
                cuts = []
            elif kind == "head":
                cuts = [rng.randint(1, first_len - 1)]
            elif kind == "two":
                a = rng.randint(1, first_len - 1)
                cuts = sorted(set([a, rng.randint(a, n - 1)]))
            else:
                cuts = list(range(1, min(first_len, 24)))
            chunks = _cuts_to_chunks(cuts, n) if cuts else [n]
            # descriptors go with the first byte of the message that announces them
            offs = []
            o = 0
            for serial, data, nf in msgs:
                offs.append((o, nf))
                o += len(data)
            pos = 0
            wit = {"mode": "daemon-fd", "chunks": chunks, "lens": [len(m[1]) for m in msgs], "fds": [m[2] for m in msgs]}
            try:
                for ci, c in enumerate(chunks):
                    os.kill(d.pid, signal.SIGSTOP)
                    piece_end = pos + c
                    # split this chunk at message starts that carry descriptors (sendmsg attaches to first byte)
                    p = pos
                    while p < piece_end:
                        nxt = min([x for x, nf in offs if x > p and x < piece_end and nf] + [piece_end])
                        fds = []
                        for x, nf in offs:
                            if x == p and nf:
                                fds = [tmpf.fileno()] * nf
                        snd.send_bytes(stream[p:nxt], fds)
                        p = nxt
                    pos = piece_end
                    os.kill(d.pid, signal.SIGCONT)
                    # let the bus read what is there (two round-trips of an unrelated client)
                    other.barrier()
                    other.barrier()
            except (client.Closed, OSError):
                os.kill(d.pid, signal.SIGCONT)
            got = []
            ok = True
            try:
                snd.barrier()
            except (client.Closed, client.Timeout):
                ok = False
            rcv.barrier()
            for rec in rcv.take_inbox():
                if rec.msg.type == 4 and rec.msg.known().get(2) == b"com.example.S":
                    got.append((rec.msg.known().get(3), len(rec.fds)))
                for fd in rec.fds:
                    os.close(fd)
            want = [(b"M%d" % i, m[2]) for i, m in enumerate(msgs)]
            part.evaluations += 1
            part.count("daemon-fd-streams")
            part.sig("daemon-fd", kind, nmsg, tuple(m[2] for m in msgs)[:3], first_len % 8)
            if not ok:
                part.violation("%s:daemon-fd:sender-disconnected:%s" % (PROP, kind), "the sender of a valid descriptor-carrying stream was disconnected under this partition", wit)
            elif got != want:
                part.violation("%s:daemon-fd:messages-differ:%s" % (PROP, kind), "recipient got %r, stream was %r" % (got, want), wit)
            snd.close()
            tmpf.close()
            if not d.alive():
                break
        rcv.close()
        other.close()
        d.stop()
        for cls, site, text in d.problems():
            part.violation("%s:%s:%s" % (PROP, cls, site), "daemon reported %s" % cls, {"stderr": text[-2000:]})
    finally:
        try:
            os.kill(d.pid, signal.SIGCONT)
        except Exception:
            pass
        shutil.rmtree(rundir, ignore_errors=True)
    return part


def _dispatch(s):
    if s[0] == "D":
        return _worker_daemon_fd(s[1])
    return _worker_loader(s[1]) if s[0] == "L" else _worker_hs(s[1])
