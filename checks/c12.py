"""C12 - header edits keep a message valid and touch nothing else."""
import collections
import json
import sys

from vf import build, gen, hrun, msgoracle, namegen, report, wire
from vf.wire import Variant

PROP = "C12"
NATIVE = "l" if sys.byteorder == "little" else "B"

RULE = ("scripts of 1-30 header edits run by harness/h_edit.c on (a) messages demarshalled from vf/wire.py encodings "
        "(4 message types + unknown types, known fields in random order, 0-5 interleaved unknown fields with codes "
        "11..255 of assorted types incl. duplicates, CONTAINER_INSTANCE, explicit empty SIGNATURE, random bodies, "
        "both byte orders) and (b) locally built messages that start without any field; edits = "
        "dbus_message_set_destination/sender/path/interface/member/error_name/container_instance (value or NULL), "
        "set_reply_serial, _dbus_message_remove_unknown_fields; patterns: length sweeps L..L+8 up and down for every "
        "field (L small and L near 255), set/delete/re-add cycles, two fields resized against each other, "
        "max-length names, uniform random. The message is marshalled after every step, either without touching the "
        "body (a non-native message then stays non-native while edited) or through a full accessor+iterator dump; the "
        "independent decoder checks validity (or exactly 'missing-required-field' when the script removed a mandatory "
        "field; everything else is then checked on the same bytes with the type byte masked), the edited field, "
        "every other known field, the unknown-field multiset, flags, serial, signature and body against a dict model, "
        "and the accessors against the bytes. evaluations = scripts; distinct = (start kind, byte order of the "
        "step's output, edited field, operation kind, new length mod 8, unknown fields present) over all steps")

# op letter -> (field code, accessor name)
OPS = {"D": (wire.F_DESTINATION, "destination"), "S": (wire.F_SENDER, "sender"), "P": (wire.F_PATH, "path"),
       "I": (wire.F_INTERFACE, "interface"), "M": (wire.F_MEMBER, "member"), "E": (wire.F_ERROR_NAME, "error_name"),
       "C": (wire.F_CONTAINER_INSTANCE, "container_instance"), "R": (wire.F_REPLY_SERIAL, "reply_serial")}
STRING_OPS = "DSPIMEC"
_FTYPE = {1: b"o", 2: b"s", 3: b"s", 4: b"s", 5: b"u", 6: b"s", 7: b"s", 10: b"o"}
_NAME_OF = {c: n for _, (c, n) in OPS.items()}
_NAME_OF[wire.F_SIGNATURE] = "signature"
_NAME_OF[wire.F_UNIX_FDS] = "unix_fds"
_MASK_TYPE = 200       # a message type without mandatory fields

_ENV = {"ASAN_OPTIONS": hrun.SAN_ENV["ASAN_OPTIONS"] + ":quarantine_size_mb=32"}


def _hx(b):
    return "x" + bytes(b).hex()


# ----------------------------------------------------------------------------- generation

def _len_for(rng, kind):
    r = rng.random()
    mx = namegen.MAX_LEN[kind]
    if r < 0.08:
        return (mx or 300) - rng.choice([0, 0, 1, 2, 3, 4, 5, 6, 7, 8])
    if r < 0.12 and mx is None:
        return rng.choice([256, 257, 300, 1000, 4093])
    if r < 0.75:
        return rng.randint(1, 40)
    return rng.randint(1, 120)


def _start_wire(rng, stats):
    for _ in range(20):
        mtype = rng.choice([1, 1, 2, 3, 4, 4]) if rng.random() < 0.93 else rng.randint(5, 255)
        fields = gen.rand_fields(rng, mtype, full=rng.choice([None, None, True, False]), extra_unknown=False)
        # give some fields an exact, chosen length
        out = []
        for c, v in fields:
            if c in _NAME_OF and c != wire.F_REPLY_SERIAL and rng.random() < 0.4:
                v = Variant(v.sig, namegen.of_len(rng, _NAME_OF[c], _len_for(rng, _NAME_OF[c])))
            out.append((c, v))
        fields = out
        if rng.random() < 0.2:
            fields.append((wire.F_CONTAINER_INSTANCE, Variant(b"o", namegen.of_len(rng, "path", _len_for(rng, "path")))))
        nunk = rng.choice([0, 0, 1, 1, 2, 3, 5])
        pool = [rng.randint(11, 255) for _ in range(3)]
        for _ in range(nunk):
            code = rng.choice(pool) if rng.random() < 0.3 else rng.randint(11, 255)
            s = gen.rand_type(rng, 0, 2)
            ts = wire.parse_signature(s, single=True)
            fields.append((code, Variant(s, gen.rand_value(rng, ts[0], 0, [20]))))
        sig, body = gen.rand_body(rng, maxdepth=rng.choice([1, 2, 3]))
        rng.shuffle(fields)
        if sig:
            fields.insert(rng.randint(0, len(fields)), (wire.F_SIGNATURE, Variant(b"g", sig)))
        elif rng.random() < 0.2:
            fields.insert(rng.randint(0, len(fields)), (wire.F_SIGNATURE, Variant(b"g", b"")))
        order = rng.choice("lB")
        flags = rng.choice([0, 0, 1, 2, 3, 4, 7, rng.getrandbits(8)])
        serial = rng.choice([1, 2, 0xFFFFFFFF, rng.getrandbits(32) or 1])
        data = wire.encode_message(mtype, fields, sig, body, serial, flags, order, add_signature=False)
        r = wire.validate(data)
        if r.kind == wire.VALID:
            return data
        stats["gen-start-not-valid:" + str(r.reason)] += 1
    raise RuntimeError("cannot generate a valid start message")


def _start_local(rng):
    mtype = rng.choice([1, 2, 3, 4])
    serial = rng.choice([1, 2, 0xFFFFFFFF, rng.getrandbits(32) or 1])
    n = rng.choice([0, 0, 1, 2, 3])
    toks, sig, body = [], b"", []
    for _ in range(n):
        if rng.random() < 0.25:
            bs = [rng.getrandbits(8) for _ in range(rng.choice([0, 1, 3, 8, 17]))]
            toks += ["A", bytes(bs).hex() or "-"]
            sig += b"ay"
            body.append(bs)
            continue
        c = rng.choice(gen.BASIC_NOFD)
        t = wire.parse_signature(bytes([c]))[0]
        v = gen.rand_value(rng, t)
        toks += [chr(c), str(int(v)) if c in wire.BASIC_FIXED else _hx(v)]
        sig += bytes([c])
        body.append(v)
    line = "L %d %d %d" % (mtype, serial, n)
    if toks:
        line += " " + " ".join(toks)
    return line, {"type": mtype, "flags": 0, "serial": serial, "sig": sig, "body": body}


def _set(rng, op, n=None):
    if op == "R":
        return ("R", rng.choice([1, 2, 0x7FFFFFFF, 0xFFFFFFFF, rng.getrandbits(32) or 1]))
    kind = OPS[op][1]
    if n is None:
        n = _len_for(rng, kind)
    return (op, namegen.of_len(rng, kind, n))


def _random_op(rng):
    r = rng.random()
    if r < 0.08:
        return ("U", None)
    if r < 0.16:
        return _set(rng, "R")
    op = rng.choice(STRING_OPS)
    if r < 0.34:
        return (op, None)
    return _set(rng, op)


def _script(rng, stats):
    pat = rng.choice(["sweep-up", "sweep-down", "cycle", "random", "random", "maxlen", "two-fields", "short"])
    stats["pattern:" + pat] += 1
    ops = []
    if pat in ("sweep-up", "sweep-down"):
        op = rng.choice(STRING_OPS)
        kind = OPS[op][1]
        mx = namegen.MAX_LEN[kind] or 300
        L = rng.choice([namegen.MIN_LEN[kind], rng.randint(1, 48), rng.randint(1, 48), mx - 8, mx - 8 - rng.randint(0, 8)])
        L = max(namegen.MIN_LEN[kind], min(L, mx - 8))
        seq = list(range(L, L + 9))
        if pat == "sweep-down":
            seq.reverse()
        for _ in range(rng.choice([0, 0, 1, 3])):
            ops.append(_random_op(rng))
        for n in seq:
            ops.append(_set(rng, op, n))
            if rng.random() < 0.15:
                ops.append(_random_op(rng))
        for _ in range(rng.choice([0, 1, 4])):
            ops.append(_random_op(rng))
    elif pat == "cycle":
        op = rng.choice(STRING_OPS)
        for _ in range(rng.randint(1, 7)):
            ops.append(_set(rng, op))
            if rng.random() < 0.4:
                ops.append(_random_op(rng))
            ops.append((op, None))
            if rng.random() < 0.3:
                ops.append((op, None))
            if rng.random() < 0.4:
                ops.append(_random_op(rng))
            ops.append(_set(rng, op))
    elif pat == "maxlen":
        chosen = rng.sample(STRING_OPS, rng.randint(1, 5))
        for op in chosen:
            kind = OPS[op][1]
            ops.append(_set(rng, op, namegen.MAX_LEN[kind] or rng.choice([255, 256, 1000])))
        for op in chosen:
            r = rng.random()
            if r < 0.4:
                ops.append(_set(rng, op, namegen.MIN_LEN[OPS[op][1]]))
            elif r < 0.7:
                ops.append((op, None))
            else:
                ops.append(_set(rng, op, (namegen.MAX_LEN[OPS[op][1]] or 255) - rng.randint(1, 9)))
        if rng.random() < 0.5:
            ops.append(("U", None))
    elif pat == "two-fields":
        a, b = rng.sample(STRING_OPS, 2)
        la, lb = rng.randint(1, 30), rng.randint(12, 60)
        for k in range(rng.randint(3, 12)):
            ops.append(_set(rng, a, la + k))
            ops.append(_set(rng, b, max(1, lb - k)))
    elif pat == "short":
        for _ in range(rng.randint(1, 3)):
            ops.append(_random_op(rng))
    else:
        for _ in range(rng.randint(4, 30)):
            ops.append(_random_op(rng))
    return ops[:30] or [_random_op(rng)]


def _op_tokens(op):
    k, v = op
    if k == "U":
        return ["U"]
    if k == "R":
        return ["R", str(v)]
    return [k, "-" if v is None else _hx(v)]


def gen_script(rng, stats):
    """Returns (line, meta) with meta = dict(kind, start(bytes|dict), ops, full_from)."""
    ops = _script(rng, stats)
    r = rng.random()
    full_from = 0 if r < 0.35 else (10 ** 6 if r < 0.7 else rng.randint(1, len(ops)))
    if rng.random() < 0.12:
        sl, st = _start_local(rng)
        meta = {"kind": "local", "start": st}
        head = sl
    else:
        data = _start_wire(rng, stats)
        meta = {"kind": "wire", "start": data}
        head = "W " + data.hex()
    toks = []
    for op in ops:
        toks += _op_tokens(op)
    meta["ops"] = ops
    meta["full_from"] = full_from
    return "%d %s %s" % (full_from, head, " ".join(toks)), meta


def parse_line(line):
    """Inverse of gen_script for replay: rebuilds meta from the harness line."""
    tv = line.split(" ")
    full_from = int(tv[0])
    i = 1
    if tv[i] == "W":
        meta = {"kind": "wire", "start": bytes.fromhex(tv[i + 1])}
        i += 2
    else:
        mtype, serial, n = int(tv[i + 1]), int(tv[i + 2]), int(tv[i + 3])
        i += 4
        sig, body = b"", []
        for _ in range(n):
            c, v = tv[i], tv[i + 1]
            i += 2
            if c == "A":
                sig += b"ay"
                body.append(list(bytes.fromhex(v)) if v != "-" else [])
            elif c in "sog":
                sig += c.encode()
                body.append(bytes.fromhex(v[1:]))
            else:
                sig += c.encode()
                body.append(int(v))
        meta = {"kind": "local", "start": {"type": mtype, "flags": 0, "serial": serial, "sig": sig, "body": body}}
    ops = []
    while i < len(tv):
        k = tv[i]
        if k == "U":
            ops.append(("U", None))
            i += 1
        elif k == "R":
            ops.append(("R", int(tv[i + 1])))
            i += 2
        else:
            ops.append((k, None if tv[i + 1] == "-" else bytes.fromhex(tv[i + 1][1:])))
            i += 2
    meta["ops"] = ops
    meta["full_from"] = full_from
    return meta


# ----------------------------------------------------------------------------- model + judgement

class Model(object):
    def __init__(self, meta):
        if meta["kind"] == "wire":
            m = wire.decode(meta["start"])
            self.type, self.flags, self.serial = m.type, m.flags, m.serial
            self.known = {c: v for c, v in m.fields if 1 <= c <= 10}
            self.unknown = [(c, v) for c, v in m.fields if c > 10]
            self.sig, self.body = m.body_sig, m.body
        else:
            s = meta["start"]
            self.type, self.flags, self.serial = s["type"], s["flags"], s["serial"]
            self.known = {}
            self.unknown = []
            self.sig, self.body = s["sig"], s["body"]
            if self.sig:
                self.known[wire.F_SIGNATURE] = Variant(b"g", self.sig)

    def apply(self, op):
        """Returns a short description of the operation kind (for evidence)."""
        k, v = op
        if k == "U":
            had = bool(self.unknown)
            self.unknown = []
            return "strip-unknown-some" if had else "strip-unknown-none"
        code = OPS[k][0]
        old = self.known.get(code)
        if v is None:
            self.known.pop(code, None)
            return "delete-present" if old is not None else "delete-absent"
        self.known[code] = Variant(_FTYPE[code], v)
        if old is None:
            return "set-new"
        if k == "R":
            return "replace"
        lo, ln = len(old.value), len(v)
        return "replace-longer" if ln > lo else ("replace-shorter" if ln < lo else "replace-same-length")

    def mandatory_present(self):
        return all(c in self.known for c in wire.REQUIRED.get(self.type, ()))


def _light_diffs(m, hd):
    exp = msgoracle.expected_dump(m)
    d = []
    for k in ("type", "serial", "reply_serial", "no_reply", "auto_start", "interactive", "path", "interface", "member",
              "error_name", "destination", "sender", "signature"):
        if exp[k] != hd.get(k):
            d.append(k)
    ci = m.known().get(wire.F_CONTAINER_INSTANCE)
    if (ci.hex() if isinstance(ci, (bytes, bytearray)) else None) != hd.get("container_instance"):
        d.append("container_instance")
    return d


def _judge_dump(part, model, hd, op, opkind, ret, bad, step, startkind):
    """One dump (after `op`, or the start state when op is None) against the model.  Returns False when the
    script cannot be followed any further."""
    opname = opkind if op is None else ("strip-unknown" if op[0] == "U" else OPS[op[0]][1])
    hb = hd.get("bytes")
    if hb is None:
        bad("marshal-failed:%s" % opname, "dbus_message_marshal failed at step %d" % step)
        return False
    b = bytes.fromhex(hb)
    r = wire.validate(b)
    mand = model.mandatory_present()
    if mand:
        if r.kind != wire.VALID or r.need != len(b):
            bad("invalid-after-edit:%s:%s" % (r.reason or r.kind, opname),
                "step %d (%s): message with all mandatory fields is not valid: %r" % (step, opname, r), bytes=hb, step=step)
            return False
        m = r.msg
    else:
        part.count("steps-mandatory-field-missing")
        if r.kind != wire.INVALID or r.reason != "missing-required-field":
            bad("not-wellformed-after-edit:%s:%s" % (r.reason or r.kind, opname),
                "step %d (%s): a mandatory field is deleted, expected the oracle to object to exactly that, got %r" % (step, opname, r),
                bytes=hb, step=step)
            return False
        mb = bytearray(b)
        mb[1] = _MASK_TYPE
        r2 = wire.validate(bytes(mb))
        if r2.kind != wire.VALID or r2.need != len(b):
            bad("not-wellformed-after-edit:%s:%s" % (r2.reason or r2.kind, opname),
                "step %d (%s): apart from the missing mandatory field the message is not well-formed: %r" % (step, opname, r2),
                bytes=hb, step=step)
            return False
        m = r2.msg
        m.type = b[1]
    part.count("steps-order-" + m.order)

    # fixed header
    for what, got, want in (("type", m.type, model.type), ("flags", m.flags, model.flags), ("serial", m.serial, model.serial)):
        if got != want:
            bad("fixed-header-changed:%s:%s" % (what, opname), "step %d (%s): %s is %r, expected %r" % (step, opname, what, got, want), bytes=hb, step=step)
            return False
    # known fields
    got = {}
    for c, v in m.fields:
        if 1 <= c <= 10:
            if c in got:
                bad("duplicate-field:%s:%s" % (_NAME_OF.get(c, c), opname), "step %d: field %d occurs twice" % (step, c), bytes=hb, step=step)
                return False
            got[c] = v
    edited = OPS[op[0]][0] if (op is not None and op[0] != "U") else None
    for c in sorted(set(got) | set(model.known)):
        if got.get(c) != model.known.get(c):
            if c == edited:
                bad("edited-field-wrong:%s" % _NAME_OF.get(c, c),
                    "step %d: %s reads %r after being set to %r" % (step, opname, got.get(c), model.known.get(c)), bytes=hb, step=step)
            else:
                bad("other-field-changed:%s:%s" % (_NAME_OF.get(c, c), opname),
                    "step %d (%s): field %s is %r, expected %r" % (step, opname, _NAME_OF.get(c, c), got.get(c), model.known.get(c)), bytes=hb, step=step)
            return False
    # unknown fields (multiset)
    gu = sorted(((c, v) for c, v in m.fields if c > 10), key=repr)
    if gu != sorted(model.unknown, key=repr):
        bad("unknown-fields-changed:%s" % opname, "step %d (%s): unknown fields are %r, expected %r" % (step, opname, gu, model.unknown), bytes=hb, step=step)
        return False
    # signature + body
    if m.body_sig != model.sig:
        bad("signature-changed:%s" % opname, "step %d (%s): body signature %r, expected %r" % (step, opname, m.body_sig, model.sig), bytes=hb, step=step)
        return False
    if m.body != model.body:
        bad("body-changed:%s" % opname, "step %d (%s): body values changed" % (step, opname), bytes=hb, step=step)
        return False
    # accessors against the bytes
    if hd.get("light"):
        diffs = _light_diffs(m, hd)
        part.count("dumps-light")
    else:
        diffs = msgoracle.compare(m, hd)
        part.count("dumps-full")
        if not diffs and m.order != NATIVE:
            bad("not-native-after-iterator-init", "step %d: message still non-native after a body iterator was initialised" % step, bytes=hb, step=step)
    if diffs:
        bad("accessor-differs:%s:%s" % (diffs[0].split(":")[0], opname),
            "step %d (%s): accessors differ from the marshalled bytes: %s" % (step, opname, diffs), bytes=hb, step=step,
            dump={k: hd.get(k) for k in diffs if k in hd})
        return False
    if op is not None:
        if not ret:
            bad("setter-returned-false:%s" % opname, "step %d: %s returned FALSE" % (step, opname), step=step)
            return False
        if op[0] == "R":
            if hd.get("reply_serial") != op[1]:
                bad("edited-field-wrong:reply_serial", "step %d: get_reply_serial gives %r after set_reply_serial(%r)" % (step, hd.get("reply_serial"), op[1]), step=step)
                return False
        elif op[0] != "U":
            want = None if op[1] is None else op[1].hex()
            if hd.get(OPS[op[0]][1]) != want:
                bad("edited-field-wrong:%s" % opname, "step %d: getter gives %r after setting %r" % (step, hd.get(OPS[op[0]][1]), want), step=step)
                return False
        newlen = len(op[1]) % 8 if isinstance(op[1], (bytes, bytearray)) else -1
        part.sig(startkind, m.order, opname, opkind, newlen, bool(model.unknown) or opkind == "strip-unknown-some")
        part.count("op:" + opkind)
        if isinstance(op[1], (bytes, bytearray)) and len(op[1]) >= 255:
            part.count("value-length>=255")
    part.count("steps-judged")
    return True


def judge(part, line, meta, res):
    wit = {"script": line if len(line) < 400000 else line[:400000], "truncated": len(line) >= 400000}

    def bad(cls, what, **extra):
        w = dict(wit)
        for k, v in extra.items():
            w[k] = v[:20000] if isinstance(v, str) else v
        part.violation("%s:%s" % (PROP, cls), what, w)

    if res is None:
        part.inconclusive.append("no result for a script (harness output missing)")
        return
    if "crash" in res:
        c = res["crash"]
        if c.get("timeout"):
            key = "hang:h_edit"
        elif c.get("class"):
            key = "%s:%s" % (c["class"][0], c["class"][1])
        else:
            key = "crash:rc%s" % c.get("rc")
        bad(key, "edit harness crashed / hung / sanitizer or assertion report", stderr=c.get("stderr", "")[-3000:])
        return
    if res.get("k") != "E" or res.get("bad"):
        part.inconclusive.append("harness refused a script as malformed (generator bug): %s" % line[:300])
        return
    dumps = res.get("dumps")
    if dumps is None:
        if meta["kind"] == "wire":
            # whether a valid message is accepted is C01's property; here nothing can be edited
            part.count("start-rejected(C01 domain)")
            part.inconclusive.append("valid start message rejected by dbus_message_demarshal (%s): %s" % (res.get("start_err"), meta["start"].hex()[:400]))
        else:
            bad("local-build-failed", "could not build the local start message")
        return
    model = Model(meta)
    startkind = "local" if meta["kind"] == "local" else "wire-" + chr(meta["start"][0])
    part.count("scripts:" + startkind)
    if not _judge_dump(part, model, dumps[0], None, "start", 1, bad, 0, startkind):
        return
    ops = meta["ops"]
    if len(dumps) != len(ops) + 1:
        part.inconclusive.append("harness printed %d dumps for %d ops" % (len(dumps), len(ops)))
        return
    for i, op in enumerate(ops):
        d = dumps[i + 1]
        kind = model.apply(op)
        if not _judge_dump(part, model, d["d"], op, kind, d.get("ret"), bad, i + 1, startkind):
            return
    fin = res.get("final")
    if fin is None or not _judge_dump(part, model, fin, None, "final", 1, bad, len(ops) + 1, startkind):
        return
    part.count("scripts-completed")


_CHUNK = 800     # scripts per harness process (bounds the memory held by parsed dumps)


def _worker(args):
    seed, shard, count, exe = args
    rng = gen.rng_for(seed, PROP, shard)
    part = report.Part()
    stats = collections.Counter()
    done = 0
    while done < count:
        cases = [gen_script(rng, stats) for _ in range(min(_CHUNK, count - done))]
        res = hrun.run_cases(exe, [ln for ln, _ in cases], env=_ENV, per_batch_timeout=900)
        for i, (line, meta) in enumerate(cases):
            part.evaluations += 1
            judge(part, line, meta, res[i])
            if shard == 0 and done == 0 and i < 3:
                part.sample({"script": line[:600], "ops": len(meta["ops"]), "start": meta["kind"], "full_dumps_from": meta["full_from"]})
        for extra in res[len(cases):]:
            br = extra.get("batch_report") if extra else None
            if br:
                part.violation("%s:%s:%s" % (PROP, br["class"][0], br["class"][1]), "report at harness exit", {"stderr": br["stderr"][-3000:]})
        done += len(cases)
    for k, v in stats.items():
        part.count(k, v)
    return part


def run(tier, seed, replay=None, scale=1.0):
    r = report.Run(PROP, tier)
    r.rule = RULE
    b = build.build("asan")
    r.builds.append(b.info())
    exe = b.harness("h_edit")
    if replay:
        w = json.load(open(replay))["witness"]
        part = report.Part()
        if w.get("truncated") or not w.get("script"):
            part.inconclusive.append("witness too large to be stored completely; re-run the seed instead")
        else:
            line = w["script"]
            res = hrun.run_cases(exe, [line], env=_ENV)
            part.evaluations = 1
            judge(part, line, parse_line(line), res[0])
        part.sig("replay", 1)
        part.sig("replay", 2)
        r.merge(part)
        return r.finish()
    total = int((20000 if tier == "quick" else 600000) * scale)
    nshards = 16 if tier == "quick" else 256
    per = max(1, total // nshards)
    shards = [(seed, i, per, exe) for i in range(nshards)]
    for part in report.run_sharded(_worker, shards):
        r.merge(part)
    full = scale >= 1
    n = per * nshards
    r.require("scripts-completed", int(n * 0.95) if full else 1)
    r.require("steps-judged", n * 5 if full else 1)
    if full:
        for c, k in (("steps-order-B", 500), ("steps-order-l", 500), ("dumps-light", 500), ("dumps-full", 500),
                     ("steps-mandatory-field-missing", 200), ("scripts:local", 50), ("scripts:wire-l", 50),
                     ("scripts:wire-B", 50), ("op:set-new", 100), ("op:replace-longer", 100), ("op:replace-shorter", 100),
                     ("op:replace-same-length", 20), ("op:delete-present", 100), ("op:delete-absent", 50),
                     ("op:strip-unknown-some", 50), ("op:strip-unknown-none", 50), ("op:replace", 50),
                     ("value-length>=255", 50), ("pattern:sweep-up", 50), ("pattern:sweep-down", 50),
                     ("pattern:cycle", 50), ("pattern:two-fields", 50), ("pattern:maxlen", 50)):
            r.require(c, k)
    r.assumptions = ["oracle vf/wire.py transcribes doc/dbus-specification.xml; 'well-formed' for a message whose script "
                     "deleted a mandatory field = valid once the type byte is masked to a type without mandatory fields",
                     "only syntactically valid values are passed to the setters (the API aborts on others by contract)",
                     "start messages carry no UNIX_FDS field and no duplicate known fields (unspecified input)"]
    return r.finish()
