"""C13 - configured resource limits are never exceeded."""
import collections
import json
import os
import select
import shutil
import tempfile
import time

from vf import build, busproc, client, gen, h1trace, report
from vf.models import limits as lm

PROP = "C13"
RULE = ("every history gets a fresh ASan daemon whose max_completed_connections, max_connections_per_user, "
        "max_incomplete_connections, max_names_per_connection, max_match_rules_per_connection and "
        "max_replies_per_connection are each drawn from {1,2,3,5,8} and max_message_size from {4,8,16,64} KiB (permissive "
        "session-like policy). General histories (60..100 operations): connect+Hello as one of 2..3 kernel uids, retried "
        "Hello of a refused connection, disconnect, RequestName with all flag combinations (queued claims, replacement) / "
        "ReleaseName over a pool larger than the limit, AddMatch (valid, duplicate, invalid) / RemoveMatch, method calls "
        "left unanswered / answered later, unicast signals of exactly limit-1, limit and limit+1 bytes. Each request is "
        "classified by vf/models/limits.py as below the limit (must not fail with LimitsExceeded and must take effect), "
        "would exceed (must fail with LimitsExceeded / the connection must not become usable; ListQueuedOwners, "
        "ListNames, a probe signal for the refused rule and the liveness of every other client show that nothing "
        "changed) or at-the-limit-without-raising-it (not judged). After every operation (and one more driver "
        "round-trip) the bus's own counters from the state dump of hook H1 - registered / unregistered connections, per "
        "connection names, match rules and pending replies, and the pending-reply list - must equal the model's. Full state "
        "comparisons (ListQueuedOwners of every "
        "name, ListNames, GetConnectionUnixUser, one probe per (connection, rule)) run mid-way and at the end. "
        "Incomplete-connection histories: limit+k sockets send AUTH; exactly `limit` get a SASL answer (blocking wait "
        "for the lower bound, limit+k+3 driver round-trips of another client before reading the upper bound); closing / "
        "completing / auth_timeout (400 ms) frees capacity that the waiting sockets then get. distinct = (operation, "
        "verdict of the model, observed answer, counter value, limit value, flags)")

LIMITS_EXCEEDED = b"org.freedesktop.DBus.Error.LimitsExceeded"
NOREPLY = b"org.freedesktop.DBus.Error.NoReply"
VALUES = [1, 2, 3, 5, 8]
SIZES = [4096, 8192, 16384, 65536]
UIDS = [1, 5, 65534]
NAMES = [b"com.example.N%d" % i for i in range(10)]
NRIDS = 10
INVALID_RULES = [b"foo='bar'", b"type='nonsense'", b"interface='nodot'", b"member='a.b'", b"path='no-slash'", b"type='signal',arg64='x'"]
AUTH_TIMEOUT_SHORT = 400


def short(e):
    return e.decode("latin1").rsplit(".", 1)[-1] if e else "none"


class EndHistory(Exception):
    """no registered connection is left (only after a violation was recorded): stop this history"""


class StartFailure(Exception):
    """the daemon's socket did not appear in time (overloaded machine): harness event, the history is tried again"""


class History(object):
    def __init__(self, b, rundir, rng, part, hid):
        self.peer_rules = {}      # (holder unique, rule id) -> unique name the rule names as sender
        self.b, self.rundir, self.rng, self.part, self.hid = b, rundir, rng, part, hid
        self.clock = client.Clock()
        self.steps = []
        self.live = []
        self.parked = []
        self.daemon = None
        self.phase = "start"
        self.nidx = 0
        self.ntok = 0
        self.cfg = {}
        self.config_text = ""
        self.kind = "general"
        self.saw_refusal = set()
        self.rule_taint = set()
        self.obsq = {}
        self.trace = None
        self.ndumps = 0
        self.closing = 0         # unregistered connections we closed and the bus may not have noticed yet
        self.differs_seen = set()

    # -- plumbing ------------------------------------------------------------------------------------
    def witness(self, extra=None):
        w = {"history": self.hid, "kind": self.kind, "limits": self.cfg, "config": self.config_text, "steps": self.steps[-90:]}
        if extra:
            w.update(extra)
        return w

    def violation(self, key, what, extra=None):
        self.part.violation("%s:%s" % (PROP, key), what, self.witness(extra))

    def unsure(self, what):
        """something outside this property (another property's model) disagreed: never a silent pass"""
        self.part.inconclusive.append("history %d: %s; last step: %s" % (self.hid, what, self.steps[-1] if self.steps else "-"))

    def step(self, s):
        self.steps.append(s)

    def lab(self, u):
        return u.decode("latin1") if isinstance(u, bytes) else str(u)

    def tok(self):
        self.ntok += 1
        return b"k%d" % self.ntok

    def depart_model(self, u):
        """model.disconnect plus what the bus does to OTHER connections' rules: a rule naming the departed unique name as
        sender can never match again and is dropped (its slot is free again) - provided the departed connection held a
        rule itself (the bus scans the rule pools only then; otherwise the stale rule stays and keeps its slot)."""
        had_rules = self.model.rules_count(u) > 0
        out = self.model.disconnect(u)
        if had_rules:
            for v, rids in self.model.rules.items():
                gone = [rid for rid in rids if self.peer_rules.get((v, rid)) == u]
                if gone:
                    self.model.rules[v] = [rid for rid in rids if rid not in gone]
                    self.part.count("rules:freed-by-departure-of-the-named-sender", len(gone))
        else:
            n = sum(1 for v, rids in self.model.rules.items() for rid in rids if self.peer_rules.get((v, rid)) == u)
            if n:
                self.part.count("rules:stale-but-kept(departed-sender-held-no-rule)", n)
        return out

    def by_unique(self, u):
        for c in self.live:
            if c.unique == u:
                return c
        return None

    def draw_cfg(self):
        rng = self.rng
        self.cfg = {k: rng.choice(VALUES) for k in lm.KINDS if k != "max_message_size"}
        self.cfg["max_message_size"] = rng.choice(SIZES)

    def start_daemon(self, auth_timeout=120000):
        limits = dict(self.cfg)
        limits["auth_timeout"] = auth_timeout
        os.makedirs(self.rundir, exist_ok=True)
        # Layout of the configuration: in 40 % of the histories the <limit> elements are FOLLOWED by an <includedir> (as
        # in the shipped system.conf) or an <include> of a file that only adds a harmless policy, in another 20 % the
        # limits themselves live in an included file.  What is configured must hold whatever the layout.
        extra = ""
        lay = self.rng.random()
        self.layout = "flat"
        if lay < 0.4:
            inc = os.path.join(self.rundir, "conf-h%d.d" % self.hid)
            os.makedirs(inc, exist_ok=True)
            os.chmod(inc, 0o755)
            with open(os.path.join(inc, "extra.conf"), "w") as fh:
                fh.write('<busconfig>\n  <policy context="default">\n    <allow own="com.example.Included"/>\n  </policy>\n</busconfig>\n')
            if lay < 0.25:
                extra, self.layout = "  <includedir>%s</includedir>" % inc, "limits-then-includedir"
            else:
                extra, self.layout = "  <include>%s</include>" % os.path.join(inc, "extra.conf"), "limits-then-include"
            self.config_text = busproc.make_config("@SOCK@", limits=limits, extra=extra)
        elif lay < 0.6:
            inc = os.path.join(self.rundir, "limits-h%d.conf" % self.hid)
            with open(inc, "w") as fh:
                fh.write("<busconfig>\n" + "".join('  <limit name="%s">%d</limit>\n' % kv for kv in sorted(limits.items())) + "</busconfig>\n")
            self.layout = "limits-in-included-file"
            self.config_text = busproc.make_config("@SOCK@", extra="  <include>%s</include>" % inc)
        else:
            self.config_text = busproc.make_config("@SOCK@", limits=limits)
        self.part.count("config-layout:" + self.layout)
        self.trace = os.path.join(self.rundir, "trace-h%d" % self.hid)
        self.daemon = busproc.Daemon(self.b, self.rundir, self.config_text, name="h%d" % self.hid,
                                     env={"DBUS_VERIF_TRACE": self.trace})
        if not self.daemon.started():
            raise StartFailure("daemon did not start within busproc's deadline: " + self.daemon.stderr_text()[-400:])
        self.model = lm.Limits(self.cfg)

    def q(self):
        if not self.live:
            raise EndHistory()
        return self.live[0]

    def call_counted(self, c, member, sig, body):
        """driver call + barrier: (first reply, further replies to the same serial)"""
        serial = c.bus_call_async(member, sig, body)
        rep = c.wait_reply(serial)
        c.barrier()
        extra = [r for r in c.inbox if r.msg.type in (2, 3) and r.msg.known().get(5) == serial]
        c.inbox = [r for r in c.inbox if r not in extra]
        return rep, extra

    def drain(self):
        for c in self.live:
            c.take_inbox()

    def bystanders_ok(self, why, skip=()):
        """every other completed connection still answers; -> False if one was lost"""
        ok = True
        for c in list(self.live):
            if c in skip:
                continue
            try:
                c.barrier()
            except client.Closed:
                ok = False
                self.violation("%s:bystander-disconnected" % why, "connection %s (uid %d) was disconnected although it did nothing"
                               % (self.lab(c.unique), c.uid))
                self.forget(c)
        return ok

    def forget(self, c):
        if c in self.live:
            self.live.remove(c)
        self.depart_model(c.unique)
        c.close()

    def observe_queue(self, name):
        r = self.q().bus_call(b"ListQueuedOwners", b"s", [name])
        q = list(r.msg.body[0]) if r.msg.type == 2 else []
        self.obsq[name] = q
        return q

    def resync_name(self, name, q):
        old = {e[0]: e for e in self.model.names.q.get(name, [])}
        newq = [old.get(u, [u, False, False]) for u in q if u in self.model.uid]
        if newq:
            self.model.names.q[name] = newq
        else:
            self.model.names.q.pop(name, None)

    def wait_gone(self, u):
        self.phase = "disconnect-notice"
        deadline = time.time() + client.WATCHDOG
        while True:
            r = self.q().bus_call(b"NameHasOwner", b"s", [u])
            if r.msg.type == 2 and not r.msg.body[0]:
                return
            if time.time() > deadline:
                raise client.Timeout()
            time.sleep(0.001)

    def after_departure(self, u, owed):
        """common tail of disconnect / oversize: wait until the bus noticed, collect the NoReply owed to callers, re-read queues."""
        self.wait_gone(u)
        for s in owed:
            caller = self.by_unique(s.caller)
            if caller is None:
                continue
            self.phase = "noreply-after-callee-disconnect"
            rec = caller.wait_reply(s.serial)
            if rec.msg.type != 3 or rec.msg.known().get(4) != NOREPLY:
                self.unsure("caller got %r instead of NoReply after its callee left" % rec)
            self.part.count("replies:freed-by-callee-disconnect")
        for n in list(self.obsq):
            q = self.observe_queue(n)
            if set(q) != set(self.model.names.queue(n)):
                self.unsure("queue of %s after a departure is %r, names model says %r" % (self.lab(n), q, self.model.names.queue(n)))
            self.resync_name(n, q)
        self.drain()

    def reuse(self, kind, subject):
        if (kind, subject) in self.saw_refusal:
            self.saw_refusal.discard((kind, subject))
            self.part.count("reuse:" + kind)

    # -- connections -----------------------------------------------------------------------------------
    def judge_hello(self, c, r, verdict, which, retry=False):
        """r = Hello reply or None (EOF).  -> True when the connection is now a completed one."""
        ok = r is not None and r.msg.type == 2 and r.msg.body and isinstance(r.msg.body[0], bytes) and r.msg.body[0][:1] == b":"
        err = r.msg.known().get(4) if (r is not None and r.msg.type == 3) else None
        self.part.sig("hello", verdict, which, "ok" if ok else short(err) if r is not None else "eof", retry,
                      self.model.completed(), self.model.per_user(c.uid), self.cfg["max_completed_connections"],
                      self.cfg["max_connections_per_user"])
        if verdict == lm.ALLOW:
            if not ok:
                self.violation("connections:refused-below-limit", "Hello of uid %d failed with %s while %d connections (%d of that uid) are "
                               "registered; limits %d / %d" % (c.uid, short(err) if r is not None else "EOF", self.model.completed(),
                                                               self.model.per_user(c.uid), self.cfg["max_completed_connections"],
                                                               self.cfg["max_connections_per_user"]))
                return False
            c.unique = r.msg.body[0]
            self.model.hello(c.unique, c.uid)
            self.live.append(c)
            self.part.count("connect:allowed")
            self.reuse("max_completed_connections", None)
            self.reuse("max_connections_per_user", c.uid)
            return True
        if ok:
            self.violation("connections:accepted-over-limit:%s" % which, "Hello of uid %d succeeded although %s=%d is already reached "
                           "(%d registered, %d of that uid)" % (c.uid, which, self.cfg[which], self.model.completed(), self.model.per_user(c.uid)))
            c.unique = r.msg.body[0]
            self.model.hello(c.unique, c.uid)
            self.live.append(c)
            return True
        self.part.count("connect:refused:" + which)
        self.part.count("connect:refused-with:" + (short(err) if r is not None else "eof"))
        self.saw_refusal.add((which, None if which == "max_completed_connections" else c.uid))
        return False

    def refused_aftermath(self, c, r):
        # the refused connection must not be usable
        if r is not None:
            try:
                r2 = c.bus_call(b"ListNames")
                if r2.msg.type == 2:
                    self.violation("connections:refused-connection-usable", "a connection whose Hello was refused could call ListNames")
            except client.Closed:
                pass
        # existing clients unaffected, state unchanged
        self.bystanders_ok("connections")
        self.check_connections("after a refused Hello")

    def check_connections(self, when):
        r = self.q().bus_call(b"ListNames")
        got = set(n for n in r.msg.body[0] if n[:1] == b":") if r.msg.type == 2 else None
        want = set(self.model.uid)
        if got != want:
            self.violation("connections:state-differs", "%s the bus lists connections %r, expected %r"
                           % (when, sorted(got or []), sorted(want)))
        return r

    def op_connect(self, uid, eof_is_watchdog=False):
        """eof_is_watchdog: with a sub-second auth_timeout a stalled machine can make the bus drop us before Hello; that is
        a watchdog event (history re-run once), not a verdict."""
        verdict, which = self.model.hello_verdict(uid)
        self.step("connect uid=%d (model: %s%s; %d registered, %d of this uid)" % (uid, verdict, " by " + which if which else "",
                                                                                   self.model.completed(), self.model.per_user(uid)))
        self.part.count("op:connect")
        self.phase = "sasl"
        c = client.Client(self.daemon.sock, self.clock, uid=uid)
        c.idx = self.nidx
        self.nidx += 1
        r = None
        try:
            c.auth()
            self.phase = "hello"
            r = c.hello()
        except client.Closed:
            if eof_is_watchdog:
                self.phase = "register-within-auth-timeout"
                raise
            r = None
        if self.judge_hello(c, r, verdict, which):
            self.drain()
            return c
        if verdict == lm.ALLOW:
            c.close()
            self.closing += 1
            return None
        self.refused_aftermath(c, r)
        if r is not None and len(self.parked) + 1 < self.cfg["max_incomplete_connections"] and self.rng.random() < 0.6:
            self.parked.append(c)
            self.step("  (kept open without a unique name)")
        else:
            c.close()
            self.closing += 1
        self.model.incomplete = len(self.parked)
        return None

    def op_retry_hello(self, c):
        verdict, which = self.model.hello_verdict(c.uid)
        self.step("retry Hello on the refused connection of uid=%d (model: %s%s)" % (c.uid, verdict, " by " + which if which else ""))
        self.part.count("op:retry-hello")
        self.phase = "hello"
        try:
            r = c.hello()
        except client.Closed:
            r = None
        done = self.judge_hello(c, r, verdict, which, retry=True)
        if done or r is None or verdict == lm.ALLOW:
            self.parked.remove(c)
            if not done:
                c.close()
                self.closing += 1
        else:
            self.refused_aftermath(c, r)
        self.model.incomplete = len(self.parked)
        self.drain()

    def op_disconnect(self, c):
        u = c.unique
        self.step("disconnect %s (uid %d, %d names, %d rules, caller of %d / callee of %d open calls)" % (
            self.lab(u), c.uid, self.model.names_count(u), self.model.rules_count(u), self.model.replies_count(u),
            len(self.model.pending.slots_of_callee(u))))
        self.part.count("op:disconnect")
        self.live.remove(c)
        owed, _ = self.depart_model(u)
        c.close()
        self.after_departure(u, owed)
        self.part.sig("disconnect", len(owed) > 0)

    # -- names -------------------------------------------------------------------------------------------
    def op_request(self, c, name, flags):
        u = c.unique
        verdict, would_add, after, code, row = self.model.request_verdict(u, name, flags)
        count, limit = self.model.names_count(u), self.cfg["max_names_per_connection"]
        self.step("RequestName %s %s flags=%d (model: %s, holds %d of %d, %s)" % (self.lab(u), self.lab(name), flags, verdict, count, limit, row))
        self.part.count("op:RequestName")
        pre = self.observe_queue(name)
        rep, extra = self.call_counted(c, b"RequestName", b"su", [name, flags])
        if extra:
            self.violation("names:request-answered-%d-times" % (1 + len(extra)), "RequestName answered %d times" % (1 + len(extra)))
        refused = rep.msg.type == 3
        err = rep.msg.known().get(4) if refused else None
        post = self.observe_queue(name)
        self.part.sig("RequestName", verdict, row, flags & 7, short(err) if refused else rep.msg.body[0], min(count, limit + 1), limit)
        if refused:
            if post != pre:
                self.violation("names:refused-request-had-effect", "RequestName failed with %s but the queue of %s changed from %r to %r"
                               % (short(err), self.lab(name), pre, post))
                self.resync_name(name, post)
            if verdict == lm.REFUSE:
                self.part.count("names:refused")
                self.part.count("names:refused:" + row)
                self.saw_refusal.add(("names", u))
                if err != LIMITS_EXCEEDED:
                    self.violation("names:refusal-error-name:%s" % short(err), "RequestName beyond max_names_per_connection failed with %s" % short(err))
                else:
                    r = self.q().bus_call(b"ListNames")
                    got = set(n for n in r.msg.body[0] if n[:1] != b":" and n != b"org.freedesktop.DBus")
                    want = set(n for n, q in self.model.names.q.items() if q)
                    if got != want:
                        self.violation("names:refused-request-had-effect", "after a refused RequestName ListNames shows %r, expected %r"
                                       % (sorted(got), sorted(want)))
            elif verdict == lm.UNJUDGED and err == LIMITS_EXCEEDED:
                self.part.count("names:at-limit-not-raising:refused")
            elif err == LIMITS_EXCEEDED:
                self.violation("names:request-below-limit-refused", "RequestName by a connection holding %d of %d names failed with LimitsExceeded"
                               % (count, limit))
            else:
                self.unsure("RequestName of a valid name failed with %s" % short(err))
            self.drain()
            return
        if verdict == lm.REFUSE:
            self.violation("names:request-at-limit-accepted", "RequestName answered %r although the connection already holds %d names "
                           "(max_names_per_connection=%d) and the request adds one" % (rep.msg.body, count, limit))
        elif verdict == lm.UNJUDGED:
            self.part.count("names:at-limit-not-raising:accepted")
        else:
            self.part.count("names:allowed")
            if would_add:
                self.part.count("names:allowed-adding")
                self.reuse("names", u)
        self.model.names = after
        if set(post) != set(self.model.names.queue(name)):
            self.unsure("queue of %s after RequestName is %r, names model says %r" % (self.lab(name), post, self.model.names.queue(name)))
        # always adopt the observed ORDER (position in the queue is C04's subject and has a known deviation; it decides who
        # owns the name after the next release, hence later verdicts)
        self.resync_name(name, post)
        self.drain()

    def op_release(self, c, name):
        u = c.unique
        self.step("ReleaseName %s %s (holds %d)" % (self.lab(u), self.lab(name), self.model.names_count(u)))
        self.part.count("op:ReleaseName")
        rep, extra = self.call_counted(c, b"ReleaseName", b"s", [name])
        if rep.msg.type != 2 or extra:
            self.unsure("ReleaseName answered %r (+%d)" % (rep, len(extra)))
        before = self.model.names_count(u)
        self.model.names.release(u, name)
        post = self.observe_queue(name)
        if set(post) != set(self.model.names.queue(name)):
            self.unsure("queue of %s after ReleaseName is %r, names model says %r" % (self.lab(name), post, self.model.names.queue(name)))
        self.resync_name(name, post)
        if self.model.names_count(u) < before:
            self.part.count("names:released")
        self.part.sig("ReleaseName", before - self.model.names_count(u))
        self.drain()

    # -- match rules ---------------------------------------------------------------------------------------
    def rule_text(self, c, rid):
        key = (c.unique, rid)
        if key not in self.peer_rules:
            # the last three rule ids of a connection name another connection's unique name as sender; the text of a rule id
            # is fixed at its first use (None: no sender key)
            others = [x for x in self.live if x is not c]
            self.peer_rules[key] = self.rng.choice(others).unique if (rid >= NRIDS - 3 and others) else None
        peer = self.peer_rules[key]
        if peer is not None:
            return b"type='signal',sender='%s',interface='com.example.L',member='R%d_%d'" % (peer, c.idx, rid)
        return b"type='signal',interface='com.example.L',member='R%d_%d'" % (c.idx, rid)

    def probe(self, c, rid):
        """-> number of copies of a signal matching rule (c, rid) that c receives, or None if nobody can send it"""
        senders = [x for x in self.live if x is not c]
        peer = self.peer_rules.get((c.unique, rid))
        if peer is not None:
            senders = [x for x in senders if x.unique == peer]       # only the named sender can make this rule match
        if not senders:
            self.part.count("probe-skipped")
            return None
        s = self.rng.choice(senders)
        t = self.tok()
        s.signal(b"/t", b"com.example.L", b"R%d_%d" % (c.idx, rid), b"s", [t])
        s.barrier()
        c.barrier()
        n = 0
        for rec in c.take_inbox():
            if rec.msg.type == 4 and rec.msg.body and rec.msg.body[0] == t:
                n += 1
        self.part.count("probes")
        return n

    def op_add_match(self, c, rid):
        u = c.unique
        verdict = self.model.add_rule_verdict(u)
        count, limit = self.model.rules_count(u), self.cfg["max_match_rules_per_connection"]
        invalid = rid is None
        text = self.rng.choice(INVALID_RULES) if invalid else self.rule_text(c, rid)
        self.step("AddMatch %s %r (model: %s, holds %d of %d)" % (self.lab(u), text, verdict, count, limit))
        self.part.count("op:AddMatch")
        rep, extra = self.call_counted(c, b"AddMatch", b"s", [text])
        if extra:
            self.violation("rules:add-answered-%d-times" % (1 + len(extra)), "AddMatch answered %d times" % (1 + len(extra)))
        refused = rep.msg.type == 3
        err = rep.msg.known().get(4) if refused else None
        self.part.sig("AddMatch", verdict, "invalid" if invalid else ("dup" if rid in self.model.rules[u] else "new"),
                      short(err) if refused else "ok", min(count, limit + 1), limit)
        if invalid:
            if not refused:
                self.unsure("AddMatch accepted the invalid rule %r" % text)
                self.rule_taint.add(u)
            else:
                self.part.count("rules:invalid-refused")
            return
        if u in self.rule_taint:
            return
        held = rid in self.model.rules[u]
        if verdict == lm.REFUSE:
            if not refused:
                self.violation("rules:add-at-limit-accepted", "AddMatch succeeded although the connection already holds %d rules "
                               "(max_match_rules_per_connection=%d)" % (count, limit))
                self.model.rules[u].append(rid)
                return
            self.part.count("rules:refused")
            self.saw_refusal.add(("rules", u))
            if err != LIMITS_EXCEEDED:
                self.violation("rules:refusal-error-name:%s" % short(err), "AddMatch beyond the limit failed with %s" % short(err))
            n = self.probe(c, rid)
            if n is not None and n > 0 and not held:
                self.violation("rules:refused-rule-delivers", "a signal matching only the refused rule was delivered %d time(s)" % n)
            elif n is not None and held and n != 1:
                self.unsure("probe for a held rule delivered %d times" % n)
            return
        if refused:
            if err == LIMITS_EXCEEDED:
                self.violation("rules:add-below-limit-refused", "AddMatch by a connection holding %d of %d rules failed with LimitsExceeded" % (count, limit))
            else:
                self.unsure("AddMatch of a valid rule failed with %s" % short(err))
            return
        self.model.rules[u].append(rid)
        self.part.count("rules:allowed")
        self.reuse("rules", u)
        n = self.probe(c, rid)
        if n is not None and n != 1:
            self.violation("rules:allowed-rule-not-effective", "a signal matching the rule just added below the limit was delivered %d times" % n)

    def op_remove_match(self, c, rid):
        u = c.unique
        self.step("RemoveMatch %s rule %d (holds %d)" % (self.lab(u), rid, self.model.rules_count(u)))
        self.part.count("op:RemoveMatch")
        rep, extra = self.call_counted(c, b"RemoveMatch", b"s", [self.rule_text(c, rid)])
        if rep.msg.type != 2 or extra:
            self.unsure("RemoveMatch of a held rule answered %r (+%d)" % (rep, len(extra)))
            self.rule_taint.add(u)
            return
        self.model.rules[u].remove(rid)
        self.part.count("rules:removed")
        self.part.sig("RemoveMatch", rid in self.model.rules[u])
        n = self.probe(c, rid)
        want = 1 if rid in self.model.rules[u] else 0
        if n is not None and n != want:
            self.unsure("after RemoveMatch the probe was delivered %d times, expected %d" % (n, want))
            self.rule_taint.add(u)

    # -- reply slots -------------------------------------------------------------------------------------------
    def op_call(self, caller, callee):
        verdict = self.model.call_verdict(caller.unique)
        count, limit = self.model.replies_count(caller.unique), self.cfg["max_replies_per_connection"]
        t = self.tok()
        t_pre = time.monotonic()
        serial = caller.call_async(callee.unique, b"/t", b"com.example.L", b"Call", b"s", [t])
        self.step("call %s -> %s serial=%d (model: %s, %d of %d replies pending)" % (self.lab(caller.unique), self.lab(callee.unique), serial,
                                                                                     verdict, count, limit))
        self.part.count("op:call")
        caller.barrier()
        if callee is not caller:
            callee.barrier()
        errs = [r for r in caller.inbox if r.msg.type == 3 and r.msg.known().get(5) == serial and r.msg.known().get(7) == b"org.freedesktop.DBus"]
        caller.inbox = [r for r in caller.inbox if r not in errs]
        got = [r for r in callee.inbox if r.msg.type == 1 and r.msg.body and r.msg.body[0] == t]
        callee.inbox = [r for r in callee.inbox if r not in got]
        err = errs[0].msg.known().get(4) if errs else None
        self.part.sig("call", verdict, len(got), short(err), min(count, limit + 1), limit, caller is callee)
        if got and errs:
            self.violation("replies:call-delivered-and-refused", "a call was delivered and also answered with %s" % short(err))
        if len(got) > 1 or len(errs) > 1:
            self.unsure("call delivered %d times, %d errors" % (len(got), len(errs)))
        if verdict == lm.REFUSE:
            if got:
                self.violation("replies:call-at-limit-delivered", "a call was delivered although its sender already has %d calls pending "
                               "(max_replies_per_connection=%d)" % (count, limit))
                self.model.pending.opened(caller.unique, callee.unique, serial, t_pre, t)
            elif not errs:
                self.violation("replies:call-at-limit-vanished", "a call beyond the limit was neither delivered nor answered")
            else:
                self.part.count("replies:refused")
                self.saw_refusal.add(("replies", caller.unique))
                if err != LIMITS_EXCEEDED:
                    self.violation("replies:refusal-error-name:%s" % short(err), "a call beyond max_replies_per_connection failed with %s" % short(err))
            return
        if not got:
            if err == LIMITS_EXCEEDED:
                self.violation("replies:call-below-limit-refused", "a call by a connection with %d of %d pending replies failed with LimitsExceeded"
                               % (count, limit))
            else:
                self.unsure("call below the limit not delivered (%s)" % short(err))
            return
        self.model.pending.opened(caller.unique, callee.unique, serial, t_pre, t)
        self.part.count("replies:allowed")
        self.reuse("replies", caller.unique)

    def op_answer(self, slot):
        callee, caller = self.by_unique(slot.callee), self.by_unique(slot.caller)
        t = self.tok()
        self.step("reply %s -> %s reply_serial=%d" % (self.lab(slot.callee), self.lab(slot.caller), slot.serial))
        self.part.count("op:reply")
        own, data = callee.build(2, reply_serial=slot.serial, dest=slot.caller, sig=b"s", body=[t])
        callee.send_msg(data, own)
        callee.barrier()
        if caller is not callee:
            caller.barrier()
        got = [r for r in caller.inbox if r.msg.type == 2 and r.msg.body and r.msg.body[0] == t]
        caller.inbox = [r for r in caller.inbox if r not in got]
        if len(got) != 1:
            self.unsure("genuine reply delivered %d times" % len(got))
        self.model.pending.close(slot.caller, slot.callee, slot.serial)
        self.part.count("replies:freed-by-reply")
        self.part.sig("reply", len(got))

    # -- message size ------------------------------------------------------------------------------------------
    def op_big(self, sender, target, delta):
        limit = self.cfg["max_message_size"]
        total = limit + delta
        # the path length moves the end of the header fields through all eight alignments (0..7 padding bytes before the
        # body), either byte order
        # the length of the SIGNATURE field (the last header field) moves the end of the header fields through all eight
        # alignments (0..7 padding bytes before the body); either byte order
        j = self.rng.randint(0, 7)
        kw = dict(path=b"/t" + b"x" * self.rng.randint(0, 7), iface=b"com.example.L", member=b"Big", dest=target.unique, sig=b"ay" + b"y" * j,
                  order=self.rng.choice("lB"))
        serial, data = sender.build(4, body=[b""] + [7] * j, **kw)
        pad = total - len(data)
        serial, data = sender.build(4, body=[bytes(bytearray((i * 7 + 3) & 0xFF for i in range(pad)))] + [7] * j, serial=serial, **kw)
        assert len(data) == total
        verdict = self.model.size_verdict(total)
        self.step("signal of %d bytes (max_message_size%+d) %s -> %s (model: %s)" % (total, delta, self.lab(sender.unique), self.lab(target.unique), verdict))
        self.part.count("op:big")
        u = sender.unique
        closed = False
        try:
            sender.send_msg(data, serial, chunks=self.rng.choice([None, [16], [4096] * 40]))
        except client.Closed:
            closed = True
        if verdict == lm.REFUSE:
            self.phase = "oversize-eof"
            gone = closed or sender.eof or sender.wait_eof()
            if not gone:
                self.violation("message-size:oversize-sender-not-disconnected", "the sender of a %d byte message (max_message_size=%d) "
                               "was not disconnected" % (total, limit))
            self.live.remove(sender)
            owed, _ = self.depart_model(u)
            sender.close()
            self.bystanders_ok("message-size")
            got = [r for r in target.inbox if r.msg.type == 4 and r.msg.known().get(3) == b"Big" and r.msg.known().get(7) == u
                   and r.msg.serial == serial]
            if got:
                self.violation("message-size:oversize-delivered", "a %d byte message (max_message_size=%d) was delivered" % (total, limit))
            self.after_departure(u, owed)
            self.check_connections("after an over-size message")
            self.part.count("size:disconnected")
            self.part.sig("big", delta, limit, "disconnected" if gone else "alive")
            return
        try:
            if closed:
                raise client.Closed("send failed")
            sender.barrier()
        except client.Closed:
            self.violation("message-size:sender-within-limit-disconnected", "the sender of a %d byte message (max_message_size=%d) was "
                           "disconnected" % (total, limit))
            self.live.remove(sender)
            owed, _ = self.depart_model(u)
            sender.close()
            self.after_departure(u, owed)
            return
        if target is not sender:
            target.barrier()
        got = [r for r in target.inbox if r.msg.type == 4 and r.msg.known().get(3) == b"Big" and r.msg.known().get(7) == u
               and r.msg.serial == serial]
        target.inbox = [r for r in target.inbox if r not in got]
        self.part.sig("big", delta, limit, len(got))
        if len(got) != 1 or bytes(bytearray(got[0].msg.body[0])) != data[len(data) - pad - j:len(data) - j]:
            self.violation("message-size:within-limit-not-delivered", "a %d byte message (max_message_size=%d) was delivered %d times%s"
                           % (total, limit, len(got), "" if len(got) != 1 else " with a different body"))
        else:
            self.part.count("size:delivered:%+d" % delta)

    # -- H1: the bus's own counters ----------------------------------------------------------------------------------
    def differs(self, which, what):
        self.part.count("counter-differs:" + which)
        if which in self.differs_seen:
            return
        self.differs_seen.add(which)
        self.violation("counter-differs:%s" % which, what)

    def compare_counters(self, incomplete_bounds=None):
        """after one further driver round-trip the last complete state dump reflects the bus after this operation"""
        if not self.live or not self.daemon.alive():
            return
        self.phase = "barrier"
        try:
            self.q().barrier()
        except client.Closed:
            return                       # reported by the next bystander check
        blk = h1trace.last_block(self.trace)
        if blk is None:
            self.part.count("dump-unavailable")
            return
        self.ndumps += 1
        self.part.count("dump-comparisons")
        m = self.model
        if blk.completed != m.completed():
            self.differs("completed", "bus counts %d registered connections, model %d" % (blk.completed, m.completed()))
        if set(blk.conns) != set(m.uid):
            self.differs("completed-set", "bus lists connections %r, model %r" % (sorted(blk.conns), sorted(m.uid)))
        lo, hi = incomplete_bounds if incomplete_bounds is not None else (len(self.parked), len(self.parked) + self.closing)
        if not (lo <= blk.incomplete <= hi):
            self.differs("incomplete", "bus counts %d unregistered connections, the test holds %d open (and closed %d that may not have "
                         "been noticed yet)" % (blk.incomplete, lo, hi - lo))
        elif incomplete_bounds is None and blk.incomplete == lo:
            self.closing = 0
        for u, cnt in blk.conns.items():
            if u not in m.uid:
                continue
            self.part.count("dump-connections-compared")
            if cnt["names"] != m.names_count(u):
                self.differs("names", "bus counts %d names for %s, model %d (unique name + owned + queued)" % (cnt["names"], self.lab(u), m.names_count(u)))
            if u not in self.rule_taint and cnt["rules"] != m.rules_count(u):
                # no rule of this workload names a unique name, so nothing can have been garbage-collected
                self.differs("rules", "bus counts %d match rules for %s, model %d" % (cnt["rules"], self.lab(u), m.rules_count(u)))
            if cnt["pending"] != m.replies_count(u):
                self.differs("pending", "bus counts %d pending replies for %s, model %d" % (cnt["pending"], self.lab(u), m.replies_count(u)))
            if cnt["names"] > self.cfg["max_names_per_connection"] or cnt["rules"] > self.cfg["max_match_rules_per_connection"] \
                    or cnt["pending"] > self.cfg["max_replies_per_connection"]:
                self.differs("above-limit", "bus counters of %s %r exceed the configured limits" % (self.lab(u), cnt))
        if blk.completed > self.cfg["max_completed_connections"] or blk.incomplete > self.cfg["max_incomplete_connections"]:
            self.differs("above-limit", "bus counters completed=%d incomplete=%d exceed the configured limits" % (blk.completed, blk.incomplete))
        bus_slots = collections.Counter(blk.pending)
        if set(bus_slots) != set(m.pending.slots) or any(n > 1 for n in bus_slots.values()):
            self.differs("pending-slots", "bus pending-reply list %r, model %r" % (sorted(bus_slots.elements()), sorted(m.pending.slots)))
        if self.ndumps % 8 == 0:
            try:
                open(self.trace, "w").close()
            except OSError:
                pass

    # -- full comparison at a quiescent point ------------------------------------------------------------------------
    def full_check(self):
        self.part.count("full-checks")
        self.phase = "full-check"
        held = collections.Counter({u: 1 for u in self.model.uid})
        for n in NAMES[:self.npool]:
            q = self.observe_queue(n)
            for u in q:
                held[u] += 1
            if set(q) != set(self.model.names.queue(n)):
                self.unsure("full check: queue of %s is %r, model %r" % (self.lab(n), q, self.model.names.queue(n)))
            self.resync_name(n, q)
        for u, k in held.items():
            if k > self.cfg["max_names_per_connection"]:
                self.violation("names:count-exceeds-limit", "connection %s holds %d names (unique name + owned + queued), "
                               "max_names_per_connection=%d" % (self.lab(u), k, self.cfg["max_names_per_connection"]))
        r = self.check_connections("at a full check")
        uniq = [n for n in r.msg.body[0] if n[:1] == b":"] if r.msg.type == 2 else []
        if len(uniq) > self.cfg["max_completed_connections"]:
            self.violation("connections:count-exceeds-limit:max_completed_connections", "%d registered connections, limit %d"
                           % (len(uniq), self.cfg["max_completed_connections"]))
        per = collections.Counter()
        for u in uniq:
            r = self.q().bus_call(b"GetConnectionUnixUser", b"s", [u])
            if r.msg.type == 2:
                per[r.msg.body[0]] += 1
                if u in self.model.uid and self.model.uid[u] != r.msg.body[0]:
                    self.unsure("uid of %s is %d, model %d" % (self.lab(u), r.msg.body[0], self.model.uid[u]))
        for uid, k in per.items():
            if k > self.cfg["max_connections_per_user"]:
                self.violation("connections:count-exceeds-limit:max_connections_per_user", "%d registered connections of uid %d, limit %d"
                               % (k, uid, self.cfg["max_connections_per_user"]))
        if len(self.live) > 1:
            for c in list(self.live):
                if c.unique in self.rule_taint:
                    continue
                nheld = 0
                for rid in range(NRIDS):
                    if rid not in self.tried_rids.get(c.idx, ()):
                        continue
                    n = self.probe(c, rid)
                    if n is None:
                        continue         # nobody left who could send a matching signal (rule naming a departed sender)
                    want = 1 if rid in self.model.rules[c.unique] else 0
                    nheld += 1 if n else 0
                    if n != want:
                        if n and not want:
                            self.violation("rules:unheld-rule-delivers", "full check: a signal for a rule the connection does not hold "
                                           "(refused or removed) was delivered %d times" % n)
                        else:
                            self.unsure("full check: probe for held rule delivered %d times" % n)
                if nheld > self.cfg["max_match_rules_per_connection"]:
                    self.violation("rules:count-exceeds-limit", "%d distinct rules of one connection deliver, limit %d"
                                   % (nheld, self.cfg["max_match_rules_per_connection"]))
        for kind, k in self.model.exceeded():
            self.part.count("model-counter-above-limit:" + kind)
        self.drain()

    # -- general history ---------------------------------------------------------------------------------------
    def run_general(self):
        rng = self.rng
        self.draw_cfg()
        self.start_daemon()
        self.uids = [0] + rng.sample(UIDS, rng.choice([1, 2]))
        self.npool = min(len(NAMES), self.cfg["max_names_per_connection"] + 2)
        self.tried_rids = {}
        c = self.op_connect(0)
        if c is None:
            raise RuntimeError("anchor connection refused")
        nops = rng.randint(60, 100)
        half = nops // 2
        for opn in range(nops):
            if not self.daemon.alive():
                self.violation("daemon-died", "the bus exited during the history")
                break
            if opn == half:
                self.full_check()
            r = rng.random()
            c = rng.choice(self.live) if self.live else self.q()
            u = c.unique
            want_conn = 0.10 if len(self.live) >= 5 else 0.22
            if r < want_conn:
                if self.parked and rng.random() < 0.5:
                    self.op_retry_hello(rng.choice(self.parked))
                else:
                    self.op_connect(rng.choice(self.uids))
            elif r < want_conn + 0.06:
                if len(self.live) >= 2:
                    self.op_disconnect(rng.choice(self.live[1:]) if rng.random() < 0.8 else c)
                else:
                    self.op_connect(rng.choice(self.uids))
            elif r < 0.50:
                pool = NAMES[:self.npool]
                mine = self.model.names.names_of(u)
                others = [n for n in pool if n not in mine]
                q = rng.random()
                if q < 0.62 and others:
                    contested = [n for n in others if self.model.names.queue(n)]
                    n = rng.choice(contested) if contested and rng.random() < 0.45 else rng.choice(others)
                    self.op_request(c, n, rng.choice([0, 0, 0, 1, 2, 3, 4, 5, 6, 7]))
                elif q < 0.75 and mine:
                    self.op_request(c, rng.choice(mine), rng.randint(0, 7))
                elif mine:
                    self.op_release(c, rng.choice(mine))
                else:
                    self.op_request(c, rng.choice(pool), rng.randint(0, 7))
            elif r < 0.74:
                heldr = self.model.rules.get(u, [])
                q = rng.random()
                if u in self.rule_taint:
                    self.op_request(c, rng.choice(NAMES[:self.npool]), rng.randint(0, 7))
                elif q < 0.60:
                    fresh = [i for i in range(NRIDS) if i not in heldr]
                    rid = rng.choice(fresh) if fresh and rng.random() < 0.85 else rng.randrange(NRIDS)
                    self.tried_rids.setdefault(c.idx, set()).add(rid)
                    self.op_add_match(c, rid)
                elif q < 0.70:
                    self.op_add_match(c, None)
                elif heldr:
                    self.op_remove_match(c, rng.choice(heldr))
                else:
                    rid = rng.randrange(NRIDS)
                    self.tried_rids.setdefault(c.idx, set()).add(rid)
                    self.op_add_match(c, rid)
            elif r < 0.93:
                slots = list(self.model.pending.slots.values())
                if slots and rng.random() < 0.3:
                    self.op_answer(rng.choice(slots))
                else:
                    self.op_call(c, rng.choice(self.live))
            else:
                if len(self.live) >= 2:
                    sender = rng.choice(self.live[1:])
                    target = rng.choice([x for x in self.live if x is not sender])
                    self.op_big(sender, target, rng.choice([-1, 0, 1, 1, 3, 7, 8]))
                else:
                    self.op_big(c, c, rng.choice([-1, 0]))
            self.compare_counters()
        if self.daemon.alive():
            self.full_check()
            self.bystanders_ok("final")

    # -- incomplete connections -----------------------------------------------------------------------------------
    def poll_sasl(self, socks, served, gone):
        # pass 1: answers of sockets not served so far; pass 2 (afterwards!): EOF on served ones.  A connection that had
        # to go away for another one to be served was closed by the bus BEFORE that other one was answered.
        for s in socks:
            if s in served or s in gone:
                continue
            self.pump(s)
            if b"\r\n" in s.buf:
                line = bytes(s.buf[:s.buf.index(b"\r\n")])
                if line.startswith(b"OK "):
                    served.append(s)
                else:
                    self.unsure("SASL answer %r" % line)
                    gone.add(s)
            elif s.eof:
                gone.add(s)
        for s in served:
            if s not in gone:
                self.pump(s)
                if s.eof:
                    gone.add(s)

    def pump(self, s):
        while not s.eof:
            r, _, _ = select.select([s.sock], [], [], 0)
            if not r:
                return
            try:
                data = s.sock.recv(4096)
            except OSError:
                data = b""
            if not data:
                s.eof = True
                return
            s.buf += data

    def wait_served(self, socks, served, gone, k):
        self.phase = "incomplete-served"
        deadline = time.time() + client.WATCHDOG
        while True:
            self.poll_sasl(socks, served, gone)
            if len(served) >= k:
                return
            waiting = [s.sock for s in socks if s not in served and s not in gone]
            if not waiting or time.time() > deadline:
                raise client.Timeout()
            select.select(waiting, [], [], 0.5)

    def rounds(self, anchor, n):
        self.phase = "barrier"
        for _ in range(n):
            anchor.barrier()

    def run_incomplete(self):
        rng = self.rng
        self.kind = "incomplete"
        self.draw_cfg()
        short_to = rng.random() < 0.35
        self.kind = "incomplete-auth-timeout" if short_to else "incomplete"
        self.start_daemon(AUTH_TIMEOUT_SHORT if short_to else 120000)
        self.npool = 0
        self.tried_rids = {}
        limit = self.cfg["max_incomplete_connections"]
        anchor = self.op_connect(0, eof_is_watchdog=short_to)
        if anchor is None:
            raise RuntimeError("anchor connection refused")
        n = limit + rng.randint(1, 3)
        self.step("open %d sockets and send AUTH on each (max_incomplete_connections=%d%s)" % (n, limit, ", auth_timeout=%d ms" % AUTH_TIMEOUT_SHORT if short_to else ""))
        socks = []
        for _ in range(n):
            s = client.Client(self.daemon.sock, self.clock)
            socks.append(s)
            self.parked.append(s)
        order = list(socks)
        rng.shuffle(order)
        for s in order:
            s.send_bytes(b"\0AUTH EXTERNAL " + b"0".hex().encode() + b"\r\n")
        served, gone = [], set()
        freed = 0
        self.wait_served(socks, served, gone, limit)
        if not short_to:
            self.rounds(anchor, n + 3)
            self.poll_sasl(socks, served, gone)
        active = [s for s in served if s not in gone]
        self.step("  %d answered, %d of them still open" % (len(served), len(active)))
        self.part.sig("incomplete", "initial", limit, n - limit, len(active), short_to)
        if len(active) > limit:
            self.violation("incomplete:more-served-than-limit", "%d unregistered connections are being served, max_incomplete_connections=%d"
                           % (len(active), limit))
        else:
            self.part.count("incomplete:limit-held")
        closed_by_me = 0
        # H1: the bus's own n_incomplete (with a sub-second auth_timeout it changes by itself: only the limit is compared)
        self.compare_counters((0, limit) if short_to else (len(active), len(active)))
        if short_to:
            # the bus drops connections that do not register within auth_timeout; every waiting socket then gets its turn
            while any(s not in served and s not in gone for s in socks):
                self.wait_served(socks, served, gone, len(served) + 1)
                active = [s for s in served if s not in gone]
                self.step("  %d answered so far, %d still open" % (len(served), len(active)))
                self.part.sig("incomplete", "expiry", limit, len(active) <= limit)
                if len(active) > limit:
                    self.violation("incomplete:more-served-than-limit", "%d unregistered connections are being served, "
                                   "max_incomplete_connections=%d" % (len(active), limit))
                    break
                self.part.count("incomplete:expired-reused")
        else:
            steps = rng.randint(1, n - limit + 1)
            for _ in range(steps):
                active = [s for s in served if s not in gone]
                if not active:
                    break
                s = rng.choice(active)
                verdict, which = self.model.hello_verdict(0)
                if rng.random() < 0.5:
                    self.step("  close one of the served sockets")
                    s.close()
                    closed_by_me += 1
                    gone.add(s)
                    how = "close"
                else:
                    self.step("  BEGIN + Hello on one of the served sockets (model: %s)" % verdict)
                    del s.buf[:]
                    s.send_bytes(b"BEGIN\r\n")
                    s.idx = self.nidx
                    self.nidx += 1
                    self.phase = "hello"
                    try:
                        r = s.hello()
                    except client.Closed:
                        r = None
                    if self.judge_hello(s, r, verdict, which):
                        how = "complete"
                    else:
                        s.close()
                        closed_by_me += 1
                        how = "refused-then-close"
                    gone.add(s)
                freed += 1
                expect = min(n, limit + freed)
                self.wait_served(socks, served, gone, expect)
                self.rounds(anchor, n + 3)
                self.poll_sasl(socks, served, gone)
                active = [x for x in served if x not in gone]
                self.part.sig("incomplete", how, limit, len(served) - expect, len(active) <= limit)
                self.step("  %d answered in total (expected %d), %d unregistered ones open" % (len(served), expect, len(active)))
                if len(served) > expect or len(active) > limit:
                    self.violation("incomplete:more-served-than-limit", "after freeing %d of them %d sockets have been answered, "
                                   "%d unregistered ones are open, max_incomplete_connections=%d" % (freed, len(served), len(active), limit))
                    break
                self.part.count("incomplete:freed-reused")
                self.compare_counters((len(active), len(active) + closed_by_me))
        if short_to:
            self.compare_counters((0, limit))
        if any(s in gone and s not in served for s in socks):
            self.unsure("a socket was closed by the bus before its AUTH was answered")
        self.bystanders_ok("incomplete")
        for s in socks:
            if s in self.parked:
                self.parked.remove(s)
            if s not in self.live:
                s.close()

    def run(self):
        try:
            if self.rng.random() < 0.2:
                self.run_incomplete()
            else:
                self.run_general()
        except EndHistory:
            self.part.count("history-ended-early")
        self.finish()

    def finish(self):
        for c in self.live + self.parked:
            c.close()
        if self.daemon is not None:
            self.daemon.stop(timeout=180)
            for cls, site, text in self.daemon.problems():
                self.part.violation("%s:%s:%s" % (PROP, cls, site), "daemon reported %s" % cls, self.witness({"stderr": text[-3000:]}))
            self.part.count("daemon-stderr-scraped")


def _run_one(b, rundir, seed, shard, i, part):
    hid = shard * 100000 + i
    starts = 0
    attempt = 0
    while attempt < 2:
        d = os.path.join(rundir, "h%d-%d-%d" % (i, attempt, starts))
        h = History(b, d, gen.rng_for(seed, PROP, shard, i), part, hid)
        try:
            h.run()
            part.evaluations += len(h.steps)
            part.count("histories")
            part.count("histories:" + h.kind)
            return h
        except StartFailure as e:
            try:
                h.daemon.stop()        # no verdict is drawn from a daemon that never came up
            except Exception:
                pass
            starts += 1
            part.count("daemon-start-retried")
            if starts >= 4:
                part.inconclusive.append("history %d: %s" % (hid, e))
                return None
            continue
        except (client.Timeout, client.Closed) as e:
            alive = h.daemon.alive() if h.daemon else False
            try:
                h.finish()
            except Exception:
                pass
            if attempt == 1:
                part.violation("%s:hang:%s" % (PROP, h.phase), "history blocked twice in phase %r (%s, daemon alive=%s)"
                               % (h.phase, type(e).__name__, alive), h.witness())
            else:
                part.count("watchdog")
            attempt += 1
        finally:
            shutil.rmtree(d, ignore_errors=True)
    return None


def _worker(args):
    seed, shard, count = args
    part = report.Part()
    b = build.build("asan", quiet=True)
    rundir = tempfile.mkdtemp(prefix="verif-c13-")
    os.chmod(rundir, 0o755)       # clients of other uids must reach the socket
    try:
        for i in range(count):
            h = _run_one(b, rundir, seed, shard, i, part)
            if h is not None and shard == 0 and i < 3:
                part.sample({"history": h.hid, "kind": h.kind, "limits": h.cfg, "steps": h.steps[:30]})
    finally:
        shutil.rmtree(rundir, ignore_errors=True)
    return part


REQUIRED = {"names:refused": 5, "names:refused:enqueue": 2, "names:refused:unowned": 2, "names:allowed-adding": 20, "reuse:names": 2, "names:released": 5,
            "rules:refused": 5, "rules:allowed": 20, "reuse:rules": 2, "rules:removed": 5,
            "replies:refused": 5, "replies:allowed": 20, "reuse:replies": 2,
            "connect:refused:max_completed_connections": 3, "connect:refused:max_connections_per_user": 3,
            "connect:allowed": 20, "reuse:max_completed_connections": 1, "reuse:max_connections_per_user": 1,
            "size:delivered:-1": 2, "size:delivered:+0": 2, "size:disconnected": 2,
            "incomplete:limit-held": 3, "incomplete:freed-reused": 3, "incomplete:expired-reused": 1,
            "full-checks": 10, "daemon-stderr-scraped": 1, "dump-comparisons": 5000, "dump-connections-compared": 10000}


def run(tier, seed, replay=None, scale=1.0):
    r = report.Run(PROP, tier)
    r.rule = RULE
    b = build.build("asan")
    r.builds.append(b.info())
    if replay:
        j = json.load(open(replay))
        hid = j["witness"]["history"]
        shard, i = divmod(hid, 100000)
        part = report.Part()
        rundir = tempfile.mkdtemp(prefix="verif-c13-")
        os.chmod(rundir, 0o755)
        try:
            _run_one(b, rundir, j["seed"], shard, i, part)
        finally:
            shutil.rmtree(rundir, ignore_errors=True)
        part.sig("replay", 0)
        part.sig("replay", 1)
        r.merge(part)
        return r.finish()
    total = int((208 if tier == "quick" else 6000) * scale)
    per = max(1, total // 16)
    for part in report.run_sharded(_worker, [(seed, i, per) for i in range(16)]):
        r.merge(part)
    r.extra["per_limit_kind"] = {k: int(v) for k, v in sorted(r.counters.items())
                                 if k.split(":")[0] in ("names", "rules", "replies", "connect", "size", "incomplete", "reuse")}
    for k, m in REQUIRED.items():
        r.require(k, m if scale >= 1 else (max(1, int(m * scale)) if scale >= 0.04 else 0))
    r.assumptions = [
        "'names per connection' counts the unique name plus every well-known name the connection owns or is queued for "
        "(dbus-daemon(1): 'names a single connection can own'; the specification keeps a queued connection's claim; the "
        "repository's own test states that the unique name is a name too)",
        "'not-yet-authenticated connections' is taken as the documented max_incomplete_connections: connections that have not "
        "completed registration (Hello); a connection whose Hello was refused therefore still counts as incomplete",
        "a request made AT a limit that would not raise the counter (re-request of a name already held or queued for, a request "
        "that ends as 'exists') is not judged: the bus answers LimitsExceeded, the statement covers neither case; its having "
        "no effect is still checked",
        "the same match rule text added twice counts as two rules",
        "after every name operation the model adopts the observed ORDER of the ownership queue (position is C04's subject and has a "
        "known deviation); only the SET of claimants is compared",
        "disagreements that belong to other properties (ownership queue contents after an accepted request - C04, delivery "
        "for an accepted rule after RemoveMatch - C07, reply routing - C09) make the run inconclusive instead of being "
        "reported under C13",
        "'at every moment' is narrowed to quiescent points: after the requester's and every affected party's driver round-trip",
        "hook H1 (FREEDESKTOP_DBUS_VERIF build) dumps the counters after every dispatch and aborts with VERIF-INVARIANT when a counter "
        "disagrees with the structure it counts or exceeds its limit; the number of unregistered connections is compared as an "
        "interval while connections the test closed may not have been noticed yet; no rule of the workload names a unique name, so "
        "rule counts are compared exactly",
        "upper bound of the incomplete-connection test: another client completes limit+k+3 driver round-trips (each needs a main-loop "
        "iteration, the bus accepts one connection per iteration) before the sockets are read; pending-reply counters cannot be "
        "queried and are observed through refusals only",
    ]
    return r.finish()
