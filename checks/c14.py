"""C14 - out-of-memory at any point leaves state unchanged and leaks nothing (fault enumeration)."""
import collections
import json
import os
import shutil
import tempfile
import time

from vf import build, busproc, client, gen, hrun, report, wire

PROP = "C14"
RULE = ("fault_enumeration: for each sampled (prior state, operation) the index k of the failing dbus_malloc is "
        "enumerated exhaustively 0..N-1, N = allocations of the fault-free run (hook H2 arms the injector for exactly "
        "the dispatch of the operation's message in the real ASan daemon; hook H1 dumps registry incl. queue flags, "
        "per-connection counters and pending replies at every quiescent point). Prior states come from seeded histories "
        "(contended names with queues and flags, match rules, an outstanding call); operations: Hello, RequestName "
        "(8 flag combinations vs. the queue), ReleaseName, AddMatch, RemoveMatch, routed method call / unicast signal / "
        "broadcast. Every run must be in one of two worlds: FAILED (state dump == pre-state, caller got exactly one "
        "NoMemory error, nobody else got anything) or SUCCEEDED (dump and every client's messages equal the fault-free "
        "reference). Library part: message copy / header edit / demarshal / match-rule parse / config parse under "
        "every k with block-count leak check. distinct = (operation, prior-state shape, k-outcome class)")

NOMEM = b"org.freedesktop.DBus.Error.NoMemory"
NAMES = [b"com.example.A", b"com.example.B"]

# a configuration whose per-group, per-user and default sections all carry rules: the connection's policy is
# assembled from them while Hello is dispatched, so a Hello that succeeds must be bound by every section
GROUP_POLICY = busproc.OPEN_POLICY + """
  <policy group="root">
    <deny send_interface="com.example.GroupSecret"/>
  </policy>
  <policy group="daemon">
    <deny send_interface="com.example.Open"/>
  </policy>
  <policy user="root">
    <deny send_interface="com.example.UserSecret"/>
  </policy>
  <policy user="daemon">
    <deny send_interface="com.example.Open"/>
  </policy>
"""
PROBE_IFACES = [b"com.example.GroupSecret", b"com.example.UserSecret", b"com.example.Open"]


def parse_trace(text):
    """last complete state block -> canonical tuple of lines (sorted)"""
    blocks = text.split("\nS ")
    for blk in reversed(blocks):
        if "\nE " in blk:
            lines = blk.split("\n")[1:]
            out = []
            for ln in lines:
                if ln.startswith("E "):
                    break
                out.append(ln)
            return tuple(sorted(out))
    return None


class World(object):
    """A daemon + clients driven to a prior state by a deterministic setup script."""

    def __init__(self, b, rundir, setup, tag):
        self.b = b
        self.rundir = os.path.join(rundir, tag)
        os.makedirs(self.rundir, exist_ok=True)
        self.ctl = os.path.join(self.rundir, "ctl")
        self.trace = os.path.join(self.rundir, "trace")
        self.clock = client.Clock()
        self.policy = any(st[0] == "policy" for st in setup)
        self.daemon = busproc.Daemon(b, self.rundir, busproc.make_config("@SOCK@", GROUP_POLICY if self.policy else None), name="bus",
                                     env={"DBUS_VERIF_CTL": self.ctl, "DBUS_VERIF_TRACE": self.trace})
        if not self.daemon.started():
            raise RuntimeError("daemon did not start: " + self.daemon.stderr_text()[-400:])
        self.clients = []
        self.outstanding = {}
        for step in setup:
            self.apply_setup(step)
        self.sync()
        for c in self.clients:
            c.take_inbox()

    def apply_setup(self, step):
        k = step[0]
        if k == "connect":
            self.clients.append(client.connect(self.daemon.sock, self.clock))
        elif k == "request":
            self.clients[step[1]].bus_call(b"RequestName", b"su", [step[2], step[3]])
        elif k == "match":
            self.clients[step[1]].bus_call(b"AddMatch", b"s", [step[2]])
        elif k == "call":      # outstanding call from a to the owner of name (never answered)
            ser = self.clients[step[1]].call_async(step[2], b"/o", b"com.example.I", b"Pending", b"", [])
            self.outstanding[(step[1], step[2])] = ser

    def sync(self, rounds=2):
        # two rounds: traffic one client caused for another during round one is flushed by round two
        for _ in range(rounds):
            for c in self.clients:
                c.barrier()

    def state(self):
        self.sync()
        with open(self.trace) as fh:
            return parse_trace(fh.read())

    def truncate_trace(self):
        open(self.trace, "w").close()

    def arm(self, k, who, serial, nfail=1, second=-1):
        try:
            os.unlink(self.ctl + ".result")
        except OSError:
            pass
        tmp = self.ctl + ".tmp"
        with open(tmp, "w") as fh:
            fh.write("%d %s %u %d %d\n" % (k, who, serial, nfail, second))
        os.rename(tmp, self.ctl)

    def result(self):
        try:
            with open(self.ctl + ".result") as fh:
                lines = fh.read().split()
            return int(lines[-2]), int(lines[-1])
        except (OSError, IndexError, ValueError):
            return None

    def close(self):
        for c in self.clients:
            c.close()
        self.daemon.stop()
        return self.daemon.problems()


def is_harness_traffic(rec):
    """barrier calls (GetId) of any client and their replies, as seen by an eavesdropping rule"""
    k = rec.msg.known()
    if rec.msg.type == 1 and k.get(3) == b"GetId" and k.get(6) == b"org.freedesktop.DBus":
        return True
    return False


def summarize(rec):
    """stable description of a received message (no serials of bus-generated messages)"""
    m = rec.msg
    k = m.known()
    return (m.type, k.get(7), k.get(2), k.get(3), k.get(4), k.get(5) is not None, tuple(repr(x) for x in m.body[:4]))


def do_op(w, op, k, nfail=1, second=-1):
    """arm k, perform op, return (replies to caller, per-client message summaries, fired/consumed, new client or None)"""
    kind = op[0]
    newc = None
    if kind == "hello":
        c = client.Client(w.daemon.sock, w.clock)
        c.auth()
        newc = c
        serial = c.next_serial()
        w.arm(k, "-", serial, nfail, second)
        s, data = c.build(1, path=b"/org/freedesktop/DBus", iface=b"org.freedesktop.DBus", member=b"Hello",
                          dest=b"org.freedesktop.DBus", serial=serial)
    else:
        c = w.clients[op[1]]
        serial = c.next_serial()
        w.arm(k, c.unique.decode(), serial, nfail, second)
        if kind == "request":
            s, data = c.build(1, path=b"/org/freedesktop/DBus", iface=b"org.freedesktop.DBus", member=b"RequestName",
                              dest=b"org.freedesktop.DBus", sig=b"su", body=[op[2], op[3]], serial=serial)
        elif kind == "release":
            s, data = c.build(1, path=b"/org/freedesktop/DBus", iface=b"org.freedesktop.DBus", member=b"ReleaseName",
                              dest=b"org.freedesktop.DBus", sig=b"s", body=[op[2]], serial=serial)
        elif kind == "addmatch":
            s, data = c.build(1, path=b"/org/freedesktop/DBus", iface=b"org.freedesktop.DBus", member=b"AddMatch",
                              dest=b"org.freedesktop.DBus", sig=b"s", body=[op[2]], serial=serial)
        elif kind == "removematch":
            s, data = c.build(1, path=b"/org/freedesktop/DBus", iface=b"org.freedesktop.DBus", member=b"RemoveMatch",
                              dest=b"org.freedesktop.DBus", sig=b"s", body=[op[2]], serial=serial)
        elif kind == "call":
            s, data = c.build(1, path=b"/o", iface=b"com.example.I", member=b"M", dest=op[2], sig=b"s", body=[b"payload"],
                              serial=serial, flags=1)
        elif kind == "usignal":
            s, data = c.build(4, path=b"/o", iface=b"com.example.I", member=b"Sig", dest=op[2], sig=b"s", body=[b"payload"],
                              serial=serial)
        elif kind == "broadcast":
            s, data = c.build(4, path=b"/o", iface=b"com.example.I", member=b"Sig", sig=b"s", body=[b"payload"], serial=serial)
        elif kind == "reply":
            # the callee answers the outstanding call of the setup: routing the reply consumes the pending-reply entry
            caller = w.clients[op[2]]
            rs = w.outstanding[(op[2], b":1.%d" % op[1])]
            s, data = c.build(2, reply_serial=rs, dest=caller.unique, sig=b"s", body=[b"answer"], serial=serial)
        else:
            raise ValueError(kind)
    c.send_msg(data, serial)
    probe_after = kind in ("addmatch", "removematch")
    # the caller: barrier, then collect everything that answers `serial`
    replies = []
    caller_other = []
    try:
        c.barrier()
    except client.Closed:
        pass
    for rec in c.take_inbox():
        if rec.msg.type in (2, 3) and rec.msg.known().get(5) == serial:
            replies.append(rec)
        else:
            caller_other.append(rec)
    seen = {}
    for i, o in enumerate(w.clients):
        if o is c:
            seen[i] = sorted(summarize(r) for r in caller_other if not is_harness_traffic(r))
            continue
        try:
            o.barrier()
        except client.Closed:
            pass
        seen[i] = sorted(summarize(r) for r in o.take_inbox() if not is_harness_traffic(r))
    if probe_after:
        seen["rule-probes"] = rule_probes(w, op[1])
    if newc is not None:
        seen["new"] = sorted(summarize(r) for r in caller_other if not is_harness_traffic(r))
        # unique names are never reused: a second newcomer says Hello while the first one - whatever its Hello
        # returned - is still connected; it must get a fresh name (the H1 hook additionally asserts that no two
        # registered connections share a name)
        res_first = w.result()
        first_name = replies[0].msg.body[0] if replies and replies[0].msg.type == 2 and replies[0].msg.body else None
        if w.policy and first_name is not None and w.clients:
            # the newcomer's Hello succeeded: its policy must be complete (per-group and per-user sections included)
            verdicts = []
            for iface in PROBE_IFACES:
                try:
                    ps = c.call_async(w.clients[0].unique, b"/o", iface, b"Probe", b"", [], flags=1)
                    c.barrier()
                    got = [r for r in c.take_inbox() if r.msg.type == 3 and r.msg.known().get(5) == ps]
                    verdicts.append((iface, got[0].msg.known().get(4) if got else b"delivered"))
                except (client.Closed, client.Timeout):
                    verdicts.append((iface, b"connection-lost"))
            seen["policy-probes"] = verdicts
        try:
            c2 = client.Client(w.daemon.sock, w.clock)
            c2.auth()
            r2 = c2.hello()
            second_name = r2.msg.body[0] if r2.msg.type == 2 and r2.msg.body else None
            c2.close()
        except (client.Closed, client.Timeout, OSError):
            second_name = None
        known = set(o.unique for o in w.clients)
        if second_name is not None and (second_name == first_name or second_name in known):
            seen["REUSED-UNIQUE-NAME"] = [second_name]
        # wait (bounded) until the bus has processed the second newcomer's disconnect, so that the state dump
        # taken afterwards does not depend on timing
        if second_name is not None and w.clients:
            deadline = time.time() + client.WATCHDOG
            needle = "C %s " % second_name.decode()
            while time.time() < deadline:
                try:
                    st = w.state()
                except (client.Closed, client.Timeout):
                    break
                if st is None or not any(ln.startswith(needle) for ln in st):
                    break
                time.sleep(0.002)
        # drop what the existing clients saw of the second newcomer (NameOwnerChanged of its connect / disconnect)
        for i, o in enumerate(w.clients):
            try:
                o.barrier()
            except client.Closed:
                pass
            o.take_inbox()
        return replies, seen, res_first, newc
    return replies, seen, w.result(), newc


PROBES = [dict(iface=b"com.example.I", member=b"Sig", path=b"/o", sig=b"s", body=[b"payload"]),
          dict(iface=b"a.b", member=b"X", path=b"/a/b", sig=b"sssi", body=[b"0", b"1", b"2", 3]),
          dict(iface=b"com.example.Other", member=b"X", path=b"/a", sig=b"s", body=[b"/a/x"]),
          dict(iface=b"a.b", member=b"Y", path=b"/q", sig=b"ssss", body=[b"0", b"1", b"2", b"z"])]


def rule_probes(w, ci):
    """What the match rules in force do: another connection broadcasts a fixed set of signals (fault off), every client's
    deliveries are recorded.  Rules are opaque in the state dump (only their number is there), so a rule filed in the
    wrong place or half removed shows only here."""
    if len(w.clients) < 2:
        return []
    sender = w.clients[(ci + 1) % len(w.clients)]
    for kw in PROBES:
        _, d = sender.build(4, **kw)
        sender.send_msg(d)
    out = []
    for _ in range(2):
        for o in w.clients:
            try:
                o.barrier()
            except client.Closed:
                pass
    for i, o in enumerate(w.clients):
        got = sorted(summarize(r) for r in o.take_inbox() if not is_harness_traffic(r))
        out.append((i, got))
    return out


def reply_class(replies):
    if not replies:
        return ("none",)
    out = []
    for r in replies:
        if r.msg.type == 3:
            out.append(("error", r.msg.known().get(4)))
        else:
            out.append(("return", tuple(repr(x) for x in r.msg.body[:3])))
    return tuple(out)


A, B = NAMES[0], NAMES[1]
EAVES = ("match", 2, b"eavesdrop='true'")
# decision-table rows that every run must contain (one per shard, before the random cases): name take-overs from an
# owner that leaves the queue (DO_NOT_QUEUE) or stays in it, with and without further waiters, by a newcomer or by a
# waiter; release of a contended name; a waiter that stops waiting
FORCED = [
    ([("connect",)] * 3 + [("request", 0, A, 5), ("request", 1, A, 0)], ("request", 2, A, 2)),
    ([("connect",)] * 3 + [("request", 0, A, 5), ("request", 1, A, 1)], ("request", 2, A, 3)),
    ([("connect",)] * 3 + [("request", 0, A, 1), ("request", 1, A, 0)], ("request", 2, A, 2)),
    ([("connect",)] * 3 + [("request", 0, A, 5)], ("request", 2, A, 2)),
    ([("connect",)] * 3 + [("request", 0, A, 1), ("request", 1, A, 0), ("request", 2, A, 0)], ("release", 0, A)),
    ([("connect",)] * 3 + [("request", 0, A, 5), ("request", 1, A, 0)], ("request", 1, A, 6)),
    ([("connect",)] * 3 + [("request", 0, A, 5), ("request", 1, A, 0), EAVES], ("request", 2, A, 2)),
    ([("connect",)] * 3 + [("request", 0, A, 5), ("request", 1, A, 0), ("request", 2, A, 0)], ("request", 2, A, 2)),
    ([("connect",)] * 4 + [("request", 0, A, 5), ("request", 1, A, 0), ("request", 3, A, 1), ("request", 0, B, 0)], ("request", 2, A, 6)),
    ([("connect",)] * 3 + [("request", 0, A, 4), ("request", 1, B, 1), ("request", 0, B, 0)], ("request", 2, B, 3)),
    ([("connect",)] * 3 + [("call", 0, b":1.1")], ("reply", 1, 0)),
    ([("connect",)] * 2 + [("call", 0, b":1.0")], ("reply", 0, 0)),
    ([("connect",)] * 3 + [("match", 1, b"type='signal'")], ("addmatch", 0, b"type='signal',interface='a.b'")),
    ([("connect",)] * 3 + [("match", 0, b"type='signal',interface='a.b',member='X'")], ("removematch", 0, b"type='signal',interface='a.b',member='X'")),
    ([("connect",)] * 3, ("addmatch", 2, b"interface='com.example.Other',arg0path='/a/'")),
    ([("connect",)] * 3 + [EAVES], ("addmatch", 0, b"type='signal',interface='com.example.I',arg0='payload'")),
]


def gen_case(rng, forced=None):
    """-> (setup steps, op)"""
    if forced is not None:
        setup, op = FORCED[forced % len(FORCED)]
        setup = list(setup)
        nq = sum(1 for st in setup if st[0] == "request")
        return setup, op, (sum(1 for st in setup if st[0] == "connect"), ("forced", forced % len(FORCED)), nq)
    ncl = rng.randint(2, 4)
    setup = [("connect",) for _ in range(ncl)]
    shape = []
    for n in NAMES[:rng.choice([1, 2])]:
        order = list(range(ncl))
        rng.shuffle(order)
        for j, ci in enumerate(order[:rng.randint(0, ncl)]):
            flags = rng.choice([0, 1, 1, 2, 3]) if j else rng.choice([0, 1, 4, 5])
            setup.append(("request", ci, n, flags))
            shape.append(flags)
    rules = []
    for _ in range(rng.randint(0, 3)):
        ci = rng.randrange(ncl)
        text = rng.choice([b"type='signal',interface='com.example.I'", b"type='signal'", b"member='Sig',arg0='payload'",
                           b"path_namespace='/o'", b"eavesdrop='true'", b"type='signal',sender='org.freedesktop.DBus'"])
        setup.append(("match", ci, text))
        rules.append((ci, text))
    pend = None
    if rng.random() < 0.3:
        pend = (rng.randrange(ncl), rng.randrange(ncl))
        setup.append(("call", pend[0], b":1.%d" % pend[1]))
    kind = rng.choice(["hello", "request", "request", "request", "release", "addmatch", "removematch", "call", "usignal", "broadcast"])
    if rng.random() < (1.0 if os.environ.get("VERIF_C14_FORCE_POLICY") else 0.12):
        # Hello on a bus whose policy has per-group and per-user sections
        setup.insert(0, ("policy",))
        kind = "hello"
    ci = rng.randrange(ncl)
    if pend is not None and rng.random() < 0.5:
        kind = "reply"
    if kind == "reply":
        op = ("reply", pend[1], pend[0])
    elif kind == "hello":
        op = ("hello",)
    elif kind == "request":
        op = ("request", ci, rng.choice(NAMES), rng.randint(0, 7))
    elif kind == "release":
        op = ("release", ci, rng.choice(NAMES))
    elif kind == "addmatch":
        op = ("addmatch", ci, rng.choice([b"type='signal',member='X'", b"arg0path='/a/'", b"interface='a.b',arg3='z'", b"bogus",
                                          b"arg0=\\", b"type='signal',arg1='C:\\dir'\\", b"arg2=C:\\"]))
    elif kind == "removematch":
        if rules and rng.random() < 0.8:
            ci, text = rng.choice(rules)
            op = ("removematch", ci, text)
        else:
            op = ("removematch", ci, b"type='signal',member='NotThere'")
    elif kind in ("call", "usignal"):
        dest = rng.choice([NAMES[0], b":1.%d" % rng.randrange(ncl), b"com.example.Nobody"])
        op = (kind, ci, dest)
    else:
        op = ("broadcast", ci)
    return setup, op, (ncl, tuple(shape), len(rules))


def op_class(setup, op, pre):
    """stable sub-class of the operation for violation keys: the specification's decision-table row for name
    operations (computed by the names model from the state dump), and whether somebody eavesdrops"""
    from vf.models import names as nm
    eav = any(s[0] == "match" and b"eavesdrop='true'" in s[2] for s in setup)
    cls = op[0]
    if op[0] in ("request", "release"):
        m = nm.Names()
        for ln in pre:
            if ln.startswith("N ") and not ln.startswith("N :"):
                parts = ln.split()
                m.q[parts[1].encode()] = [[e.split("/")[0].encode(), e.split("/")[1] == "1", e.split("/")[2] == "1"] for e in parts[2:]]
        me = b":1.%d" % op[1]
        if op[0] == "request":
            q0 = list(m.q.get(op[2]) or [])
            row = m.request(me, op[2], op[3])[2]
            if row == "replace" and q0 and q0[0][2]:
                # the replaced owner does not queue: it is removed (not moved to second place) - another code path with
                # its own undo hook; whether others are waiting matters for the undo
                row = "replace-owner-leaves" + (":with-waiters" if len(q0) > 1 else "")
            if row.startswith("replace") and any(e[0] == me for e in q0):
                row += ":by-waiter"       # the requester's own queue entry is re-linked first (no undo for that: known)
        else:
            row = m.release(me, op[2])[2]
        cls += ":" + row
    elif op[0] in ("call", "usignal"):
        cls += ":" + ("unique" if op[2][:1] == b":" else ("nobody" if op[2].endswith(b"Nobody") else "name"))
    if any(st[0] == "policy" for st in setup):
        cls += ":group-policy"
    return cls + (":eavesdropped" if eav else "")


def run_case(b, rundir, rng, part, cid, max_k=None, pair_limit=0, forced=None):
    setup, op, shape = gen_case(rng, forced)
    if forced is not None:
        part.count("forced-decision-rows")
    wit = {"case": cid, "setup": [repr(s) for s in setup], "op": repr(op)}
    # ---- reference (fault-free) run
    w = World(b, rundir, setup, "ref")
    try:
        pre = w.state()
        ocls = op_class(setup, op, pre)
        pre_probes = rule_probes(w, op[1]) if op[0] in ("addmatch", "removematch") else None
        if pre_probes is not None:
            part.count("rule-probe-rounds")
        replies, seen, res, newc = do_op(w, op, 1 << 30)
        post = w.state()
        ref = (reply_class(replies), seen, post)
        if newc is not None:
            newc.close()
        if res is None:
            part.inconclusive.append("hook H2 produced no result for %r (is the tree built with the guard?)" % (op,))
            return
        fired, n_alloc = res
    finally:
        probs = w.close()
    for cls, site, text in probs:
        part.violation("%s:%s:%s" % (PROP, cls, site), "daemon reported %s in the fault-free run" % cls, dict(wit, stderr=text[-2500:]))
    if len(ref[0]) > 1 and op[0] == "removematch":
        return   # known C07 finding (two replies): not an OOM matter, skip this operation
    part.count("allocations-enumerated", n_alloc)
    part.count("op:" + ocls)
    ks = [(k, 1, -1) for k in (range(n_alloc) if max_k is None else range(min(n_alloc, max_k)))]
    # pairs: every burst of two consecutive failures, and (short operations / sampled) every pair (k1, k2)
    if max_k is None:
        ks += [(k, 2, -1) for k in range(n_alloc)]
        ks += [(k, 3, -1) for k in range(0, n_alloc, 3)]
        if n_alloc <= pair_limit:
            ks += [(k1, 1, d) for k1 in range(n_alloc) for d in range(1, n_alloc - k1)]
        else:
            for _ in range(60):
                k1 = rng.randrange(n_alloc)
                ks.append((k1, 1, rng.randrange(0, max(1, n_alloc - k1))))
    w = World(b, rundir, setup, "k")
    dirty = False
    try:
        for (k, nfail, second) in ks:
            if dirty:
                probs = w.close()
                for cls, site, text in probs:
                    part.violation("%s:%s:%s:%s" % (PROP, _norm(cls), site, ocls), "daemon reported %s" % cls, dict(wit, k=k - 1, stderr=text[-2500:]))
                shutil.rmtree(w.rundir, ignore_errors=True)
                w = World(b, rundir, setup, "k")
                dirty = False
                part.count("state-rebuilds")
            if not w.daemon.alive():
                dirty = True
                continue
            pre_k = w.state()
            if pre_k != pre:
                part.inconclusive.append("prior state not reproducible for case %r" % (cid,))
                return
            try:
                replies, seen, res, newc = do_op(w, op, k, nfail, second)
                post_k = w.state()
            except (client.Timeout, client.Closed) as e:
                dirty = True
                for _ in range(40):        # an aborting daemon needs a moment to print its backtrace and die
                    if not w.daemon.alive():
                        break
                    time.sleep(0.05)
                if not w.daemon.alive():
                    # the reason is in the daemon's stderr and is reported (with this operation class) when it is reaped
                    part.count("daemon-died-during-k")
                    pending_died = (k, ocls)
                else:
                    part.violation("%s:hang:%s" % (PROP, ocls), "no progress after failing allocation %d (%s)" % (k, type(e).__name__), dict(wit, k=k))
                continue
            part.evaluations += 1
            rc = reply_class(replies)
            wk = dict(wit, k=k, nfail=nfail, second=second, replies=repr(rc), result=res)
            if "REUSED-UNIQUE-NAME" in seen:
                part.violation("%s:unique-name-reused-after-failed-hello" % PROP,
                               "a connection that said Hello after a Hello that failed under OOM was given a unique name that is in use", wk)
                seen.pop("REUSED-UNIQUE-NAME")
            part.count("faults:single" if (nfail == 1 and second < 0) else ("faults:burst" if second < 0 else "faults:pair"))
            if newc is not None:
                # a Hello that failed leaves an unregistered connection behind: close it and let the bus notice
                newc.close()
                dirty = True
            fired_k = res[0] if res else None
            if fired_k == 0:
                part.count("fault-not-reached")
            if (rc, seen, post_k) == ref:
                part.count("world:succeeded")
                part.sig(ocls, shape, "succeeded")
                dirty = dirty or (post_k != pre)
                continue
            state_same = (post_k == pre) or (op[0] == "hello" and _same_but_incomplete(post_k, pre))
            probes_k = seen.pop("rule-probes", None)
            if probes_k is not None and probes_k != pre_probes:
                state_same = False      # the rules in force behave differently than before the failed request
            others_quiet = all(not v for kk, v in seen.items())   # (no policy probes are sent after a failed Hello)
            one_nomem = (rc == (("error", NOMEM),))
            if state_same and others_quiet and one_nomem:
                part.count("world:failed-cleanly")
                part.sig(ocls, shape, "failed")
                continue
            # in between: classify
            dirty = True
            if one_nomem and not state_same:
                key = "state-changed-but-NoMemory:%s" % ocls
                what = "caller got NoMemory but the state changed"
                wk["pre"] = list(pre)
                wk["post"] = list(post_k)
            elif one_nomem and not others_quiet:
                key = "signals-sent-but-NoMemory:%s" % ocls
                what = "caller got NoMemory but other clients received messages"
                wk["seen"] = repr(seen)
            elif rc == ("none",):
                key = "no-reply:%s" % ocls
                what = "the caller received no reply at all (state %s)" % ("unchanged" if state_same else "changed")
            elif len(rc) > 1:
                key = "several-replies:%s" % ocls
                what = "the caller received %d replies" % len(rc)
            elif rc == ref[0]:
                key = "partial-effects:%s" % ocls
                what = "reply as in the fault-free run but state or signals differ from it"
                wk["post"] = list(post_k)
                wk["ref_post"] = list(ref[2])
                wk["seen"] = repr(seen)
                wk["ref_seen"] = repr(ref[1])
            else:
                key = "other-outcome:%s" % ocls
                what = "outcome is neither the fault-free one nor a clean NoMemory failure: %r" % (rc,)
            part.violation("%s:%s" % (PROP, key), what, wk)
            part.sig(ocls, shape, key)
    finally:
        probs = w.close()
        for cls, site, text in probs:
            part.violation("%s:%s:%s:%s" % (PROP, _norm(cls), site, ocls), "daemon reported %s" % cls, dict(wit, stderr=text[-2500:]))
        shutil.rmtree(os.path.join(rundir, "k"), ignore_errors=True)
        shutil.rmtree(os.path.join(rundir, "ref"), ignore_errors=True)
    part.count("cases")


def _stub_log(path):
    try:
        with open(path) as fh:
            return fh.read().split("\n")
    except OSError:
        return []


def activation_run(b, rundir, k, nfail, held_kinds, part, wit):
    """One fresh bus: three auto-start messages are held for a service whose stub is waiting at its gate; the fault is
    armed for the dispatch of the stub's RequestName; the gate opens; the stub retries on NoMemory.  Returns
    (result of hook H2, observations) or None when the run could not be set up."""
    from checks import c19
    os.makedirs(rundir, exist_ok=True)
    os.chmod(rundir, 0o755)
    svcdir = os.path.join(rundir, "services")
    os.makedirs(svcdir, exist_ok=True)
    name = b"com.example.ActOom"
    logp = os.path.join(rundir, "stub.log")
    with open(os.path.join(svcdir, "act.service"), "w") as fh:
        fh.write("[D-BUS Service]\nName=%s\nExec=%s %s gate-quick %s %s\n" % (name.decode(), c19.PYTHON, c19.STUB, name.decode(), logp))
    ctl, trace = os.path.join(rundir, "ctl"), os.path.join(rundir, "trace")
    d = busproc.Daemon(b, rundir, busproc.make_config("@SOCK@", servicedirs=[svcdir], limits={"service_start_timeout": 25000}), name="act",
                       env={"DBUS_VERIF_CTL": ctl, "DBUS_VERIF_TRACE": trace})
    obs = None
    try:
        if not d.started():
            part.inconclusive.append("activation: daemon did not start")
            return None
        clk = client.Clock()
        senders = [client.connect(d.sock, clk), client.connect(d.sock, clk)]
        sent = []
        for i, kind in enumerate(held_kinds):
            c = senders[i % 2]
            tok = b"Held%d" % i
            if kind == "signal":
                ser = c.next_serial()
                _, data = c.build(4, path=c19.ACT_PATH, iface=c19.ACT_IFACE, member=b"Sig", dest=name, sig=b"s", body=[tok], serial=ser)
            else:
                ser = c.next_serial()
                _, data = c.build(1, path=c19.ACT_PATH, iface=c19.ACT_IFACE, member=b"Call", dest=name, sig=b"s", body=[tok], serial=ser,
                                  flags=1 if kind == "call-noreply" else 0)
            c.send_msg(data, ser)
            c.barrier()                      # arrival order at the bus = this order
            sent.append((i % 2, ser, kind, tok))
        deadline = time.time() + client.WATCHDOG
        uniq = wser = None
        while time.time() < deadline and wser is None:
            for ln in _stub_log(logp):
                f = ln.split()
                if f[:1] == ["connected"]:
                    uniq = f[1]
                if f[:1] == ["will-request"]:
                    wser = int(f[1])
            if wser is None:
                time.sleep(0.01)
        if wser is None or uniq is None:
            part.inconclusive.append("activation: the stub did not reach its gate")
            return None
        tmp = ctl + ".tmp"
        with open(tmp, "w") as fh:
            fh.write("%d %s %u %d %d\n" % (k, uniq, wser, nfail, -1))
        os.rename(tmp, ctl)
        open(logp + ".go", "w").close()
        got_name = False
        nomem = 0
        while time.time() < deadline and not got_name:
            nomem = 0
            for ln in _stub_log(logp):
                f = ln.split()
                if f[:1] == ["acquired"] and len(f) >= 3:
                    if f[2] == "1":
                        got_name = True
                    elif "NoMemory" in f[2]:
                        nomem += 1
            if not got_name:
                time.sleep(0.01)
        # everybody's round-trips: what was held has been delivered (and logged by the single-threaded stub) or refused
        for c in senders:
            c.barrier()
        probe = senders[0].call(name, c19.ACT_PATH, c19.ACT_IFACE, b"Call", b"s", [b"after"]) if got_name else None
        for c in senders:
            c.barrier()
        delivered = []
        for ln in _stub_log(logp):
            f = ln.split()
            if f[:1] == ["msg"] and len(f) >= 7 and f[6].startswith("Held"):
                delivered.append(f[6])
        errors = {}
        for si, ser, kind, tok in sent:
            errs = [r for r in senders[si].log if r.msg.type == 3 and r.msg.known().get(5) == ser and r.msg.known().get(7) == b"org.freedesktop.DBus"]
            errors[tok.decode()] = [(r.msg.known().get(4) or b"?").decode() for r in errs]
        try:
            with open(ctl + ".result") as fh:
                f = fh.read().split()
            res = (int(f[-2]), int(f[-1]))
        except (OSError, ValueError, IndexError):
            res = None
        for c in senders:
            c.close()
        return res, {"got_name": got_name, "nomem_replies": nomem, "delivered": delivered, "errors": errors,
                     "sent": [t.decode() for _, _, _, t in sent], "probe_ok": bool(probe is not None and probe.msg.type == 2)}
    except (client.Closed, client.Timeout) as e:
        return "hang", {"error": type(e).__name__}
    finally:
        d.stop()
        for cls, site, text in d.problems():
            part.violation("%s:%s:%s:activation" % (PROP, _norm(cls), site), "daemon reported %s while the activated service requested its name (k=%d)" % (cls, k),
                           dict(wit, k=k, stderr=text[-2500:]))
        for ln in _stub_log(os.path.join(rundir, "stub.log")):
            if ln.startswith("started "):
                try:
                    os.kill(int(ln.split()[1]), 9)
                except (OSError, ValueError):
                    pass
        shutil.rmtree(rundir, ignore_errors=True)


def activation_part(b, rundir, seed, shard, nshards, part):
    """RequestName of an activated service with held messages waiting, under every failing allocation k = shard mod
    nshards: afterwards (the stub retries on NoMemory) every held message has been delivered exactly once, in arrival
    order, or its sender has exactly one error - never neither, never both."""
    rng = gen.rng_for(seed, PROP, "activation")
    held_kinds = [rng.choice(["call", "call-noreply", "signal"]) for _ in range(3)]
    if "call" not in held_kinds:
        held_kinds[0] = "call"
    wit = {"part": "activation", "held": held_kinds, "seed": seed}
    ref = activation_run(b, os.path.join(rundir, "act-ref"), 1 << 30, 1, held_kinds, part, wit)
    if ref is None or ref[0] in (None, "hang"):
        part.inconclusive.append("activation: no reference run (%r)" % (ref,))
        return
    n_alloc = ref[0][1]
    if ref[1]["delivered"] != ref[1]["sent"] or any(ref[1]["errors"].values()):
        part.violation("%s:activation:reference-run-wrong" % PROP, "without any fault the held messages were not delivered once in order: %r" % (ref[1],), wit)
        return
    part.count("activation:allocations-of-the-RequestName-dispatch", n_alloc if shard == 0 else 0)
    for k in range(shard, n_alloc, nshards):
        for nfail in (1, 2):
            out = activation_run(b, os.path.join(rundir, "act-k"), k, nfail, held_kinds, part, wit)
            if out is None:
                continue
            res, o = out
            wk = dict(wit, k=k, nfail=nfail, observed=o)
            part.evaluations += 1
            part.count("activation:runs")
            if res == "hang":
                part.violation("%s:activation:hang" % PROP, "no progress after allocation %d of the activated service's RequestName failed" % k, wk)
                continue
            if o["nomem_replies"]:
                part.count("activation:RequestName-cancelled-and-retried")
            if not o["got_name"]:
                part.violation("%s:activation:name-not-acquired-on-retry" % PROP, "the service did not get its name although it retried after NoMemory", wk)
                continue
            order = [t for t in o["sent"] if t in o["delivered"]]
            if [t for t in o["delivered"] if o["delivered"].count(t) > 1]:
                part.violation("%s:activation:held-message-delivered-twice" % PROP, "a held message reached the service more than once: %r" % o["delivered"], wk)
            elif o["delivered"] != order:
                part.violation("%s:activation:held-messages-out-of-order" % PROP, "held messages arrived as %r, sent as %r" % (o["delivered"], o["sent"]), wk)
            for t in o["sent"]:
                nd, ne = o["delivered"].count(t), len(o["errors"].get(t, []))
                if nd == 0 and ne == 0:
                    part.violation("%s:activation:held-message-lost%s" % (PROP, ":after-cancelled-RequestName" if o["nomem_replies"] else ""),
                                   "held message %s was neither delivered to the service nor answered with an error (RequestName got NoMemory "
                                   "%d time(s) and was retried)" % (t, o["nomem_replies"]), wk)
                elif nd and ne:
                    part.violation("%s:activation:held-message-delivered-and-errored" % PROP, "held message %s was delivered and its sender got %r" % (t, o["errors"][t]), wk)
                elif ne > 1:
                    part.violation("%s:activation:held-message-errored-%d-times" % (PROP, ne), "sender of %s got %r" % (t, o["errors"][t]), wk)
                else:
                    part.count("activation:held-message-%s" % ("delivered" if nd else "errored"))
            part.sig("activation", tuple(held_kinds), bool(o["nomem_replies"]), tuple(sorted((t, o["delivered"].count(t), len(o["errors"].get(t, []))) for t in o["sent"])))


def periodic_fault_order(b, rundir, rng, part, cid):
    """Every N-th allocation of the whole bus process fails (DBUS_MALLOC_FAIL_NTH): a sender pipelines numbered calls to
    one recipient.  Whatever arrives must arrive in sending order and at most once (a message whose dispatch ran out of
    memory is retried or refused - it never overtakes or falls behind its neighbours).  Only what arrives is judged;
    completeness is not (refusals with NoMemory are legitimate, and a bus that dies or stalls here is counted, not judged)."""
    n_th = rng.choice([1248, 1372, 1530, 1800, rng.randint(1100, 2600)])
    d = busproc.Daemon(b, rundir, busproc.make_config("@SOCK@"), name="pf", env={"DBUS_MALLOC_FAIL_NTH": str(n_th)}, leaks=False)
    wit = {"part": "periodic-fault-order", "case": cid, "fail_nth": n_th}
    try:
        if not d.started():
            part.count("periodic:bus-did-not-start(not judged)")
            return

        def join():
            for attempt in range(4):
                try:
                    return join1()
                except (client.Closed, client.Timeout, OSError):
                    if attempt == 3:
                        raise
            raise client.Closed("unreachable")

        def join1():
            c = client.Client(d.sock)
            c.sock.settimeout(2.0)
            c.auth()
            c.sock.settimeout(2.0)          # nothing here may block for good: the bus can go to sleep under these faults
            for _ in range(4):
                ser = c.bus_call_async(b"Hello")
                r = c.wait_reply(ser, timeout=3.0, sender=b"org.freedesktop.DBus")
                if r.msg.type == 2:
                    c.unique = r.msg.body[0]
                    return c
            raise client.Closed("Hello kept failing")
        try:
            R, S, K = join(), join(), join()
        except (client.Closed, client.Timeout, OSError):
            part.count("periodic:could-not-connect(not judged)")
            return
        total = rng.choice([1500, 3000])
        tag = b"PF%d-" % cid
        sent = 0
        got = []
        deadline = time.time() + 25
        while sent < total and time.time() < deadline:
            burst = b""
            for _ in range(50):
                _, data = S.build(1, path=b"/pf", iface=b"com.example.PF", member=b"M", dest=R.unique, sig=b"su", body=[tag, sent], flags=1)
                burst += data
                sent += 1
            try:
                S.send_bytes(burst)
            except OSError:
                break
            R.pump(timeout=0.002)
            if sent % 500 == 0:
                try:
                    K.bus_call_async(b"GetId")        # wakes a bus that sleeps after a failed read
                except (client.Closed, OSError):
                    pass
        quiet = 0
        while quiet < 15 and time.time() < deadline:
            n0 = len(R.log) + len(R.inbox)
            R.pump(timeout=0.05)
            try:
                K.bus_call_async(b"GetId")
                K.pump()
            except (client.Closed, OSError):
                pass
            quiet = quiet + 1 if len(R.log) + len(R.inbox) == n0 else 0
        for rec in R.log:
            m = rec.msg
            if m.type == 1 and len(m.body) == 2 and m.body[0] == tag:
                got.append(m.body[1])
        part.count("periodic:cases")
        part.count("periodic:calls-sent", sent)
        part.count("periodic:calls-arrived", len(got))
        part.evaluations += 1
        bad = [(a, b2) for a, b2 in zip(got, got[1:]) if b2 <= a]
        if bad:
            dup = any(b2 == a for a, b2 in bad) or len(set(got)) != len(got)
            part.violation("%s:periodic-faults:%s" % (PROP, "delivered-twice" if dup else "out-of-order"),
                           "with every %d-th allocation of the bus failing, the recipient read call #%d and then call #%d of one "
                           "sender's pipelined stream (%d of %d arrived)" % (n_th, bad[0][0], bad[0][1], len(got), sent), dict(wit, inversions=bad[:10]))
        part.sig("periodic", n_th % 7, len(got) * 10 // max(1, sent))
        for c in (R, S, K):
            try:
                c.close()
            except Exception:
                pass
    except (client.Closed, client.Timeout):
        part.count("periodic:connection-lost(not judged)")
    finally:
        d.stop()
        if not d.problems():
            pass
        else:
            part.count("periodic:bus-reported-a-problem(not judged)", len(d.problems()))
        shutil.rmtree(rundir, ignore_errors=True)


def _norm(cls):
    import re
    return re.sub(r"com\.example\.[A-Za-z]+", "NAME", cls)


def _same_but_incomplete(post, pre):
    """after a failed Hello the only permitted difference is the still-unregistered connection in the counters"""
    a = [x for x in post if not x.startswith("T ")]
    b = [x for x in pre if not x.startswith("T ")]
    return a == b


def _worker(args):
    seed, shard, count, max_k, pair_limit = args
    part = report.Part()
    b = build.build("asan", quiet=True)
    rundir = tempfile.mkdtemp(prefix="verif-c14-")
    try:
        for i in range(count):
            cid = shard * 100000 + i
            rng = gen.rng_for(seed, PROP, shard, i)
            try:
                run_case(b, os.path.join(rundir, "c%d" % i), rng, part, cid, max_k, pair_limit if i % 4 == 0 else 0,
                         forced=shard if i == 0 else (shard + 16 if i == 1 and count > 16 else None))
            except (client.Timeout, client.Closed, RuntimeError) as e:
                part.inconclusive.append("case %d aborted: %s %s" % (cid, type(e).__name__, e))
            shutil.rmtree(os.path.join(rundir, "c%d" % i), ignore_errors=True)
            if i == 1 and shard < 6:
                try:
                    periodic_fault_order(b, os.path.join(rundir, "pf"), gen.rng_for(seed, PROP, "periodic", shard), part, shard)
                except (client.Timeout, client.Closed, RuntimeError, OSError) as e:
                    part.count("periodic:aborted(not judged)")
            if i == 0:
                try:
                    activation_part(b, os.path.join(rundir, "act"), seed, shard, 16, part)
                except (client.Timeout, client.Closed, RuntimeError, OSError) as e:
                    part.inconclusive.append("activation part aborted: %s %s" % (type(e).__name__, e))
            if shard == 0 and 2 <= i < 4:
                s, op, shape = gen_case(gen.rng_for(seed, PROP, shard, i))
                part.sample({"case": cid, "setup": [repr(x) for x in s], "op": repr(op)})
    finally:
        shutil.rmtree(rundir, ignore_errors=True)
    return part


def run(tier, seed, replay=None, scale=1.0):
    r = report.Run(PROP, tier, level="fault_enumeration")
    r.rule = RULE
    b = build.build("asan")
    r.builds.append(b.info())
    if replay:
        j = json.load(open(replay))
        if str(j.get("key", "")).startswith("C14:lib:"):
            from checks import c14lib
            c14lib.replay(r, b, j["witness"])
            return r.finish()
        cid = j["witness"]["case"]
        shard, i = divmod(cid, 100000)
        part = report.Part()
        rundir = tempfile.mkdtemp(prefix="verif-c14-")
        try:
            run_case(b, rundir, gen.rng_for(j["seed"], PROP, shard, i), part, cid, None, 80,
                     forced=shard if i == 0 else (shard + 16 if i == 1 and j.get("tier") == "thorough" else None))
        finally:
            shutil.rmtree(rundir, ignore_errors=True)
        part.sig("replay", 0)
        r.merge(part)
        return r.finish()
    total = int((128 if tier == "quick" else 4000) * scale)
    per = max(1, total // 16)
    pair_limit = 45 if tier == "quick" else 80
    for part in report.run_sharded(_worker, [(seed, i, per, None, pair_limit) for i in range(16)]):
        r.merge(part)
    # library-level part: message copy / edit / build / demarshal / loader (with descriptors) / match-rule parse
    from checks import c14lib
    c14lib.run_part(r, b, tier, seed, scale)
    r.extra["exhaustive"] = False
    r.extra["k_enumeration"] = "exhaustive 0..N-1 for every sampled (state, operation)"
    if scale >= 1:
        r.require("world:failed-cleanly", 500)
        r.require("world:succeeded", 20)
        r.require("cases", 50)
    r.assumptions = ["only dbus_malloc-family allocations are failed (libc-internal allocations are not)",
                     "bus part: the fault window is the dispatch of the operation's message in the bus (hook H2); library part: libdbus' own injector around one library call in an in-process harness",
                     "leaks are detected by LeakSanitizer at graceful daemon exit (attributed to a case, not to one k)",
                     "RemoveMatch of a rule that is not held is skipped here (two replies already without any fault: known C07 finding)"]
    return r.finish()
