"""C14, library part: message copy / header edit / construction / demarshal / loader (with descriptors) /
match-rule parse under libdbus' own allocation-failure injector, every failing allocation enumerated.

Called by checks/c14.py:   run_part(r, b, tier, seed, scale)
Stand-alone (scratch):     python3 -m checks.c14lib [quick|thorough] [seed] [scale]
"""
import collections
import json
import re
import struct
import sys

from vf import build, gen, hrun, msgoracle, report, wire
from vf.wire import Variant

from checks import c02, c07, c12

PROP = "C14"
NOMEM = "org.freedesktop.DBus.Error.NoMemory"
OPS = ("copy", "edit", "build", "demarshal", "loader", "matchrule", "config", "fdappend")

RULE_LIB = ("library part (harness/h_oom.c, libdbus' own injector _dbus_set_fail_alloc_counter / _failures): for every "
            "case the index k of the failing dbus_malloc/realloc is enumerated 0,1,2,... until the operation completes "
            "without the fault firing, once with single failures and once with bursts of two; every run starts on a "
            "library that was just shut down (optionally warmed: message cache + global locks present) and ends with "
            "dbus_shutdown(), after which _dbus_get_malloc_blocks_outstanding() must be back at the baseline. "
            "Operations: dbus_message_copy (incl. messages holding descriptors), every step of header edit scripts "
            "(FALSE => marshalled bytes identical to before, TRUE => equal to the fault-free reference; retry and the "
            "rest of the script must reach the reference), construction programs (failure => containers abandoned, "
            "message dropped, retry gives the reference bytes), dbus_message_demarshal (NULL+NoMemory or the reference "
            "message), DBusMessageLoader fed like the socket transport with 1-2 messages carrying 0-3 descriptors "
            "(queue_messages retried while FALSE; popped messages == reference, loader not corrupted, every delivered "
            "descriptor is the same open file (st_dev/st_ino) as sent, canary descriptors opened after each failure "
            "survive, open-descriptor count back at baseline), bus_match_rule_parse (NULL+NoMemory or the reference "
            "verdict), dbus_message_demarshal of bytes the parser rejects (NoMemory or the same rejection, never a message), "
            "bus_config_load of generated configuration files with every element kind, a generated policy and sometimes one "
            "mistake (NULL+NoMemory, or the reference error, or a parser whose getters - type, user, addresses, mechanisms, "
            "service/include directories, all limits, flags, the policy's verdict on four uids - equal the fault-free load)")

_ENV_BASE = {"ASAN_OPTIONS": hrun.SAN_ENV["ASAN_OPTIONS"] + ":quarantine_size_mb=32"}


class _FakeClient(object):
    def __init__(self, unique):
        self.unique = unique


_CLIENTS = [_FakeClient(b":1.%d" % i) for i in (7, 12, 113)]


# ----------------------------------------------------------------------------- generation

def _small_message(rng, order=None, maxdepth=2):
    """Encoded valid message of moderate size (bounded number of allocations)."""
    for _ in range(50):
        m = gen.rand_message(rng, order=order, maxdepth=maxdepth, mtype=rng.choice([1, 2, 3, 4]),
                             extra_unknown=rng.random() < 0.5)
        data = gen.encode(m)
        if len(data) <= 600 and wire.validate(data).kind == wire.VALID:
            return data
    return wire.encode_message(4, [(1, Variant(b"o", b"/a")), (2, Variant(b"s", b"a.b")), (3, Variant(b"s", b"M"))], b"", [])


_FD_SHAPES = [
    (b"h", lambda ix: [ix[0]], 1),
    (b"hh", lambda ix: [ix[0], ix[1]], 2),
    (b"hsh", lambda ix: [ix[0], b"mid", ix[1]], 2),
    (b"hhh", lambda ix: [ix[0], ix[1], ix[2]], 3),
    (b"ah", lambda ix: [list(ix)], 0),
    (b"(hs)", lambda ix: [(ix[0], b"x")], 1),
    (b"a{sh}", lambda ix: [[(b"k%d" % n, i) for n, i in enumerate(ix)]], 0),
    (b"vh", lambda ix: [Variant(b"h", ix[0]), ix[1]], 2),
    (b"ua(hy)", lambda ix: [7, [(i, 1) for i in ix]], 0),
]


def _fd_message(rng, order=None):
    """(bytes, nfds): a valid message whose body refers to nfds descriptors (indices in shuffled order)."""
    sig, mk, need = rng.choice(_FD_SHAPES)
    n = need or rng.randint(1, 3)
    ix = list(range(n))
    if rng.random() < 0.4:
        rng.shuffle(ix)
    body = mk(ix)
    fields = gen.rand_fields(rng, rng.choice([1, 4]), extra_unknown=False)
    mtype = 1 if any(c == 3 for c, _ in fields) and not any(c == 2 for c, _ in fields) else None
    # keep it simple: a method call or signal with its required fields
    mtype = rng.choice([1, 4])
    fields = gen.rand_fields(rng, mtype, full=rng.choice([None, False]), extra_unknown=False)
    fields.append((wire.F_UNIX_FDS, Variant(b"u", n)))
    fields.append((wire.F_SIGNATURE, Variant(b"g", sig)))
    rng.shuffle(fields)
    data = wire.encode_message(mtype, fields, sig, body, rng.choice([1, 2, 77, 0xFFFFFFFF]), rng.choice([0, 1, 2]),
                               order or rng.choice("lB"), add_signature=False)
    r = wire.validate(data, n)
    if r.kind != wire.VALID:
        raise RuntimeError("fd message generator produced %r" % r)
    return data, n


_DICT_SHAPES = [
    (b"a{ss}", lambda: [[(b"k", b"v")]]),
    (b"a{sv}", lambda: [[(b"k", Variant(b"u", 5))]]),
    (b"ia{us}", lambda: [3, []]),
    (b"(a{ss})", lambda: [([(b"a", b"b"), (b"c", b"d")],)]),
    (b"a{s(ii)}", lambda: [[(b"k", (1, 2))]]),
    (b"aa{yy}s", lambda: [[[(1, 2)], []], b"x"]),
    (b"v", lambda: [Variant(b"a{ss}", [(b"k", b"v")])]),
    (b"sv", lambda: [b"x", Variant(b"a{sv}", [])]),
    (b"g", lambda: [b"a{ss}"]),
    (b"ag", lambda: [[b"i", b"a{s(ii)}"]]),
]


def _invalid_message(rng):
    """Bytes the fault-free parser must reject: a valid message whose signature text (header field, a variant's or a
    'g' value) is damaged somewhere after a container opens, or a randomly corrupted valid message."""
    for _ in range(40):
        if rng.random() < 0.7:
            sig, mk = rng.choice(_DICT_SHAPES)
            mtype = rng.choice([1, 4])
            fields = gen.rand_fields(rng, mtype, full=rng.choice([None, False]), extra_unknown=False)
            data = bytearray(wire.encode_message(mtype, fields, sig, mk(), rng.choice([1, 77]), 0, rng.choice("lB")))
            spots = [m.start() for m in re.finditer(rb"a\{|\(", bytes(data))]
            if not spots:
                continue
            at = rng.choice(spots)
            end = bytes(data).find(b"\0", at)
            if end < 0 or end - at < 3:
                continue
            pos = rng.randrange(at + 2, end)
            data[pos] = rng.choice(b"}{()szzaiv\x00\x7f")
            data = bytes(data)
        else:
            m = gen.rand_message(rng, maxdepth=3, mtype=rng.choice([1, 2, 3, 4]))
            base, sites = gen.encode(m, want_sites=True)
            if len(base) > 600:
                continue
            data, _cls = gen.corrupt(rng, base, sites)
        r = wire.validate(data, 0)
        if r.kind == wire.INVALID and len(data) <= 700:
            return data
    return bytes.fromhex("6c01000100000000010000000000000000")


_LIMIT_NAMES = ["max_incoming_bytes", "max_incoming_unix_fds", "max_outgoing_bytes", "max_outgoing_unix_fds", "max_message_size",
                "max_message_unix_fds", "service_start_timeout", "auth_timeout", "pending_fd_timeout", "max_completed_connections",
                "max_incomplete_connections", "max_connections_per_user", "max_pending_service_starts", "max_names_per_connection",
                "max_match_rules_per_connection", "max_replies_per_connection", "reply_timeout", "max_containers",
                "max_containers_per_user", "max_connections_per_container", "max_container_metadata_bytes"]


def _config_text(rng):
    """A bus configuration file: every element kind the parser knows, a generated policy, sometimes one mistake."""
    from checks import c06
    out = ['<!DOCTYPE busconfig PUBLIC "-//freedesktop//DTD D-Bus Bus Configuration 1.0//EN" '
           '"http://www.freedesktop.org/standards/dbus/1.0/busconfig.dtd">', "<busconfig>"]
    body = []
    if rng.random() < 0.6:
        body.append("<type>%s</type>" % rng.choice(["session", "system", "custom"]))
    if rng.random() < 0.3:
        body.append("<user>%s</user>" % rng.choice(["root", "daemon", "messagebus", "0"]))
    for flag in ("fork", "syslog", "keep_umask", "allow_anonymous", "standard_session_servicedirs", "standard_system_servicedirs"):
        if rng.random() < 0.2:
            body.append("<%s/>" % flag)
    if rng.random() < 0.3:
        body.append("<pidfile>/run/verif-%d.pid</pidfile>" % rng.randint(0, 99))
    if rng.random() < 0.3:
        body.append("<servicehelper>/usr/lib/verif/helper%d</servicehelper>" % rng.randint(0, 9))
    for _ in range(rng.choice([0, 1, 1, 2, 3])):
        body.append("<listen>%s</listen>" % rng.choice(["unix:path=/tmp/verif-none-%d" % rng.randint(0, 99), "unix:tmpdir=/tmp",
                                                         "tcp:host=localhost,port=0", "unix:abstract=verif%d" % rng.randint(0, 99)]))
    for _ in range(rng.choice([0, 0, 1, 2, 3])):
        body.append("<auth>%s</auth>" % rng.choice(["EXTERNAL", "DBUS_COOKIE_SHA1", "ANONYMOUS"]))
    for _ in range(rng.choice([0, 1, 2, 4])):
        body.append("<servicedir>/nonexistent/verif/services%d</servicedir>" % rng.randint(0, 5))
    for _ in range(rng.choice([0, 0, 1, 2])):
        body.append("<includedir>/nonexistent/verif/conf%d.d</includedir>" % rng.randint(0, 5))
    if rng.random() < 0.3:
        body.append('<include ignore_missing="yes">/nonexistent/verif/extra%d.conf</include>' % rng.randint(0, 5))
    for name in rng.sample(_LIMIT_NAMES, rng.choice([0, 1, 3, 6, len(_LIMIT_NAMES)])):
        body.append('<limit name="%s">%d</limit>' % (name, rng.choice([0, 1, 7, 1000, 65536, 2 ** 31 - 1])))
    if rng.random() < 0.25:
        body.append('<selinux><associate own="com.example.S%d" context="system_u:object_r:verif_t:s0"/></selinux>' % rng.randint(0, 9))
    if rng.random() < 0.2:
        body.append('<apparmor mode="%s"/>' % rng.choice(["disabled", "enabled"]))
    try:
        users = c06._users()
        blocks = c06.gen_blocks(rng, c06._values(rng), users[:rng.randint(1, len(users))], users, rng.random() < 0.3)
        from vf.models import policy as pm
        body.append(pm.render(blocks))
    except Exception:
        body.append('<policy context="default"><allow user="*"/><allow own="*"/><deny send_interface="a.b" send_member="C"/></policy>')
    r = rng.random()
    if r < 0.25:
        # one mistake: the fault-free parser must reject the file, and so must every faulted run (or report NoMemory)
        body.insert(rng.randint(0, len(body)), rng.choice([
            '<limit name="no_such_limit">5</limit>', '<limit name="max_message_size">-3</limit>', "<nonsense/>",
            '<policy context="default"><allow send_member="X" receive_member="Y"/></policy>', '<policy user="no-such-user-verif"><deny/></policy>',
            '<policy context="never"><allow own="*"/></policy>', "<listen></listen><listen>", '<policy context="default"><allow own="*" own_prefix="a.b"/></policy>',
            '<auth>EXTERNAL', '<limit>7</limit>', '<policy context="default"><deny send_type="no_such_type"/></policy>',
            '<include>/nonexistent/verif/required.conf</include>']))
    rng.shuffle(body) if rng.random() < 0.5 else None
    out += ["  " + b for b in body] + ["</busconfig>"]
    text = "\n".join(out) + "\n"
    return text if len(text) < 12000 else text[:0] + "<busconfig><type>session</type></busconfig>\n"



def _h_indices(ts, values, out):
    for t, v in zip(ts, values):
        c = t.code
        if c == ord('h'):
            out.append(v)
        elif c == ord('a'):
            _h_indices([t.sub] * len(v), v, out)
        elif c in (ord('r'), ord('e')):
            _h_indices(list(t.sub), v, out)
        elif c == ord('v'):
            _h_indices(wire.parse_signature(v.sig, single=True), [v.value], out)
    return out


def fd_order(data, nfds):
    """Descriptor indices in the order an iterator meets them."""
    m = wire.validate(data, nfds).msg
    if m is None:
        return []          # not a valid message (streams that end in an invalid one): no descriptors to follow
    return _h_indices(wire.parse_signature(m.body_sig), m.body, [])


def gen_case(rng, stats):
    """Returns the harness line of one case."""
    op = rng.choice(["copy"] * 3 + ["edit"] * 5 + ["build"] * 4 + ["demarshal"] * 2 + ["loader"] * 4 + ["matchrule"] * 2 + ["config"] * 3)
    if op == "config":
        if rng.random() < 0.35:
            # descriptors appended to a message under construction: the path length moves the header's padding and
            # capacity boundaries, the shape decides which append meets the UNIX_FDS header update
            path = b"/" + b"/".join(b"p" * rng.randint(1, 9) for _ in range(rng.randint(1, 12)))
            return "fdappend %d x%s %s" % (rng.randint(0, 1), path.hex(), rng.choice(["h", "hh", "sh", "args", "ah", "(hs)", "v"]))
        return "config %d x%s" % (rng.randint(0, 1), _config_text(rng).encode().hex())
    warm = rng.randint(0, 1)
    if op == "copy":
        if rng.random() < 0.35:
            data, n = _fd_message(rng)
        else:
            data, n = _small_message(rng), 0
        return "copy %d %d %s" % (warm, n, data.hex())
    if op == "demarshal":
        if rng.random() < 0.45:
            return "demarshal %d %s" % (warm, _invalid_message(rng).hex())
        return "demarshal %d %s" % (warm, _small_message(rng, maxdepth=3).hex())
    if op == "edit":
        ops = c12._script(rng, stats)
        if len(ops) > 6:
            s = rng.randint(0, len(ops) - 6)
            ops = ops[s:s + rng.randint(1, 6)]
        toks = []
        for o in ops:
            toks += c12._op_tokens(o)
        if rng.random() < 0.15:
            head, _ = c12._start_local(rng)
        else:
            for _ in range(30):
                data = c12._start_wire(rng, stats)
                if len(data) <= 700:
                    break
            head = "W " + data.hex()
        return "edit %d %s %s" % (warm, head, " ".join(toks))
    if op == "build":
        for _ in range(200):
            g = c02.gen_program(rng, collections.Counter())
            if g is None:
                continue
            line, exp = g
            prog = line.rsplit(" X ", 1)[0]
            if prog.count(" ") <= 90 and len(prog) <= 3000:
                return "build %d %s" % (warm, prog)
        return "build %d N 4 P x2f61 I x612e62 M x4d SER 1 B u 7" % warm
    if op == "loader":
        nm = rng.choice([1, 1, 2])
        msgs, nf = [], []
        for _ in range(nm):
            r0 = rng.random()
            if r0 < 0.5:
                d, n = _fd_message(rng)
            elif r0 < 0.72:
                # larger than one socket read: the loader's buffer is compacted after such a message has been consumed
                big = gen.rand_message(rng, maxdepth=1, mtype=rng.choice([1, 4]), extra_unknown=False)
                big["fields"] = [(c, v) for c, v in big["fields"] if c != 8] + [(8, Variant(b"ay", None) if False else Variant(b"g", b"ay"))]
                big["body_sig"], big["body"] = b"ay", [[rng.getrandbits(8) for _ in range(rng.choice([2100, 3100, 5000]))]]
                d, n = gen.encode(big), 0
                if wire.validate(d).kind != wire.VALID:
                    d, n = _small_message(rng), 0
            else:
                d, n = _small_message(rng), 0
            msgs.append(d)
            nf.append(n)
        if rng.random() < 0.2:
            # the stream ends in a message the fault-free loader rejects (valid header, damaged body or signature): a failing
            # allocation may delay that verdict, it must never turn it into a message
            msgs.append(_invalid_message(rng))
            nf.append(0)
        total = sum(len(d) for d in msgs)
        r = rng.random()
        if r < 0.4:
            chunks = "-"
        elif r < 0.6:
            # every message in its own read
            chunks = ",".join(str(len(d)) for d in msgs)
        else:
            k = rng.randint(1, 4)
            cuts = sorted(set(rng.randint(1, total - 1) for _ in range(k)))
            prev, cl = 0, []
            for c in cuts + [total]:
                cl.append(c - prev)
                prev = c
            chunks = ",".join(str(c) for c in cl if c > 0)
        return "loader %d %s %s %s %d" % (warm, ",".join(str(n) for n in nf), ",".join(d.hex() for d in msgs), chunks,
                                          rng.randint(0, 1))
    # matchrule
    r = rng.random()
    if r < 0.55:
        text = c07.render(rng, c07.gen_rule_pairs(rng, _CLIENTS))
    elif r < 0.65:
        text = c07.render(rng, c07.many_keys_rule(rng, rng.choice([8, 15, 16, 17])))
    else:
        text = c07.mutate_invalid(rng, c07.render(rng, c07.gen_rule_pairs(rng, _CLIENTS)), _CLIENTS)
    if r < 0.65 and rng.random() < 0.25:
        # a value that ends in a bare backslash at the very end of the rule (legal: the backslash is kept)
        text = text + rng.choice([b"\\", b",arg%d=\\" % rng.randint(0, 63), b",arg%d=C:\\" % rng.randint(0, 63)]) \
            if not re.search(rb"arg\d+(path)?=|arg0namespace", text) else text + b"\\"
    if b"\0" in text or len(text) > 1500:
        text = b"type='signal'"
    return "matchrule %d x%s" % (warm, text.hex())


# ----------------------------------------------------------------------------- judgement

_marker_re = re.compile(r"VERIF-CASE (\d+) k=(-?\d+) n=(\d+) step=(\d+)")


def _wellformed(b):
    """None if the marshalled message is valid (or only lacks a mandatory field, C12's rule), else a reason."""
    r = wire.validate(b, None)
    if r.kind == wire.VALID and r.need == len(b):
        return None
    if r.kind == wire.UNSPECIFIED and r.need == len(b):
        return None
    if r.kind == wire.INVALID and r.reason == "missing-required-field":
        mb = bytearray(b)
        mb[1] = 200
        r2 = wire.validate(bytes(mb), None)
        if r2.kind in (wire.VALID, wire.UNSPECIFIED) and r2.need == len(b):
            return None
        return str(r2.reason or r2.kind)
    return str(r.reason or r.kind)


def _padding_left_reserved(before, after):
    """Named deviation: `after` is `before` whose header was left with the 7 bytes of scratch padding that the
    header editor reserves while it works (reserve_header_padding without correct_header_padding)."""
    try:
        if len(before) < 16 or len(after) < 16 or before[:4] != after[:4]:
            return False
        e = "<" if before[0:1] == b"l" else ">"
        bl, _, fl = struct.unpack_from(e + "III", before, 4)
        bl2, _, fl2 = struct.unpack_from(e + "III", after, 4)
        if (bl, fl) != (bl2, fl2):
            return False
        end = 16 + fl
        hb = len(before) - bl
        ha = len(after) - bl
        return (before[:end] == after[:end] and ha - end == 7 and hb == end + (-end) % 8 and
                before[hb:] == after[ha:])
    except struct.error:
        return False


def _repad(b):
    """(bytes, was_misaligned): `b` with a header that ends in 7 bytes of reserved scratch padding instead of the
    padding to the next 8-byte boundary re-padded properly; b itself when its header is aligned."""
    try:
        e = "<" if b[0:1] == b"l" else ">"
        bl, _, fl = struct.unpack_from(e + "III", b, 4)
        end = 16 + fl
        h = len(b) - bl
        if h % 8 == 0:
            return b, False
        if h - end != 7:
            return None, True
        return b[:end] + b"\0" * ((-end) % 8) + b[h:], True
    except struct.error:
        return None, True


def _decode_lenient(b):
    r = wire.validate(b, None)
    if r.kind == wire.INVALID and r.reason == "missing-required-field":
        mb = bytearray(b)
        mb[1] = 200
        r = wire.validate(bytes(mb), None)
    return r.msg if r.kind in (wire.VALID, wire.UNSPECIFIED) else None


def _failure_change_class(before, after, opletter):
    """Named deviations for 'setter returned FALSE but the message changed'; 'other:<op>' only if none fits."""
    fixed, misaligned = _repad(after)
    pad = "+header-padding-left-reserved" if misaligned else ""
    if fixed is not None and fixed == before:
        return "header-padding-left-reserved"
    if fixed is not None and opletter == "U":
        a, b = _decode_lenient(fixed), _decode_lenient(before)
        if a is not None and b is not None:
            ka = sorted(((c, v) for c, v in a.fields if c <= 10), key=repr)
            kb = sorted(((c, v) for c, v in b.fields if c <= 10), key=repr)
            rest = [(c, v) for c, v in b.fields if c > 10]
            sub = True
            for f in [(c, v) for c, v in a.fields if c > 10]:
                if f in rest:
                    rest.remove(f)
                else:
                    sub = False
            if (ka == kb and sub and rest and a.body == b.body and a.body_sig == b.body_sig and
                    (a.type, a.flags, a.serial) == (b.type, b.flags, b.serial)):
                return "strip-unknown-removed-some-then-failed" + pad
    return "other:%s%s" % (opletter, pad)


class _Judge(object):
    def __init__(self, part, line, res):
        self.part = part
        self.line = line
        self.res = res
        self.op = line.split(" ", 1)[0]
        self.blobs = res.get("blobs", []) if isinstance(res, dict) else []

    def _op_letter(self, step):
        """operation letter of the step-th edit of an edit line"""
        tv = self.line.split(" ")
        i = 4 if tv[2] == "W" else 6 + 2 * int(tv[5])
        n = 0
        while i < len(tv):
            n += 1
            if n == step:
                return tv[i]
            i += 1 if tv[i] == "U" else 2
        return "?"

    def blob(self, i):
        return None if i is None or i < 0 else self.blobs[i]

    def bad(self, cls, what, run=None, **extra):
        w = {"line": self.line if len(self.line) <= 200000 else self.line[:200000], "op": self.op}
        if run is not None:
            w["k"], w["burst"], w["step"] = run.get("k"), run.get("n"), run.get("step", 0)
            w["run"] = {k: v for k, v in run.items() if k not in ("sent", "got")}
        for k, v in extra.items():
            w[k] = v[:6000] if isinstance(v, str) else v
        self.part.violation("%s:lib:%s:%s" % (PROP, self.op, cls), what, w)

    def common(self, run):
        """Checks shared by every run; returns the outcome bookkeeping key."""
        p, op = self.part, self.op
        if run.get("k", -1) >= 0:
            p.count("lib:k-values")
            p.count("lib:%s:k-values" % op)
            if run.get("n") == 2:
                p.count("lib:k-values-burst")
            if run.get("fired"):
                p.count("lib:faults-fired")
        if run.get("leak"):
            self.bad("leak", "%d block(s) still allocated after everything was freed and dbus_shutdown() ran" % run["leak"], run)
        fd = run.get("fd_delta", 0)
        if fd:
            self.bad("fd-leak" if fd > 0 else "fd-overclosed", "open descriptor count changed by %+d over the run" % fd, run)

    def outcome(self, run, failed):
        if run.get("k", -1) < 0:
            return
        if run.get("fired"):
            o = "failed-cleanly" if failed else "succeeded-despite-fault"
            self.part.count("lib:%s:%s" % (self.op, o))
            self.part.count("lib:" + o)
        else:
            o = "no-fault"
        k = run["k"]
        self.part.sig("lib", self.op, o, run.get("n"), self.warm, k if k < 6 else (6 + min(k.bit_length(), 12)))

    # --- per operation ----------------------------------------------------------------------------

    def copy(self, runs):
        ref = runs[0]
        if ref.get("nostart") or not ref.get("cp") or ref.get("cpb") != ref.get("src_before"):
            self.part.count("lib:copy:reference-unusable")
            if not ref.get("nostart"):
                self.bad("reference-differs", "fault-free copy does not marshal like its source", ref)
            return
        for run in runs:
            self.common(run)
            if run.get("nostart"):
                self.part.inconclusive.append("copy: source could not be loaded in a later run")
                continue
            if run["src_after"] != run["src_before"]:
                self.bad("source-changed", "dbus_message_copy changed its source", run,
                         before=self.blob(run["src_before"]), after=self.blob(run["src_after"]))
            if run["cp"]:
                if run["cpb"] != run["src_before"]:
                    self.bad("copy-differs", "copy (given the same serial) marshals differently from its source", run,
                             source=self.blob(run["src_before"]), copy=self.blob(run["cpb"]))
            else:
                if not run["fired"]:
                    self.bad("null-without-fault", "dbus_message_copy returned NULL although no failure was injected", run)
                if run["retry"] != run["src_before"]:
                    self.bad("retry-differs", "copy retried after the failure is %s" % ("NULL" if run["retry"] is None else "different"), run)
            if "src_fds" in run and (run["cp_fds"] != run["src_fds"] or "bad" in run["src_fds"]):
                self.bad("fd-identity", "descriptors of the copy %r are not the source's %r" % (run["cp_fds"], run["src_fds"]), run)
            self.outcome(run, not run["cp"])

    def edit(self, runs):
        ref = runs[0]
        if ref.get("nostart") or ref.get("bad"):
            self.part.count("lib:edit:reference-unusable")
            return
        S = ref["steps"]
        self.common(ref)
        for i in sorted(set(S)):
            why = _wellformed(bytes.fromhex(self.blob(i))) if i >= 0 else "marshal-failed"
            if why:
                # a fault-free edit producing a malformed message is C12's finding, not an OOM effect
                self.part.count("lib:edit:reference-malformed(C12 domain)")
                return
        for run in runs[1:]:
            self.common(run)
            if run.get("nostart") or run.get("bad"):
                self.part.inconclusive.append("edit: script could not be re-run")
                continue
            s = run["step"]
            if run["before"] != S[s - 1]:
                self.bad("prefix-differs", "fault-free prefix of the script gives other bytes than the reference", run)
                continue
            failed = run["ret"] == 0
            if not failed:
                if run["after"] != S[s]:
                    self.bad("applied-differs", "setter returned TRUE but the message differs from the fault-free result", run,
                             expected=self.blob(S[s]), got=self.blob(run["after"]))
            else:
                if not run["fired"]:
                    self.bad("false-without-fault", "setter returned FALSE although no failure was injected", run)
                if run["after"] != run["before"]:
                    b0, b1 = bytes.fromhex(self.blob(run["before"])), bytes.fromhex(self.blob(run["after"]) or "")
                    cls = "changed-on-failure:" + _failure_change_class(b0, b1, self._op_letter(s))
                    why = _wellformed(b1) if b1 else "marshal-failed"
                    self.bad(cls, "setter returned FALSE but the message no longer marshals to the same bytes (now: %s)"
                             % (why or "well-formed"), run, before=self.blob(run["before"]), after=self.blob(run["after"]),
                             now=why or "well-formed")
                if run["retry_ret"] != 1 or run["after_retry"] != S[s]:
                    self.bad("retry-differs", "the same edit repeated without fault returned %r / gives other bytes than the reference"
                             % run["retry_ret"], run, expected=self.blob(S[s]), got=self.blob(run["after_retry"]))
            if run["end"] != S[-1]:
                self.bad("end-differs", "rest of the script after the faulted step does not reach the reference result", run,
                         expected=self.blob(S[-1]), got=self.blob(run["end"]))
            self.outcome(run, failed)

    def build(self, runs):
        ref = runs[0]
        if ref.get("bad") or ref.get("bytes") is None:
            self.part.inconclusive.append("build: reference run did not complete: %r %s" % (ref, self.line[:200]))
            return
        R = ref["bytes"]
        why = _wellformed(bytes.fromhex(self.blob(R)))
        if why:
            self.part.count("lib:build:reference-malformed(C02 domain)")
            return
        for run in runs:
            self.common(run)
            if run.get("bad"):
                self.part.inconclusive.append("build: program refused as malformed")
                continue
            failed = run["bytes"] is None
            if not failed:
                if run["bytes"] != R:
                    self.bad("bytes-differ", "every call succeeded although a failure was injected, but the message differs from the reference", run,
                             expected=self.blob(R), got=self.blob(run["bytes"]))
            else:
                if not run["fired"]:
                    self.bad("failure-without-fault", "a construction call failed although no failure was injected", run)
                if run["retry"] != R:
                    self.bad("retry-differs", "program retried after the failure %s" %
                             ("failed again" if run["retry"] is None else "gives other bytes than the reference"), run,
                             expected=self.blob(R), got=self.blob(run["retry"]))
            self.outcome(run, failed)

    def demarshal(self, runs):
        ref = runs[0]
        if ref.get("msg") is None:
            # bytes the parser rejects: a failing allocation may turn the answer into NoMemory, never into a message
            self.part.count("lib:demarshal:reference-rejected")
            if ref["err"] == NOMEM:
                # dbus_message_demarshal reports NoMemory when the loader neither yields a message nor flags corruption,
                # i.e. for bytes it takes for an incomplete message.  No allocation failed, so this is not this
                # property's subject (accept/reject is C01's); such inputs cannot be judged under faults either.
                self.part.count("lib:demarshal:reference-nomem-for-incomplete-input(not judged)")
                return
            for run in runs:
                self.common(run)
                if run["msg"] is not None:
                    self.bad("invalid-accepted-under-fault", "bytes rejected without fault (%s) are demarshalled into a message when "
                             "an allocation fails" % str(ref["err"]).rsplit(".", 1)[-1], run, got=json.dumps(self.blob(run["msg"]))[:2000])
                elif run["err"] == NOMEM:
                    if not run["fired"]:
                        self.bad("null-without-fault", "demarshal reports NoMemory although no failure was injected", run)
                    if run["retry"] is not None:
                        self.bad("invalid-accepted-on-retry", "bytes rejected without fault are accepted when retried after a failure", run)
                elif run["err"] != ref["err"]:
                    self.bad("wrong-error:%s" % str(run["err"]).rsplit(".", 1)[-1],
                             "demarshal of invalid bytes fails with %r under an injected failure, %r without" % (run["err"], ref["err"]), run)
                self.outcome(run, run["err"] == NOMEM)
            return
        D = ref["msg"]
        data = bytes.fromhex(self.line.split(" ")[2])
        diffs = msgoracle.compare(wire.decode(data), self.blob(D))
        if diffs:
            self.part.count("lib:demarshal:reference-differs-from-oracle(C01 domain)")
        for run in runs:
            self.common(run)
            failed = run["msg"] is None
            if not failed:
                if run["msg"] != D:
                    self.bad("message-differs", "demarshal succeeded under an injected failure but the message differs from the reference", run,
                             expected=json.dumps(self.blob(D))[:3000], got=json.dumps(self.blob(run["msg"]))[:3000])
            else:
                if run["err"] != NOMEM:
                    self.bad("wrong-error:%s" % str(run["err"]).rsplit(".", 1)[-1],
                             "demarshal of valid bytes failed with %r instead of NoMemory" % run["err"], run)
                if not run["fired"]:
                    self.bad("null-without-fault", "demarshal returned NULL although no failure was injected", run)
                if run["retry"] != D:
                    self.bad("retry-differs", "demarshal retried after the failure %s" % ("failed" if run["retry"] is None else "differs"), run)
            self.outcome(run, failed)

    def loader(self, runs):
        ref = runs[0]
        tv = self.line.split(" ")
        nfds = [int(x) for x in tv[2].split(",")]
        datas = [bytes.fromhex(x) for x in tv[3].split(",")]
        orders = [fd_order(d, n) for d, n in zip(datas, nfds)]
        if ref.get("corrupt") and not ref.get("nostart") and not ref.get("stuck"):
            # a stream the fault-free loader declares corrupt after len(ref msgs) messages: under faults the same messages
            # come out and the stream is still declared corrupt - never a message more
            self.part.count("lib:loader:reference-corrupt")
            for run in runs:
                self.common(run)
                if run.get("nostart"):
                    continue
                if run.get("stuck"):
                    self.bad("stuck", "queue_messages / buffer hand-over kept failing 50 times after the injected failure", run)
                elif len(run["msgs"]) > len(ref["msgs"]):
                    self.bad("invalid-accepted-under-fault", "the loader yields %d message(s) from a stream of which the fault-free loader "
                             "accepts %d and then declares corrupt (reason %s)" % (len(run["msgs"]), len(ref["msgs"]), ref.get("reason")), run)
                elif len(run["msgs"]) < len(ref["msgs"]) and run["corrupt"] and run.get("reason") != ref.get("reason"):
                    # a VALID message in front was declared corrupt after the failure (e.g. the recorded descriptor finding)
                    self.bad("corrupted-after-oom:reason%s" % run.get("reason"),
                             "loader declared a valid message corrupted (DBusValidity %s) after an allocation failure (%d of %d valid "
                             "messages delivered)" % (run.get("reason"), len(run["msgs"]), len(ref["msgs"])), run)
                elif run["msgs"] != ref["msgs"]:
                    self.bad("messages-lost-before-corruption", "%d of the %d messages in front of the invalid one were delivered"
                             % (len(run["msgs"]), len(ref["msgs"])), run)
                elif not run["corrupt"]:
                    self.bad("corruption-not-detected-under-fault", "the invalid message at the end of the stream was neither rejected nor yielded", run)
                self.outcome(run, run.get("ooms", 0) > 0)
            return
        if ref.get("nostart") or ref.get("corrupt") or len(ref.get("msgs", [])) != len(datas):
            self.part.count("lib:loader:reference-rejected(C01/C15 domain)")
            return
        for run in runs:
            self.common(run)
            failed_some = run.get("ooms", 0) > 0
            if run.get("nostart"):
                continue
            if run.get("stuck"):
                self.bad("stuck", "queue_messages / buffer hand-over kept failing 50 times after the injected failure", run)
                continue
            if run["corrupt"]:
                self.bad("corrupted-after-oom:reason%s" % run.get("reason"),
                         "loader declared the stream of valid messages corrupted (DBusValidity %s) after an allocation failure "
                         "(%d of %d messages delivered, %d OOM retries before)" % (run.get("reason"), len(run["msgs"]), len(datas), run.get("ooms", 0)),
                         run, sent=run["sent"], got=run["got"])
            elif len(run["msgs"]) != len(datas):
                self.bad("messages-lost", "%d of %d messages delivered" % (len(run["msgs"]), len(datas)), run)
            elif run["msgs"] != ref["msgs"]:
                self.bad("messages-differ", "delivered messages differ from the fault-free reference", run)
            else:
                for i, (got, sent, order) in enumerate(zip(run["got"], run["sent"], orders)):
                    want = [sent[j] for j in order]
                    if got != want or "bad" in got:
                        self.bad("fd-identity", "message %d delivered descriptors %r, sent %r (body order %r)" % (i, got, sent, order), run)
                        break
            if not run.get("canary_ok", 1):
                self.bad("double-close", "a descriptor opened after an injected failure was closed or replaced behind our back", run)
            if failed_some:
                self.part.count("lib:loader:oom-retries", run["ooms"])
            if run.get("deferred"):
                self.part.count("lib:loader:read-before-retry", run["deferred"])
            if any(nfds):
                self.part.count("lib:loader:runs-with-descriptors")
            self.outcome(run, failed_some)

    def matchrule(self, runs):
        ref = runs[0]
        refc = "ok" if ref["ok"] else ref["err"]
        self.part.count("lib:matchrule:reference-" + ("valid" if ref["ok"] else "invalid"))
        if refc == NOMEM:
            self.bad("nomem-without-fault", "fault-free parse reports NoMemory", ref)
            return
        for run in runs:
            self.common(run)
            failed = False
            if run["ok"]:
                if refc != "ok":
                    self.bad("accepted-under-fault", "rule text rejected without fault (%s) is accepted under an injected failure" % refc, run)
            elif run["err"] == NOMEM:
                failed = True
                if not run["fired"]:
                    self.bad("nomem-without-fault", "parse reports NoMemory although no failure was injected", run)
                rc = "ok" if run["retry_ok"] else run["retry_err"]
                if rc != refc:
                    self.bad("retry-differs", "parse retried after the failure gives %r, reference %r" % (rc, refc), run)
            elif run["err"] != refc:
                self.bad("wrong-error", "parse under an injected failure gives %r, reference %r" % (run["err"], refc), run)
            self.outcome(run, failed)

    def fdappend(self, runs):
        ref = runs[0]
        if not ref.get("ok"):
            self.bad("reference-failed", "appending descriptors failed without any injected failure", ref)
            return
        for run in runs:
            self.common(run)          # block leak and open-descriptor count (fd_delta) are checked there
            failed = not run["ok"]
            if failed:
                if not run["fired"]:
                    self.bad("failure-without-fault", "an append failed although no failure was injected", run)
                if run.get("retry_ok") != 1:
                    self.bad("retry-differs", "appending the descriptors again after the failure did not succeed", run)
            self.outcome(run, failed)

    def config(self, runs):
        ref = runs[0]
        refc = "ok" if ref.get("cfg") is not None else ref["err"]
        self.part.count("lib:config:reference-" + ("valid" if refc == "ok" else "rejected"))
        if refc == NOMEM:
            self.bad("nomem-without-fault", "fault-free configuration load reports NoMemory", ref)
            return
        for run in runs:
            self.common(run)
            failed = False
            if run.get("cfg") is not None:
                if refc != "ok":
                    self.bad("accepted-under-fault", "configuration rejected without fault (%s) loads under an injected failure" % refc, run)
                elif run["cfg"] != ref["cfg"]:
                    want, got = self.blob(ref["cfg"]), self.blob(run["cfg"])
                    fields = sorted(k for k in set(want) | set(got) if want.get(k) != got.get(k))
                    self.bad("content-differs:" + ",".join(fields), "configuration loaded under an injected failure differs from the "
                             "fault-free load in %s: %r instead of %r" % (fields, [got.get(k) for k in fields], [want.get(k) for k in fields]),
                             run, expected=json.dumps(want)[:3000], got=json.dumps(got)[:3000], config=bytes.fromhex(self.line.split(" x", 1)[1]).decode("latin1")[:6000])
            elif run["err"] == NOMEM:
                failed = True
                if not run["fired"]:
                    self.bad("nomem-without-fault", "load reports NoMemory although no failure was injected", run)
                rc = "ok" if run.get("retry") is not None else run["retry_err"]
                if rc != refc:
                    self.bad("retry-differs", "load retried after the failure gives %r, reference %r" % (rc, refc), run)
                elif rc == "ok" and run["retry"] != ref["cfg"]:
                    self.bad("retry-content-differs", "load retried after the failure gives other content than the reference", run)
            elif run["err"] != refc:
                self.bad("wrong-error:%s" % str(run["err"]).rsplit(".", 1)[-1],
                         "load under an injected failure fails with %r, reference %r" % (run["err"], refc), run)
            self.outcome(run, failed)

    def run(self):
        res, part = self.res, self.part
        tv = self.line.split(" ", 2)
        self.warm = int(tv[1]) if len(tv) > 1 and tv[1].isdigit() else 0
        if res is None:
            part.inconclusive.append("lib: no result for a case (harness output missing)")
            return
        if "crash" in res:
            c = res["crash"]
            err = c.get("stderr", "")
            last = None
            for mm in _marker_re.finditer(err):
                last = mm
            where = {"k": int(last.group(2)), "burst": int(last.group(3)), "step": int(last.group(4))} if last else {}
            if c.get("timeout"):
                cls = "hang"
            elif c.get("class"):
                cls = "%s:%s" % (c["class"][0], c["class"][1])
                nr = re.search(r'File "([^"]*)" line \d+ should not have been reached: ([^\n]*)', err)
                if c["class"][0] == "assert:not-reached" and nr:
                    cls = "assert-not-reached:%s:%s" % (nr.group(1).rsplit("/", 1)[-1], re.sub(r"[^A-Za-z0-9]+", "-", nr.group(2)).strip("-")[:60])
            else:
                cls = "crash:rc%s" % c.get("rc")
            w = {"line": self.line[:200000], "op": self.op, "stderr": err[-3000:]}
            w.update(where)
            part.violation("%s:lib:%s:%s" % (PROP, self.op, cls),
                           "h_oom crashed / hung / sanitizer or assertion report at %r" % (where,), w)
            return
        if res.get("k") != "O" or not res.get("runs") or any(r.get("bad") and len(r) == 1 for r in res["runs"]):
            part.inconclusive.append("lib: harness refused a case: %s" % self.line[:200])
            return
        if res.get("klimit"):
            part.inconclusive.append("lib: k enumeration hit the safety limit: %s" % self.line[:200])
        part.count("lib:" + self.op)
        part.count("lib:cases")
        getattr(self, self.op)(res["runs"])


def judge_line(part, exe, line, env):
    res = hrun.run_cases(exe, [line], env=env)
    _Judge(part, line, res[0]).run()


def _env_for(shard):
    env = dict(_ENV_BASE)
    if shard % 2 == 0:
        # every list link / hash entry becomes an allocation of its own (more failure points)
        env["DBUS_DISABLE_MEM_POOLS"] = "1"
    return env


_CHUNK = 40


def _worker(args):
    seed, shard, count, exe = args
    rng = gen.rng_for(seed, PROP, "lib", shard)
    part = report.Part()
    stats = collections.Counter()
    env = _env_for(shard)
    done = 0
    while done < count:
        lines = [gen_case(rng, stats) for _ in range(min(_CHUNK, count - done))]
        res = hrun.run_cases(exe, lines + ["END"], env=env, per_batch_timeout=900)
        for i, line in enumerate(lines):
            part.evaluations += 1
            _Judge(part, line, res[i]).run()
            if shard == 0 and done == 0 and i < 2:
                part.sample({"lib_case": line[:400], "runs": len((res[i] or {}).get("runs", [])) if isinstance(res[i], dict) else None})
        end = res[len(lines)] if len(res) > len(lines) else None
        if isinstance(end, dict) and end.get("k") == "END":
            if end["blocks"] != end["base"]:
                part.violation("%s:lib:leak-at-exit" % PROP, "%d blocks outstanding after the final dbus_shutdown" % (end["blocks"] - end["base"]),
                               {"lines": [ln[:300] for ln in lines[:5]]})
        for extra in res[len(lines) + 1:]:
            br = extra.get("batch_report") if extra else None
            if br:
                part.violation("%s:lib:%s:%s" % (PROP, br["class"][0], br["class"][1]), "report at harness exit", {"stderr": br["stderr"][-3000:]})
        done += len(lines)
    part.count("lib:shards-mem-pools-%s" % ("off" if "DBUS_DISABLE_MEM_POOLS" in env else "on"))
    return part


def run_part(r, b, tier, seed, scale=1.0):
    """Runs the library-level fault enumeration and merges its Parts into r."""
    exe = b.harness("h_oom", bus=True)
    total = int((1500 if tier == "quick" else 40000) * scale)
    nshards = 16 if tier == "quick" else 64
    per = max(1, total // nshards)
    shards = [(seed, i, per, exe) for i in range(nshards)]
    for part in report.run_sharded(_worker, shards):
        r.merge(part)
    full = scale >= 1
    r.require("lib:cases", int(per * nshards * 0.95) if full else 1)
    r.require("lib:k-values", per * nshards * 10 if full else 1)
    r.require("lib:faults-fired", per * nshards * 8 if full else 1)
    if full:
        for op in OPS:
            r.require("lib:" + op, 50 if op not in ("config", "fdappend") else 30)
            r.require("lib:%s:failed-cleanly" % op, 50)
        r.require("lib:k-values-burst", 1000)
        r.require("lib:loader:runs-with-descriptors", 500)
        r.require("lib:loader:oom-retries", 200)
        r.require("lib:succeeded-despite-fault", 50)
    if RULE_LIB not in r.rule:
        r.rule = (r.rule + " || " if r.rule else "") + RULE_LIB
    r.assumptions = list(r.assumptions) + [
        "library part: failures are injected into dbus_malloc/dbus_realloc only (libdbus' own injector); "
        "allocations of libc itself (e.g. inside dup()) are not failed",
        "library part: a construction program that failed is discarded as the API documents; only crash-freedom, "
        "leak-freedom and a clean retry are required of it"]
    return r


def replay(r, b, witness):
    """Re-executes the case of a witness written by this module (for checks/c14.py --replay)."""
    exe = b.harness("h_oom", bus=True)
    part = report.Part()
    part.evaluations = 1
    for shard in (0, 1):
        judge_line(part, exe, witness["line"], _env_for(shard))
    r.merge(part)
    return r


def _scratch_main(argv):
    """Stand-alone driver for development: prints a summary, writes witnesses under out/scratch-c14lib/ and
    never touches evidence/ (the registered evidence of C14 is written by checks/c14.py)."""
    import os
    import time
    tier = argv[1] if len(argv) > 1 else "quick"
    seed = int(argv[2]) if len(argv) > 2 else report.seed_from_env()
    scale = float(argv[3]) if len(argv) > 3 else 1.0
    t0 = time.time()
    run = report.Run(PROP, tier, seed=seed)
    bld = build.build("asan")
    run_part(run, bld, tier, seed, scale)
    outdir = os.path.join(report.VERIF, "out", "scratch-c14lib")
    os.makedirs(outdir, exist_ok=True)
    for f in os.listdir(outdir):
        if f.startswith("seed%d-" % seed):
            os.unlink(os.path.join(outdir, f))
    bykey = collections.OrderedDict()
    for v in run.violations:
        bykey.setdefault(v["key"], []).append(v)
    known = {k["key"] for k in report.load_known() if k.get("property") == PROP and k.get("status") == "known"}
    for n, (key, vs) in enumerate(bykey.items()):
        path = os.path.join(outdir, "seed%d-%d.json" % (seed, n))
        with open(path, "w") as fh:
            json.dump({"key": key, "what": vs[0]["what"], "occurrences": len(vs), "witness": vs[0]["witness"]}, fh, indent=1,
                      default=report._js)
        print("%s %s (%d occurrence(s)) what=%s witness=%s" % ("KNOWN-FINDING" if key in known else "VIOLATION", key, len(vs),
                                                           vs[0]["what"][:200], path))
    inconc = list(run.inconclusive)
    for c, m in run.min_events.items():
        if run.counters.get(c, 0) < m:
            inconc.append("counter %s = %d < required %d" % (c, run.counters.get(c, 0), m))
    for s_ in inconc[:10]:
        print("INCONCLUSIVE: " + s_[:400])
    print("C14lib %s seed=%d: cases=%d distinct=%d violation-keys=%d wall=%.1fs" %
          (tier, seed, run.evaluations, len(run.signatures), len(bykey), time.time() - t0))
    print("  observed: " + ", ".join("%s=%d" % kv for kv in sorted(run.counters.items())))
    return 1 if any(k not in known for k in bykey) else (2 if inconc else 0)


if __name__ == "__main__":
    sys.exit(_scratch_main(sys.argv))
