"""C15 - passed file descriptors arrive intact and are never leaked."""
import collections
import json
import os
import shutil
import struct
import tempfile
import time

from vf import build, busproc, client, fdpass, gen, report
from vf.models import fdflow

PROP = "C15"
RULE = ("histories of 8..30 steps on a fresh ASan bus (LeakSanitizer on) with random max_message_unix_fds (1..16), "
        "max_incoming_unix_fds, pending_fd_timeout (default or 300..500 ms), max_message_size (default or 1..4 KiB) and a "
        "policy with <deny send_destination=... min_fds=.../> rules and a receive-side <deny receive_interface=... min_fds=\"1\"/> rule "
        "(about one message in eight uses that interface: allowed to be sent, refused by every recipient when it carries a descriptor); 2..4 raw clients that did / did not negotiate "
        "descriptor passing, some owning well-known names, some holding a broadcast match rule. Steps: method calls "
        "(with and without reply expected; the callee answers with descriptors too), unicast and broadcast signals, "
        "calls to the bus driver, each with 0..max+2 freshly created descriptors (temp files with a set offset, pipe "
        "ends, sockets) and a UNIX_FDS header absent / smaller / equal / larger than attached; descriptors on the first "
        "byte, on a later chunk, or first part written and the sender stalls (later resumed, abandoned, or left to the "
        "pending-fd timeout; or a surplus is created and the sender keeps sending well-formed one-descriptor messages every timeout/3 - "
        "it must still be dropped within a bound counted from the surplus); destinations negotiated / not negotiated / missing / policy-denied / not reading their "
        "socket (messages queue inside the bus); oversized and corrupted-after-the-descriptors messages; sender or "
        "recipient closing mid-way. Oracle: vf/models/fdflow.py (per-connection FIFO of unclaimed descriptors) for the "
        "outcome; every received descriptor is compared by fstat device/inode, access mode, file offset and content, in "
        "order, count = UNIX_FDS header, arrival with the first byte of its message, never on a non-negotiated "
        "connection; after EVERY step /proc/<bus>/fd may contain only descriptors the model allows a live connection "
        "to have pending; after closing all connections it must equal the baseline taken after start-up. "
        "distinct = (message kind, destination class, header-vs-attached relation, placement, outcome class)")

FD_IFACE = b"com.example.FdIf"
SIG_IFACE = b"com.example.FdSig"
PATH = b"/com/example/Fd"
MATCH = b"type='signal',interface='com.example.FdSig'"
NOC_RULE = b"type='signal',sender='org.freedesktop.DBus',interface='org.freedesktop.DBus',member='NameOwnerChanged'"
NAME_PLAIN = b"com.example.Fd1"
NAME_NOFDS = b"com.example.NoFds"
NAME_MAXTWO = b"com.example.MaxTwo"
NAME_MISSING = b"com.example.Missing"
RX_IFACE = b"com.example.RxNoFds"
DENY = {NAME_NOFDS: 1, NAME_MAXTWO: 3}
FILLER_MSGS = 8
FILLER_BYTES = 65536
INFLIGHT_CAP = 40

POLICY = """
  <policy context="default">
    <allow send_destination="*" eavesdrop="true"/>
    <allow eavesdrop="true"/>
    <allow own="*"/>
    <allow user="*"/>
    <deny send_destination="com.example.NoFds" min_fds="1"/>
    <deny send_destination="com.example.MaxTwo" min_fds="3"/>
    <deny receive_interface="com.example.RxNoFds" min_fds="1"/>
  </policy>
"""


class NotEnforced(client.Timeout):
    """pending_fd_timeout + watchdog passed and the stalling connection is still there."""

    def __init__(self, key, what):
        client.Timeout.__init__(self, what)
        self.key, self.what = key, what


class Spec(object):
    """One message to be transmitted."""

    def __init__(self, **kw):
        self.mtype = 1
        self.kind = "call"
        self.dest = None
        self.dest_class = "none"
        self.flags = 0
        self.h = None
        self.fds = []
        self.placement = "first"
        self.reply_serial = None
        self.member = b"Probe"
        self.iface = FD_IFACE
        self.path = PATH
        self.pad = 0
        self.malformed = None
        self.relation = "eq"
        self.then_close = False
        self.__dict__.update(kw)

    @property
    def expects_reply(self):
        return self.mtype == 1 and not (self.flags & 1)


class History(object):
    def __init__(self, b, rundir, rng, part, hid):
        self.b, self.rundir, self.rng, self.part, self.hid = b, rundir, rng, part, hid
        self.clock = client.Clock()
        self.steps = []
        self.daemon = None
        self.obs = None
        self.clients = {}        # unique -> FdClient (live participants)
        self.everyone = []       # every client object ever created (for cleanup)
        self.factory = None
        self.model = None
        self.failed = False
        self.config = None
        self.ntransmit = 0
        self.cur_cls = "start"
        self.reported_held = set()
        self.gone = set()

    # ------------------------------------------------------------------ plumbing
    def witness(self, extra=None):
        w = {"history": self.hid, "config": self.config, "steps": self.steps[-60:]}
        if extra:
            w.update(extra)
        return w

    def violation(self, key, what, extra=None):
        self.part.violation("%s:%s" % (PROP, key), what, self.witness(extra))

    def mismatch(self, cls, what):
        """The model mispredicted something the property does not speak about: not judged, but never silent."""
        self.part.count("model-mismatch:" + cls)
        self.part.inconclusive.append("model mismatch (%s) in history %d: %s; steps=%r" % (cls, self.hid, what, self.steps[-6:]))

    def step(self, text):
        self.steps.append(text)

    def name_of(self, c):
        return c.unique.decode()

    def mc(self, c):
        return self.model.conns[c.unique]

    def setup(self):
        rng = self.rng
        self.M = rng.choice([1, 2, 3, 4, 4, 8, 16])
        limits = {"max_message_unix_fds": self.M}
        self.max_incoming = rng.choice([self.M, 2 * self.M, 4 * self.M, 64])
        limits["max_incoming_unix_fds"] = self.max_incoming
        self.timeout_ms = None
        if rng.random() < 0.4:
            self.timeout_ms = rng.randint(300, 500)
            limits["pending_fd_timeout"] = self.timeout_ms
        self.max_size = 1 << 27
        if rng.random() < 0.25:
            self.max_size = rng.choice([1024, 2048, 4096])
            limits["max_message_size"] = self.max_size
        self.limits = limits
        cfg = busproc.make_config("@SOCK@", policy_xml=POLICY, limits=limits)
        self.daemon = busproc.Daemon(self.b, self.rundir, cfg, name="h")
        self.config = self.daemon.config_text
        if not self.daemon.started():
            raise RuntimeError("daemon did not start: " + self.daemon.stderr_text()[-500:])
        self.factory = fdpass.FdFactory(os.path.join(self.rundir, "probe-fds"))
        self.model = fdflow.Model(self.M, self.max_size, DENY)
        self.obs = fdpass.connect(self.daemon.sock, self.clock, negotiate_fd=rng.random() < 0.5, label="observer")
        self.everyone.append(self.obs)
        self.obs.bus_call(b"AddMatch", b"s", [NOC_RULE])
        self.obs.barrier()
        self.baseline = self.daemon.open_fds()
        n = rng.randint(2, 4)
        self.free_names = [NAME_PLAIN, NAME_NOFDS, NAME_MAXTWO]
        rng.shuffle(self.free_names)
        for i in range(n):
            self.add_client(force_negotiated=(i == 0))
        self.step("config M=%d max_incoming=%d pending_fd_timeout=%s max_message_size=%s" % (
            self.M, self.max_incoming, self.timeout_ms, self.max_size if self.max_size < (1 << 27) else "default"))

    def add_client(self, force_negotiated=False):
        rng = self.rng
        neg = force_negotiated or rng.random() < 0.7
        c = fdpass.connect(self.daemon.sock, self.clock, negotiate_fd=neg)
        self.everyone.append(c)
        if neg and not c.unix_fd:
            raise RuntimeError("bus did not agree to NEGOTIATE_UNIX_FD")
        m = self.model.add(c.unique, neg)
        if self.free_names and rng.random() < 0.6:
            nm = self.free_names.pop()
            r = c.bus_call(b"RequestName", b"su", [nm, 0])
            if r.msg.type == 2 and r.msg.body[0] == 1:
                m.names.add(nm)
        if rng.random() < 0.6:
            c.bus_call(b"AddMatch", b"s", [MATCH])
            c.bus_call(b"AddMatch", b"s", [MATCH.replace(SIG_IFACE, RX_IFACE)])
            m.match = True
        c.barrier()
        c.take_inbox()
        self.clients[c.unique] = c
        self.step("connect %s negotiated=%s names=%s match=%s" % (self.name_of(c), neg, sorted(x.decode() for x in m.names), m.match))
        return c

    def await_gone(self, unique):
        """Read at the observer until the bus has announced that `unique` is gone, then a barrier."""
        while unique not in self.gone:
            rec = self.obs.recv(timeout=client.WATCHDOG)
            m = rec.msg
            k = m.known()
            if m.type == 4 and k.get(3) == b"NameOwnerChanged" and k.get(7) == b"org.freedesktop.DBus" \
                    and len(m.body) == 3 and m.body[0][:1] == b":" and m.body[2] == b"":
                self.gone.add(m.body[0])
        self.obs.barrier()
        self.note_gone(self.obs.take_inbox())

    def note_gone(self, recs):
        for rec in recs:
            m = rec.msg
            if m.type == 4 and m.known().get(3) == b"NameOwnerChanged" and len(m.body) == 3 and m.body[0][:1] == b":" \
                    and m.body[2] == b"" and m.known().get(7) == b"org.freedesktop.DBus":
                self.gone.add(m.body[0])

    def forget(self, c):
        """c is gone (closed by us or by the bus) and the bus has announced it."""
        mc = self.model.conns.get(c.unique)
        if mc is not None:
            for nm in mc.names:
                self.free_names.append(nm)
        self.model.drop(c.unique)
        self.clients.pop(c.unique, None)
        # messages of c still queued for connections that do not read stay valid (the bus owns them)
        c.close()

    def usable(self):
        """participants that can take part in a barrier"""
        return [c for c in self.clients.values() if not self.mc(c).stalled and self.mc(c).partial is None]

    # ------------------------------------------------------------------ descriptor-table checks
    def probe_of_link(self, link):
        for p in self.factory.all:
            if p.link == link:
                return p
        return None

    def check_held(self, cls):
        # libdbus releases a message it has written when it next unlocks the connection, i.e. at the end of the
        # write iteration - possibly just after the recipient has read its barrier reply.  One more round-trip,
        # started now, is necessarily handled in a later main-loop iteration of the (single-threaded) bus.
        self.obs.barrier()
        self.note_gone(self.obs.take_inbox())
        tab = self.daemon.open_fds()
        if tab is None:
            return
        held = collections.Counter(l for l in tab.values() if l in self.factory.by_link)
        allowed = collections.Counter(p.link for p in self.model.allowed_held())
        self.part.count("fd-table-checks")
        if held:
            self.part.count("fd-table-checks-with-descriptors-held")
        extra = held - allowed
        for l in list(extra):
            if l in self.reported_held:
                del extra[l]
        if extra:
            probes = [self.factory.by_link[l] for l in extra]
            self.reported_held.update(extra)
            self.violation("fd-held:%s" % probes[0].op_class,
                           "at a quiescent point after '%s' the bus still has %d probe descriptor(s) open that no live "
                           "connection may have pending: %r" % (cls, sum(extra.values()), probes[:6]),
                           {"held": sorted(extra.elements())[:10]})

    def check_final(self):
        tab = self.daemon.open_fds()
        if tab is None:
            return
        fin = collections.Counter(tab.values())
        base = collections.Counter(self.baseline.values())
        surplus = fin - base
        missing = base - fin
        self.part.count("final-table-checks")
        if surplus:
            probes = [self.probe_of_link(l) for l in surplus if self.probe_of_link(l) is not None]
            cls = probes[0].op_class if probes else "non-probe"
            self.violation("fd-leak:%s" % cls,
                           "after all connections were closed the bus has %d descriptor(s) more than its baseline: %r"
                           % (sum(surplus.values()), sorted(surplus.elements())[:8]),
                           {"baseline": sorted(base.elements()), "final": sorted(fin.elements())})
        if missing:
            self.violation("fd-table-shrunk", "after all connections were closed the bus lacks descriptors it had at "
                           "baseline (closed something twice?): %r" % sorted(missing.elements())[:8])

    # ------------------------------------------------------------------ building and writing a message
    def encode(self, S, spec):
        token = ("tok-%d-%d" % (self.hid, self.ntransmit)).encode() + b"x" * spec.pad
        kw = dict(path=spec.path, iface=spec.iface, member=spec.member, dest=spec.dest, flags=spec.flags,
                  unix_fds=spec.h, sig=b"s", body=[token])
        if spec.mtype == 2:
            kw.update(path=None, iface=None, member=None, reply_serial=spec.reply_serial)
        if spec.kind == "driver":
            kw.update(path=b"/org/freedesktop/DBus", iface=b"org.freedesktop.DBus")
            if spec.member == b"NameHasOwner":
                kw.update(body=[NAME_PLAIN])
            elif spec.member == b"GetId":
                kw.update(sig=b"", body=[])
        serial, data = S.build(spec.mtype, **kw)
        if spec.malformed:
            data = bytearray(data)
            body_len = struct.unpack_from("<I", data, 4)[0]
            boff = len(data) - body_len
            if spec.malformed == "body-strlen" and body_len >= 4:
                struct.pack_into("<I", data, boff, struct.unpack_from("<I", data, boff)[0] + 7)
            elif spec.malformed == "body-nul" and body_len >= 4:
                data[-1] = 0x78
            elif spec.malformed == "fields-len" and self._grow_fields(data, body_len):
                pass
            else:
                spec.malformed = "version"
                data[3] = 2
            data = bytes(data)
        return serial, data

    @staticmethod
    def _grow_fields(data, body_len):
        """Header field array announced 3 bytes longer, total announced length unchanged (so that the bus waits
        for exactly the bytes that are written and then finds the array malformed)."""
        flen = struct.unpack_from("<I", data, 12)[0]
        hlen = 16 + flen + 3
        hlen += (-hlen) % 8
        if len(data) - hlen < 0:
            return False
        struct.pack_into("<I", data, 12, flen + 3)
        struct.pack_into("<I", data, 4, len(data) - hlen)
        return True

    def pieces(self, spec, data):
        rng = self.rng
        fds = [p.fd for p in spec.fds]
        if spec.placement == "first" or len(data) < 4:
            spec.placement = "first"
            return [(data, fds)]
        ncut = rng.choice([1, 1, 2, 3])
        cuts = sorted(set(rng.choice([rng.randint(1, 15), rng.randint(1, len(data) - 1), rng.randint(16, max(16, len(data) - 1))])
                          for _ in range(ncut)))
        cuts = [c for c in cuts if 0 < c < len(data)]
        if not cuts:
            cuts = [1]
        out = []
        prev = 0
        for c in cuts + [len(data)]:
            out.append([data[prev:c], []])
            prev = c
        if spec.placement == "late":
            # with a short pending_fd_timeout nothing may follow the descriptors in a separate write: the time between
            # two of our writes is not under our control on a loaded machine
            out[len(out) - 1 if self.timeout_ms is not None else rng.randint(1, len(out) - 1)][1] = fds
        else:
            out[0][1] = fds
        return [(d, f) for d, f in out]

    def write(self, S, pieces):
        """False if the socket broke while writing (the bus dropped us)."""
        try:
            for d, f in pieces:
                S.send_bytes(d, f)
            return True
        except (BrokenPipeError, ConnectionResetError, OSError):
            return False

    # ------------------------------------------------------------------ settle and judge
    def settle(self, S, s_alive):
        """Barriers: sender first (if it can), then everybody else who reads.  Returns (s_alive, inboxes)."""
        if getattr(self, "long_pending", False):
            # a message longer than the socket buffers stays in the recipient's bus-side queue (and its descriptors keep
            # counting against the sender's max_incoming_unix_fds) until the recipient reads: let the readers read first
            self.long_pending = False

            def long_frames():
                return sum(1 for c in self.clients.values() for r in c.log if len(r.raw) > 200000)
            have = self.long_seen
            deadline = time.time() + client.WATCHDOG
            quiet = 0
            while time.time() < deadline and quiet < 25:
                before = sum(len(c.log) + len(c.buf) for c in self.clients.values())
                for c in list(self.clients.values()):
                    mcn = self.mc(c)
                    if not (mcn.stalled or mcn.partial is not None or c.closed):
                        c.pump(timeout=0.02)
                if long_frames() > have:
                    break
                # (a refused long message never arrives: give up after half a second without any byte arriving anywhere)
                quiet = quiet + 1 if sum(len(c.log) + len(c.buf) for c in self.clients.values()) == before else 0
            self.long_seen = long_frames()
        if s_alive and self.mc(S).partial is None and not self.mc(S).stalled:
            try:
                S.barrier()
            except client.Closed:
                s_alive = False
        if not s_alive and S.unique in self.clients:
            self.await_gone(S.unique)
        boxes = {}
        for c in list(self.clients.values()):
            mcn = self.mc(c)
            if mcn.stalled or mcn.partial is not None:
                continue
            if c is S:
                if not s_alive and not c.closed:
                    c.pump()
                boxes[c.unique] = c.take_inbox()
                continue
            c.barrier()
            boxes[c.unique] = c.take_inbox()
        for u, recs in boxes.items():
            c = self.clients[u]
            if self.mc(c).inflight and not (c is S and not s_alive):
                self.drain_inflight(c, recs)
        return s_alive, boxes

    def judge_generic(self, boxes, cls):
        """Invariants that hold for anything any client receives."""
        for u, recs in boxes.items():
            c = self.clients.get(u)
            if c is None:
                continue
            neg = self.mc(c).negotiated
            for rec in recs:
                nh = rec.msg.known().get(9, 0)
                if (rec.fds or nh) and not neg:
                    self.violation("fds-to-non-negotiated:%s" % cls,
                                   "connection %s never negotiated descriptor passing but received a message announcing "
                                   "%d / carrying %d descriptors" % (u.decode(), nh, len(rec.fds)))
            if c.stray_fds():
                self.violation("stray-fds:%s" % cls, "connection %s received %d descriptor(s) that no message announces"
                               % (u.decode(), len(c.stray_fds())))
                c.fdbuf = []      # still owned (and finally closed) through all_fds
            for a in c.anomalies:
                self.violation("%s:%s" % (a[0], cls), "at %s: %s" % (u.decode(), a[1]))
            c.anomalies = []

    def compare_fds(self, rec, expected, cls, at):
        """rec.fds against the probe descriptors that must have arrived, in order."""
        self.part.count("deliveries-compared")
        self.part.count("descriptors-compared", len(rec.fds))
        if len(rec.fds) != len(expected):
            self.violation("fd-mismatch:count:%s" % cls, "%s got %d descriptors with the message, %d were sent for it"
                           % (at, len(rec.fds), len(expected)),
                           {"got": [repr(self.factory.identify(fd)) for fd in rec.fds], "want": [repr(p) for p in expected]})
            return
        for i, (fd, p) in enumerate(zip(rec.fds, expected)):
            why = self.factory.mismatch(fd, p)
            if why:
                other = self.factory.identify(fd)
                if other is not None and other is not p and other in expected:
                    why = "order"
                self.violation("fd-mismatch:%s:%s" % (why, cls), "%s: descriptor %d of the message is not the one sent "
                               "(%s; sent %r, got %r)" % (at, i, why, p, other))
                return

    def transmit(self, S, spec, partial_resume=None):
        """Send one message from S and judge what happens.  Returns the outcome class predicted."""
        ms = self.mc(S)
        self.ntransmit += 1
        self.part.evaluations += 1
        if partial_resume is None:
            serial, data = self.encode(S, spec)
            pcs = self.pieces(spec, data)
            q_before = len(ms.q)
            self.step("%s from=%s serial=%d type=%d dest=%s(%s) attached=%d header=%s relation=%s placement=%s pieces=%r "
                      "pending-before=%d%s%s" % (
                          spec.kind, self.name_of(S), serial, spec.mtype, spec.dest.decode() if spec.dest else None,
                          spec.dest_class, len(spec.fds), spec.h, spec.relation, spec.placement,
                          [(len(d), len(f)) for d, f in pcs], q_before,
                          " malformed=%s" % spec.malformed if spec.malformed else "",
                          " bytes=%d" % len(data) if len(data) > self.max_size else ""))
            candidates = list(ms.q) + list(spec.fds)
            maybe_unread = self.timeout_ms is not None and q_before > 0
            ok = self.write(S, pcs)
            pre = None
            for i, (d, f) in enumerate(pcs):
                if f:
                    pre = self.model.absorb(ms, spec.fds, first_byte=(i == 0))
            legal = (spec.relation in ("eq", "none") and spec.placement != "late" and q_before == 0
                     and not spec.malformed and len(data) <= self.max_size and (ms.negotiated or not spec.fds))
        else:
            serial, data, rest, pre, legal, candidates = partial_resume
            maybe_unread = False
            self.step("resume from=%s serial=%d remaining-pieces=%r" % (self.name_of(S), serial, [(len(d), len(f)) for d, f in rest]))
            ok = self.write(S, rest)
        size = len(data)
        cls = "%s/%s/%s/%s" % (spec.kind, spec.dest_class, spec.relation, spec.placement)
        self.cur_cls = cls
        if pre == "disconnect:too-many-fds":
            out = fdflow.Outcome("disconnect", "too-many-fds")
        elif pre == "ambiguous":
            out = fdflow.Outcome("ambiguous")
        else:
            out = self.model.route(ms, spec.mtype, spec.dest, spec.h, size, bool(spec.malformed),
                                   requested_reply=(spec.mtype == 2), rx_denied=(spec.iface == RX_IFACE))
            if spec.iface == RX_IFACE:
                self.part.count("receive-denied-interface:%s:%s" % ("with-fds" if spec.h else "without-fds", out.cls))
        ambiguous = out.kind == "ambiguous" or spec.then_close
        # With a short pending_fd_timeout a sender that now has unclaimed descriptors at the bus may be dropped at any
        # moment from now on (how long our own barriers take is not under our control): both outcomes are accepted.
        may_time_out = self.timeout_ms is not None and bool(ms.q)
        # class used in violation keys: the outcome class (few, stable), not the full description of the step
        kcls = "sender-closes" if spec.then_close else out.cls
        if spec.relation in ("less", "none-but-attached"):
            kcls += "/surplus"
        if spec.placement in ("late", "split-stall"):
            kcls += "/" + spec.placement
        for p in spec.fds:
            p.op_class = kcls
        # messages for connections that are not reading wait for them (inside the bus or in their socket)
        waiting = []
        if out.kind in ("deliver", "broadcast"):
            for mcn in out.recipients:
                if mcn.stalled or mcn.partial is not None:
                    mcn.inflight.append((S.unique, serial, list(out.fds), spec.mtype, ambiguous))
                    waiting.append(mcn.unique)
                    self.part.count("queued-for-connection-not-reading")
        if spec.then_close:
            self.step("  sender %s closes right after writing" % self.name_of(S))
            S.close()
        s_alive = ok and not spec.then_close
        s_alive, boxes = self.settle(S, s_alive)
        observed_disc = not s_alive and not spec.then_close
        self.judge_generic(boxes, kcls)

        # -- who received (S, serial)?
        got = {}
        for u, recs in boxes.items():
            for rec in recs:
                k = rec.msg.known()
                if k.get(7) == S.unique and rec.msg.serial == serial and rec.msg.type == spec.mtype:
                    got.setdefault(u, []).append(rec)
        from_bus = [rec for rec in boxes.get(S.unique, []) if rec.msg.type in (2, 3) and rec.msg.known().get(5) == serial
                    and rec.msg.known().get(7) == b"org.freedesktop.DBus"]
        errors = [rec for rec in from_bus if rec.msg.type == 3]
        if not s_alive:
            self.forget(S)
        observed = "disconnect" if observed_disc else ("delivered" if got else ("error" if errors else "nothing"))
        self.part.count("observed:" + observed)
        for u, recs in got.items():
            if len(recs) > 1:
                self.violation("delivered-%d-times:%s" % (len(recs), kcls), "message delivered %d times to %s" % (len(recs), u.decode()))

        if ambiguous:
            # timing decides what the bus saw: whatever arrived must be descriptors this sender wrote for it, intact
            self.part.count("outcome:ambiguous")
            self.part.sig(spec.kind, spec.dest_class, spec.relation, spec.placement, "ambiguous:" + observed)
            for u, recs in got.items():
                if out.kind in ("deliver", "broadcast"):
                    if u not in [c.unique for c in out.recipients]:
                        self.violation("unexpected-delivery:%s" % kcls, "message delivered to %s" % u.decode())
                    else:
                        self.compare_fds(recs[0], out.fds, kcls, u.decode())
                    continue
                self.part.count("deliveries-compared")
                seen = []
                for fd in recs[0].fds:
                    p = self.factory.identify(fd)
                    if p is None or p not in candidates or p in seen or self.factory.mismatch(fd, p):
                        self.violation("fd-mismatch:other-file:%s" % kcls, "a descriptor delivered to %s is not one the "
                                       "sender wrote for this message (%r)" % (u.decode(), p))
                    seen.append(p)
            if out.kind == "ambiguous" and S.unique in self.clients:
                self.close_client(S, "after a timing-dependent step")      # end the ambiguity
            else:
                self.check_held(cls)
            return "ambiguous"

        self.part.count("outcome:" + out.cls)
        self.part.sig(spec.kind, spec.dest_class, spec.relation, spec.placement, out.cls)

        if out.kind == "disconnect":
            if not observed_disc:
                # the property does not demand a disconnect; what it demands (nothing delivered wrongly, nothing
                # leaked) is judged here and by the table checks
                self.mismatch("not-disconnected:" + out.why, "expected the bus to drop %s" % S.unique.decode())
            for u, recs in got.items():
                self.violation("unexpected-delivery:%s" % kcls, "a message the bus had to reject (%s) was "
                               "delivered to %s with %d descriptors" % (out.cls, u.decode(), len(recs[0].fds)))
            self.check_held(cls)
            return out.cls

        if observed_disc and may_time_out:
            self.step("  %s was dropped while this step was being settled (descriptors pending, pending_fd_timeout=%d ms)"
                      % (S.unique.decode(), self.timeout_ms))
            self.part.count("pending-timeouts-enforced")
            self.part.count("pending-timeouts-during-settle")
            if maybe_unread:
                # the descriptors were pending before this message was written: the bus may have dropped the connection
                # without ever reading it.  What did arrive is still compared; nothing is demanded.
                for u, recs in got.items():
                    if out.kind in ("deliver", "broadcast") and u in [c.unique for c in out.recipients]:
                        self.compare_fds(recs[0], out.fds, kcls, u.decode())
                for mcn in out.recipients:
                    mcn.inflight = [x for x in mcn.inflight if not (x[0] == S.unique and x[1] == serial)] + \
                                   [x[:4] + (True,) for x in mcn.inflight if x[0] == S.unique and x[1] == serial]
                self.check_held(cls)
                return out.cls
        elif observed_disc:
            if legal:
                self.violation("sender-dropped:%s" % kcls, "the bus disconnected %s although its message was well-formed, "
                               "announced exactly the attached descriptors and respected every limit" % S.unique.decode())
            else:
                self.mismatch("unexpected-disconnect:" + out.cls, "bus dropped %s" % S.unique.decode())
            self.check_held(cls)
            return "disconnect"

        want = {c.unique: c for c in out.recipients} if out.kind in ("deliver", "broadcast") else {}
        for u, recs in got.items():
            if u not in want:
                self.violation("unexpected-delivery:%s" % kcls,
                               "message delivered to %s with %d descriptors although the expected outcome is %s"
                               % (u.decode(), len(recs[0].fds), out.cls))
                continue
            self.compare_fds(recs[0], out.fds, kcls, u.decode())
        for u, mcn in want.items():
            if u in waiting:
                continue
            if u not in got and u in self.clients:
                self.violation("lost:%s" % kcls, "message with %d descriptors was not delivered to %s (expected %s)"
                               % (len(out.fds), u.decode(), out.cls))
        if out.kind == "refuse" and spec.expects_reply:
            if len(errors) != 1:
                self.violation("refusal-errors-%d:%s" % (len(errors), out.cls),
                               "method call refused (%s) but the caller received %d error replies" % (out.cls, len(errors)))
            else:
                self.part.count("refusal-error-seen")
        if out.kind == "driver" and spec.expects_reply:
            if len(from_bus) != 1:
                self.violation("driver-replies-%d" % len(from_bus), "call to the bus driver carrying descriptors got %d replies"
                               % len(from_bus))
        self.check_held(cls)

        # -- the callee answers (a reply is a descriptor carrier too)
        if out.kind == "deliver" and spec.expects_reply:
            mr = out.recipients[0]
            R = self.clients.get(mr.unique)
            if R is not None and mr.unique not in waiting and R.unique in got and S.unique in self.clients \
                    and not may_time_out:
                self.op_reply(R, S, serial)
        return out.cls

    def drain_inflight(self, R, recs=None):
        """R reads again: everything accepted for it meanwhile must arrive, once, in order, intact."""
        mr = self.mc(R)
        if recs is None:
            R.barrier()
            recs = R.take_inbox()
            self.judge_generic({R.unique: recs}, "drain")
        if not mr.inflight:
            return
        probes = [rec for rec in recs if rec.msg.known().get(3) != b"Filler" and rec.msg.known().get(7) != b"org.freedesktop.DBus"]
        exp = list(mr.inflight)
        mr.inflight = []
        self.part.count("drained-messages", len(exp))
        keys = [(rec.msg.known().get(7), rec.msg.serial) for rec in probes]
        arrived = []
        for (su, serial, fds, mtype, optional) in exp:
            n = keys.count((su, serial))
            if n == 0:
                if not optional:
                    self.violation("lost:queued-for-connection-not-reading", "a message with %d descriptors accepted for %s "
                                   "while it was not reading never arrived" % (len(fds), R.unique.decode()))
                continue
            if n > 1:
                self.violation("delivered-%d-times:queued" % n, "queued message delivered repeatedly")
            arrived.append((su, serial))
            self.compare_fds(probes[keys.index((su, serial))], fds, "queued-for-connection-not-reading", R.unique.decode())
        order = [k for k in keys if k in arrived]
        for su in set(k[0] for k in arrived):
            if [k[1] for k in order if k[0] == su] != [k[1] for k in arrived if k[0] == su]:
                self.violation("order:queued", "queued messages of one sender arrived out of order")
        self.part.sig("drain", min(len(exp), 4), len(arrived) == len(exp))

    # ------------------------------------------------------------------ operations
    def new_fds(self, n):
        return [self.factory.make(self.rng) for _ in range(n)]

    def choose_counts(self, S, allow_surplus=True):
        """(attached, header, relation)"""
        rng = self.rng
        M = self.M
        a = rng.choice([0, 1, 1, min(2, M), min(3, M), max(0, M - 1), M, M, rng.randint(0, M), rng.randint(0, M)])
        if rng.random() < 0.07:
            a = M + rng.randint(1, 2)
        rel = rng.choice(["eq"] * 8 + ["less", "less", "more", "none"])
        if rel == "less" and (a == 0 or not allow_surplus):
            rel = "eq"
        if rel == "eq":
            h = a
        elif rel == "less":
            h = rng.randint(0, a - 1)
        elif rel == "more":
            h = a + rng.randint(1, 2)
        else:
            h = None
            if a:
                rel = "none-but-attached"
        return a, h, rel

    def pick_dest(self, S, h):
        """(dest, class) among live connections / names"""
        rng = self.rng
        others = [c for c in self.clients.values() if c is not S]
        r = rng.random()
        if r < 0.12 or not others:
            return NAME_MISSING, "missing"
        if r < 0.2:
            gone = [c for c in self.everyone if c.closed and c.unique and c is not self.obs]
            if gone:
                return rng.choice(gone).unique, "missing"
        R = rng.choice(others)
        mr = self.mc(R)
        if (mr.stalled or mr.partial is not None) and not self.budget_ok(S, h or 0, [mr]):
            return NAME_MISSING, "missing"
        dest = R.unique
        if mr.names and rng.random() < 0.6:
            dest = sorted(mr.names)[0]
        if NAME_NOFDS in mr.names:
            cls = "policy-nofds"
        elif NAME_MAXTWO in mr.names:
            cls = "policy-maxtwo"
        elif mr.stalled:
            cls = "not-reading"
        elif mr.negotiated:
            cls = "negotiated"
        else:
            cls = "not-negotiated"
        return dest, cls

    def not_reading(self):
        return [m for m in self.model.conns.values() if m.stalled or m.partial is not None]

    def budget_ok(self, S, h, targets):
        """Descriptors of messages waiting inside the bus count against the sender's max_incoming_unix_fds and the
        recipient's max_outgoing_unix_fds; stay below both so that the bus keeps reading from S."""
        if not h or not targets:
            return True
        mine = sum(len(x[2]) for c in self.model.conns.values() for x in c.inflight if x[0] == S.unique)
        if mine + h * len(targets) > self.max_incoming - 1:
            return False
        for m in targets:
            if sum(len(x[2]) for x in m.inflight) + h > INFLIGHT_CAP:
                return False
        return True

    def op_send(self, S):
        rng = self.rng
        ms = self.mc(S)
        short = self.timeout_ms is not None
        a, h, rel = self.choose_counts(S)
        kind = rng.choice(["call-noreply"] * 3 + ["call"] * 3 + ["signal"] * 2 + ["bcast"] * 2 + ["driver"])
        if kind == "bcast" and not self.budget_ok(S, h, [m for m in self.not_reading() if m.match and m.negotiated]):
            kind = "driver"
        spec = Spec(kind=kind, h=h, relation=rel)
        if kind == "bcast":
            spec.mtype, spec.iface, spec.member, spec.dest_class = 4, SIG_IFACE, b"Changed", "broadcast"
        elif kind == "driver":
            spec.mtype = 1
            spec.member = rng.choice([b"GetId", b"NameHasOwner", b"NoSuchMethod"])
            spec.dest, spec.dest_class = b"org.freedesktop.DBus", "driver"
            spec.flags = rng.choice([0, 0, 1])
        else:
            spec.mtype = 4 if kind == "signal" else 1
            spec.flags = 1 if kind == "call-noreply" else 0
            spec.dest, spec.dest_class = self.pick_dest(S, h)
        if kind != "driver" and rng.random() < 0.12:
            # allowed by every send rule, refused by every recipient's receive rules when it carries a descriptor
            spec.iface = RX_IFACE
        pl = rng.random()
        if a and pl < 0.1:
            spec.placement = "late"
            if ms.q and (kind == "bcast" or (self.model.owner(spec.dest) in self.not_reading())) and self.not_reading():
                spec.placement = "first"     # keep timing-dependent outcomes away from connections that cannot barrier
        elif pl < 0.25 and not (short and a):
            spec.placement = "chunked"
        if a and kind != "bcast" and spec.dest_class == "negotiated" and spec.placement == "first" and rel == "eq" \
                and not self.not_reading() and self.timeout_ms is None and self.max_size >= (1 << 27) and rng.random() < 0.2:
            # a header longer than the socket buffers (only the object path has no length limit): the bus has to write it
            # to the recipient in several pieces, and the descriptors travel with the first piece only
            spec.path = b"/" + b"p" * rng.choice([230000, 420000, 900000])
            self.long_pending = True
            self.long_seen = sum(1 for c in self.clients.values() for r in c.log if len(r.raw) > 200000)
            self.part.count("fd-messages-with-header-longer-than-socket-buffer")
        spec.fds = self.new_fds(a)
        cls = self.transmit(S, spec)
        self.after_surplus(S, cls)

    def after_surplus(self, S, cls):
        """With a short pending_fd_timeout a connection that left descriptors unclaimed must be dropped in time."""
        if self.timeout_ms is None or S.unique not in self.clients:
            return
        ms = self.mc(S)
        if ms.q and ms.partial is None:
            self.await_timeout(S, "surplus")

    def op_surplus_keepalive(self, S):
        """A surplus descriptor is created at t0; afterwards the connection keeps sending complete, well-formed messages
        that announce and carry one descriptor each, at intervals well below pending_fd_timeout.  There are unclaimed
        descriptors at the bus all the time, so the connection has to be dropped (or the descriptors released) within the
        timeout counted from t0 - traffic must not postpone it.  Bounded progress: t0 + 4 * timeout + 10 s."""
        rng = self.rng
        ms = self.mc(S)
        T = self.timeout_ms / 1000.0
        a = rng.randint(2, self.M)
        h = rng.randint(1, a - 1)

        def dest():
            ok = [c for c in self.usable() if c is not S and self.mc(c).negotiated and not self.model.denied(self.mc(c), 1)
                  and not self.mc(c).q]
            if ok and rng.random() < 0.8:
                return rng.choice(ok).unique, "negotiated"
            return NAME_MISSING, "missing"

        spec = Spec(kind="call-noreply", flags=1, h=h, relation="less")
        spec.dest, spec.dest_class = dest()
        spec.fds = self.new_fds(a)
        t0 = time.time()
        self.transmit(S, spec)
        bound = 4 * T + 10.0
        n = 0
        self.part.count("surplus-keepalive-histories")
        while S.unique in self.clients:
            if time.time() - t0 > bound:
                raise NotEnforced("pending-timeout-not-enforced:surplus-with-traffic",
                                  "a connection has had unclaimed descriptors at the bus for %.1f s (pending_fd_timeout=%d ms) while "
                                  "it kept sending %d well-formed one-descriptor messages every %d ms; it is still connected and "
                                  "the descriptors are still open in the bus" % (time.time() - t0, self.timeout_ms, n, int(T * 333)))
            time.sleep(T / 3.0)
            if S.unique not in self.clients:
                break
            if not ms.q:
                break
            tab = self.daemon.open_fds() or {}
            if not any(p.link in tab.values() for p in ms.q):
                # either the connection has just been dropped (we have not noticed yet) or the bus released the
                # descriptors and kept the connection: both are fine, find out which
                try:
                    S.barrier()
                    alive = True
                except client.Closed:
                    alive = False
                if not alive:
                    self.await_gone(S.unique)
                    self.forget(S)
                    self.part.count("pending-timeouts-enforced")
                    self.check_held("surplus-keepalive")
                    break
                tab = self.daemon.open_fds() or {}
                if not any(p.link in tab.values() for p in ms.q):
                    self.step("  the bus no longer holds the unclaimed descriptors of %s but keeps the connection" % self.name_of(S))
                    self.part.count("surplus-released-without-disconnect")
                    ms.q = []
                    break
            spec = Spec(kind="call-noreply", flags=1, h=1, relation="eq")
            spec.dest, spec.dest_class = dest()
            spec.fds = self.new_fds(1)
            self.transmit(S, spec)
            n += 1
        dt = time.time() - t0
        self.part.count("surplus-keepalive-enforced")
        self.part.count("surplus-keepalive-messages", n)
        self.part.sig("surplus-keepalive", min(n, 4), a - h)
        self.step("  surplus episode over after %.2f s and %d follow-up messages" % (dt, n))

    def await_timeout(self, S, why):
        t0 = time.time()
        n = len(self.mc(S).q)
        self.step("  %s has %d descriptor(s) pending (%s); waiting for pending_fd_timeout=%d ms" % (self.name_of(S), n, why, self.timeout_ms))
        gone = S.wait_eof(timeout=self.timeout_ms / 1000.0 + client.WATCHDOG)
        dt = time.time() - t0
        self.part.count("pending-timeouts-awaited")
        self.part.sig("pending-timeout", why, min(n, 3))
        if not gone:
            # a watchdog like any other: inconclusive first, the history is re-run alone, only a repeat is reported
            raise NotEnforced("pending-timeout-not-enforced:%s" % why,
                              "connection with %d unclaimed descriptors still connected %.1f s after they were sent "
                              "(pending_fd_timeout=%d ms)" % (n, dt, self.timeout_ms))
        if dt * 1000.0 < self.timeout_ms * 0.5:
            self.part.count("pending-timeout-early")
        self.await_gone(S.unique)
        boxes = {S.unique: S.take_inbox()}
        self.forget(S)
        self.part.count("pending-timeouts-enforced")
        self.check_held("pending-timeout/" + why)

    def close_client(self, c, why):
        self.step("close %s (%s)" % (self.name_of(c), why))
        u = c.unique
        c.close()
        self.await_gone(u)
        self.forget(c)
        self.check_held("close/" + why.split()[0])

    def op_reply(self, R, S, call_serial):
        rng = self.rng
        k = rng.choice([0, 0, 1, 1, 2, self.M])
        if self.timeout_ms is not None and self.mc(R).q:
            k = 0
        h = k
        rel = "eq"
        if k and rng.random() < 0.1 and self.timeout_ms is None:
            h, rel = k - 1, "less"
        ms = self.mc(S)
        if NAME_NOFDS in ms.names or NAME_MAXTWO in ms.names:
            dcls = "policy-" + ("nofds" if NAME_NOFDS in ms.names else "maxtwo")
        else:
            dcls = "negotiated" if ms.negotiated else "not-negotiated"
        spec = Spec(kind="reply", mtype=2, dest=S.unique, dest_class=dcls, h=h, relation=rel,
                    reply_serial=call_serial, flags=1)
        spec.fds = self.new_fds(k)
        cls = self.transmit(R, spec)
        self.after_surplus(R, cls)

    def op_split_stall(self, S):
        """First part (with the descriptors) is written, then the sender stalls."""
        rng = self.rng
        ms = self.mc(S)
        a = rng.choice([1, 1, 2, self.M, self.M, self.M + 1])
        spec = Spec(kind=rng.choice(["call-noreply", "signal"]), h=a, relation="eq", placement="split-stall")
        spec.mtype = 4 if spec.kind == "signal" else 1
        spec.flags = 1
        spec.dest, spec.dest_class = self.pick_dest(S, a)
        spec.fds = self.new_fds(a)
        serial, data = self.encode(S, spec)
        cut = rng.choice([1, rng.randint(1, 15), 16, rng.randint(17, len(data) - 1)])
        cls = "%s/%s/eq/split-stall" % (spec.kind, spec.dest_class)
        self.cur_cls = cls
        for p in spec.fds:
            p.op_class = "split-stall"
        q_before = len(ms.q)
        candidates = list(ms.q) + list(spec.fds)
        self.step("split-stall from=%s serial=%d dest=%s(%s) attached=%d first-part=%d of %d bytes pending-before=%d" % (
            self.name_of(S), serial, spec.dest.decode(), spec.dest_class, a, cut, len(data), q_before))
        self.part.evaluations += 1
        ok = self.write(S, [(data[:cut], [p.fd for p in spec.fds])])
        pre = self.model.absorb(ms, spec.fds, first_byte=True)
        legal = q_before == 0 and ms.negotiated
        if not ms.negotiated:
            # nothing pending at the bus: it simply waits for the rest
            pass
        if pre == "disconnect:too-many-fds":
            self.part.sig("split-stall", spec.dest_class, "too-many")
            self.part.count("outcome:disconnect:too-many-fds")
            gone = S.wait_eof(timeout=client.WATCHDOG)
            if not gone:
                self.mismatch("not-disconnected:too-many-fds", "split first part with too many descriptors")
                self.close_client(S, "not dropped")
                return
            self.await_gone(S.unique)
            self.forget(S)
            self.check_held(cls)
            return
        ms.partial = (spec, serial, data, [(data[cut:], [])], pre, legal, candidates)
        if self.timeout_ms is not None and ms.q:
            self.part.sig("split-stall", spec.dest_class, "timeout")
            self.check_held(cls)
            ms.partial = None
            self.await_timeout(S, "split-stall")
            return
        self.part.sig("split-stall", spec.dest_class, "parked")
        self.check_held(cls)

    def op_resolve_partial(self, S):
        rng = self.rng
        ms = self.mc(S)
        spec, serial, data, rest, pre, legal, candidates = ms.partial
        r = rng.random()
        # The addressee may have stopped reading since the first part was written.  A completed message that has to
        # wait inside the bus counts against the sender's max_incoming_unix_fds; at the limit the bus (legitimately)
        # stops reading from the sender, whose barrier would then never be answered - abandon instead of resuming.
        tgt = self.model.owner(spec.dest) if spec.dest else None
        if tgt is not None and tgt in self.not_reading() and not self.budget_ok(S, spec.h or 0, [tgt]):
            r = 1.0
            self.part.count("resume-avoided-sender-would-hit-max-incoming")
        if r < 0.6:
            ms.partial = None
            cls = self.transmit(S, spec, partial_resume=(serial, data, rest, pre, legal, candidates))
            self.after_surplus(S, cls)
        else:
            self.part.sig("split-stall", "abandon")
            ms.partial = None
            self.close_client(S, "abandons a half-written message")

    def op_malformed(self, S):
        rng = self.rng
        a = rng.choice([1, 1, 2, self.M])
        spec = Spec(kind="call-noreply", flags=1, h=a, relation="eq",
                    malformed=rng.choice(["body-strlen", "body-nul", "fields-len", "version"]))
        spec.placement = rng.choice(["first", "chunked"]) if self.timeout_ms is None else "first"
        spec.dest, spec.dest_class = self.pick_dest(S, a)
        spec.fds = self.new_fds(a)
        self.transmit(S, spec)

    def op_oversized(self, S):
        rng = self.rng
        a = rng.choice([1, 2, self.M])
        spec = Spec(kind="call-noreply", flags=1, h=a, relation="eq", pad=self.max_size + rng.randint(0, 300))
        spec.dest, spec.dest_class = self.pick_dest(S, a)
        spec.fds = self.new_fds(a)
        self.transmit(S, spec)

    def op_sender_closes(self, S):
        rng = self.rng
        a = rng.choice([1, 2, self.M])
        if self.mc(S).q:
            return self.close_client(S, "with descriptors pending")
        if not self.mc(S).negotiated:
            return self.op_send(S)
        spec = Spec(kind=rng.choice(["call-noreply", "signal"]), h=a, relation="eq", then_close=True)
        spec.mtype = 4 if spec.kind == "signal" else 1
        spec.flags = 1
        spec.dest, spec.dest_class = self.pick_dest(S, a)
        spec.fds = self.new_fds(a)
        if rng.random() < 0.4:
            # only part of the message, then close
            spec.placement = "truncated"
            serial, data = self.encode(S, spec)
            cut = rng.randint(1, len(data) - 1)
            cls = "truncated-then-close"
            for p in spec.fds:
                p.op_class = cls
            self.step("truncated from=%s serial=%d dest=%s attached=%d first-part=%d of %d bytes, then close" % (
                self.name_of(S), serial, spec.dest.decode(), a, cut, len(data)))
            self.part.evaluations += 1
            self.write(S, [(data[:cut], [p.fd for p in spec.fds])])
            u = S.unique
            S.close()
            self.await_gone(u)
            self.forget(S)
            boxes = {}
            for c in self.usable():
                c.barrier()
                boxes[c.unique] = c.take_inbox()
            self.judge_generic(boxes, cls)
            for uu, recs in boxes.items():
                for rec in recs:
                    if rec.msg.known().get(7) == u and rec.msg.serial == serial:
                        self.violation("unexpected-delivery:%s" % cls, "half of a message was delivered to %s" % uu.decode())
            self.part.sig("truncated-then-close", spec.dest_class)
            self.part.count("outcome:truncated-then-close")
            self.check_held(cls)
            return
        self.transmit(S, spec)

    def op_recipient_closes(self, S):
        """The addressee closes and the message is written before the bus has announced that."""
        rng = self.rng
        others = [c for c in self.usable() if c is not S and not self.mc(c).q]
        if not others or not self.mc(S).negotiated or self.mc(S).q:
            return self.op_send(S)
        R = rng.choice(others)
        a = rng.choice([1, 2, self.M])
        mr = self.mc(R)
        spec = Spec(kind=rng.choice(["call-noreply", "signal"]), h=a, relation="eq", dest=R.unique, dest_class="closing")
        spec.mtype = 4 if spec.kind == "signal" else 1
        spec.flags = 1
        spec.fds = self.new_fds(a)
        self.step("close %s (addressee of the next message; not waited for)" % self.name_of(R))
        u = R.unique
        R.close()
        serial, data = self.encode(S, spec)
        cls = "recipient-closing"
        for p in spec.fds:
            p.op_class = cls
        self.step("%s from=%s serial=%d dest=%s(closing) attached=%d" % (spec.kind, self.name_of(S), serial, u.decode(), a))
        self.part.evaluations += 1
        ok = self.write(S, [(data, [p.fd for p in spec.fds])])
        pre = self.model.absorb(self.mc(S), spec.fds, True)
        if pre is None:
            self.model.route(self.mc(S), spec.mtype, spec.dest, spec.h, len(data))    # claims the descriptors
        self.await_gone(u)
        self.forget(R)
        alive = True
        try:
            S.barrier()
        except client.Closed:
            alive = False
        if not alive:
            self.await_gone(S.unique)
            if pre is None:
                self.violation("sender-dropped:%s" % cls, "sender of a well-formed message to a closing peer was disconnected")
            self.forget(S)
        boxes = {}
        for c in self.usable():
            if c is not S:
                c.barrier()
            boxes[c.unique] = c.take_inbox()
        self.judge_generic(boxes, cls)
        for uu, recs in boxes.items():
            for rec in recs:
                if rec.msg.known().get(7) == (S.unique) and rec.msg.serial == serial and rec.msg.type == spec.mtype:
                    self.violation("unexpected-delivery:%s" % cls, "message for a closed connection delivered to %s" % uu.decode())
        self.part.sig("recipient-closes", spec.kind, min(a, 3))
        self.part.count("outcome:recipient-closing")
        self.check_held(cls)

    def op_stall_recipient(self, S):
        """R stops reading; filler traffic fills its socket so that later messages queue inside the bus."""
        rng = self.rng
        cands = [c for c in self.usable() if c is not S and self.mc(c).negotiated and not self.mc(c).q]
        if not cands or self.max_size < FILLER_BYTES * 2 or not self.mc(S).negotiated or self.mc(S).q:
            return False
        if any(m.stalled for m in self.model.conns.values()):
            return False
        R = rng.choice(cands)
        mr = self.mc(R)
        mr.stalled = True
        self.step("stall %s: it stops reading; %s sends %d x %d bytes of filler to it" % (self.name_of(R), self.name_of(S), FILLER_MSGS, FILLER_BYTES))
        body = b"f" * FILLER_BYTES
        for _ in range(FILLER_MSGS):
            serial, data = S.build(1, path=PATH, iface=FD_IFACE, member=b"Filler", dest=R.unique, flags=1, sig=b"s", body=[body])
            S.send_bytes(data)
        S.barrier()
        S.take_inbox()
        self.part.count("recipients-stalled")
        # a few descriptor-carrying messages that now have to wait inside the bus
        for _ in range(rng.randint(1, 3)):
            if S.unique not in self.clients:
                break
            a = rng.choice([1, 2, min(3, self.M), self.M])
            inflight = sum(len(x[2]) for x in mr.inflight)
            if inflight + a > min(INFLIGHT_CAP, self.max_incoming - 1):
                break
            spec = Spec(kind=rng.choice(["call-noreply", "signal"]), h=a, relation="eq", dest=R.unique, dest_class="not-reading")
            spec.mtype = 4 if spec.kind == "signal" else 1
            spec.flags = 1
            spec.fds = self.new_fds(a)
            self.transmit(S, spec)
        tab = self.daemon.open_fds() or {}
        want = [p.link for x in mr.inflight for p in x[2]]
        if want and all(l in tab.values() for l in want):
            self.part.count("queued-descriptors-seen-inside-bus")
        return True

    def op_unstall(self, R):
        rng = self.rng
        mr = self.mc(R)
        if rng.random() < 0.55:
            self.step("unstall %s: reads everything (%d messages with descriptors waiting)" % (self.name_of(R), len(mr.inflight)))
            mr.stalled = False
            self.part.count("recipients-resumed")
            self.drain_inflight(R)
            self.check_held("unstall")
        else:
            self.part.count("recipients-closed-while-stalled")
            self.part.sig("stalled-recipient-closes", min(3, len(mr.inflight)))
            for x in mr.inflight:
                for p in x[2]:
                    p.op_class = "queued-for-recipient-that-closes"
            self.close_client(R, "while %d messages with descriptors wait for it" % len(mr.inflight))

    # ------------------------------------------------------------------ driver
    def run(self):
        rng = self.rng
        self.setup()
        nsteps = rng.randint(8, 30)
        for _ in range(nsteps):
            if self.failed:
                break
            if not self.daemon.alive():
                self.violation("bus-died", "the bus exited during the history")
                break
            while len(self.clients) < 2:
                self.add_client(force_negotiated=not any(m.negotiated for m in self.model.conns.values()))
            parked = [c for c in self.clients.values() if self.mc(c).partial is not None]
            stalled = [c for c in self.clients.values() if self.mc(c).stalled]
            r = rng.random()
            if parked and r < 0.35:
                self.op_resolve_partial(rng.choice(parked))
                continue
            if stalled and r < 0.3:
                self.op_unstall(rng.choice(stalled))
                continue
            us = self.usable()
            if not us:
                if parked:
                    self.op_resolve_partial(parked[0])
                elif stalled:
                    self.op_unstall(stalled[0])
                continue
            # bias towards senders that negotiated (the others mostly exercise one path)
            neg = [c for c in us if self.mc(c).negotiated]
            S = rng.choice(neg) if neg and rng.random() < 0.8 else rng.choice(us)
            r = rng.random()
            if self.timeout_ms is not None and self.M >= 2 and self.mc(S).negotiated and not self.mc(S).q and rng.random() < 0.045:
                self.op_surplus_keepalive(S)
                continue
            if r < 0.58:
                self.op_send(S)
            elif r < 0.67:
                self.op_split_stall(S)
            elif r < 0.74:
                self.op_malformed(S)
            elif r < 0.79:
                if self.max_size < (1 << 20):
                    self.op_oversized(S)
                else:
                    self.op_send(S)
            elif r < 0.85:
                self.op_sender_closes(S)
            elif r < 0.90:
                self.op_recipient_closes(S)
            elif r < 0.96:
                if not self.op_stall_recipient(S):
                    self.op_send(S)
            else:
                if len(self.clients) < 5:
                    self.add_client()
        self.finish()

    def finish(self):
        """Close every participant, wait until the bus has processed that, compare with the baseline."""
        if self.daemon is None:
            return
        if self.daemon.alive() and self.obs is not None and not self.obs.closed and not self.failed:
            for c in list(self.clients.values()):
                u = c.unique
                c.close()
                self.await_gone(u)
                self.forget(c)
            self.step("all participants closed")
            self.obs.barrier()
            self.check_final()
            self.obs.barrier()     # the bus keeps working
        self.cleanup()

    def cleanup(self):
        for c in self.everyone:
            try:
                c.close()
            except Exception:
                pass
        if self.factory is not None:
            self.factory.close()
        if self.daemon is not None and not self.daemon.stopped:
            st, err = self.daemon.stop()
            if "Failed to close file descriptor" in err:
                # close_unix_fds() got EBADF: the descriptor had been closed before (closed twice)
                self.part.violation("%s:double-close" % PROP, "the bus logged a failing close() of a passed descriptor (%s)"
                                    % self.cur_cls, self.witness({"stderr": err[-2000:]}))
            for cls, site, text in self.daemon.problems():
                self.part.violation("%s:%s:%s" % (PROP, cls, site), "bus reported %s (%s)" % (cls, self.cur_cls),
                                    self.witness({"stderr": text[-3000:]}))
            self.part.count("bus-shutdowns-scraped")


def run_history(b, rundir, seed, shard, i, part):
    """One history with watchdog handling; returns the History."""
    hid = shard * 100000 + i
    h = History(b, os.path.join(rundir, "h%d" % i), gen.rng_for(seed, PROP, shard, i), part, hid)
    try:
        h.run()
        part.count("histories")
        return h
    except (client.Timeout, client.Closed) as e:
        part.count("watchdog")
        h.failed = True
        alive1 = h.daemon.alive() if h.daemon else False
        try:
            h.cleanup()
        except Exception:
            pass
        if not alive1:
            # the bus died: cleanup() has reported why (sanitizer / exit status)
            return h
        h2 = History(b, os.path.join(rundir, "h%d-retry" % i), gen.rng_for(seed, PROP, shard, i), part, hid)
        try:
            h2.run()
            part.count("histories")
        except (client.Timeout, client.Closed) as e2:
            alive = h2.daemon.alive() if h2.daemon else False
            h2.failed = True
            try:
                h2.cleanup()
            except Exception:
                pass
            if isinstance(e2, NotEnforced) and isinstance(e, NotEnforced):
                part.violation("%s:%s" % (PROP, e2.key), e2.what + " (twice)", h2.witness())
            else:
                part.violation("%s:hang:%s" % (PROP, type(e2).__name__), "history hung twice (bus alive=%s): %s" % (alive, h2.cur_cls),
                               h2.witness())
        finally:
            try:
                h2.cleanup()
            except Exception:
                pass
        return h2
    finally:
        try:
            h.cleanup()
        except Exception:
            pass


def _worker(args):
    seed, shard, count = args
    part = report.Part()
    b = build.build("asan", quiet=True)
    rundir = tempfile.mkdtemp(prefix="verif-c15-")
    try:
        base = fdpass.self_fd_count()
        for i in range(count):
            h = run_history(b, rundir, seed, shard, i, part)
            if shard == 0 and i < 2:
                part.sample({"history": h.hid, "steps": h.steps[:30]})
            shutil.rmtree(os.path.join(rundir, "h%d" % i), ignore_errors=True)
            shutil.rmtree(os.path.join(rundir, "h%d-retry" % i), ignore_errors=True)
            now = fdpass.self_fd_count()
            if now != base:
                part.inconclusive.append("harness leaked descriptors itself: %d open before history %d, %d after"
                                         % (base, h.hid, now))
                base = now
            else:
                part.count("harness-fd-balance-ok")
    finally:
        shutil.rmtree(rundir, ignore_errors=True)
    return part


def run(tier, seed, replay=None, scale=1.0):
    r = report.Run(PROP, tier)
    r.rule = RULE
    b = build.build("asan")
    r.builds.append(b.info())
    if replay:
        doc = json.load(open(replay))
        hid = doc["witness"]["history"]
        shard, i = divmod(hid, 100000)
        part = report.Part()
        rundir = tempfile.mkdtemp(prefix="verif-c15-")
        try:
            h = run_history(b, rundir, doc["seed"], shard, i, part)
            part.sample({"history": hid, "steps": h.steps[:60]})
        finally:
            shutil.rmtree(rundir, ignore_errors=True)
        part.sig("replay", 0)
        part.sig("replay", 1)
        r.merge(part)
        return r.finish()
    total = int((304 if tier == "quick" else 8000) * scale)
    per = max(1, total // 16)
    for part in report.run_sharded(_worker, [(seed, i, per) for i in range(16)]):
        r.merge(part)
    r.extra["outcomes"] = {k[8:]: int(v) for k, v in sorted(r.counters.items()) if k.startswith("outcome:")}
    r.extra["sanitizer_reports"] = sorted(set(v["key"] for v in r.violations if ":asan:" in v["key"] or ":lsan:" in v["key"]
                                              or ":ubsan:" in v["key"] or ":assert:" in v["key"]))
    if scale >= 1:
        for k in ("outcome:deliver", "outcome:broadcast", "outcome:driver", "outcome:refuse:no-such-name", "outcome:refuse:policy",
                  "outcome:refuse:recipient-not-negotiated", "outcome:disconnect:too-many-fds", "outcome:disconnect:missing-fds",
                  "outcome:disconnect:malformed", "outcome:disconnect:oversized", "pending-timeouts-enforced",
                  "recipients-closed-while-stalled", "recipients-resumed", "queued-descriptors-seen-inside-bus",
                  "outcome:recipient-closing", "outcome:truncated-then-close", "refusal-error-seen", "surplus-keepalive-enforced",
                  "surplus-keepalive-messages"):
            r.require(k, 1)
        r.require("receive-denied-interface:with-fds:refuse:policy", 40)
        r.require("receive-denied-interface:with-fds:broadcast", 10)
        r.require("descriptors-compared", 200)
        r.require("fd-table-checks-with-descriptors-held", 5)
    r.require("deliveries-compared", 10)
    r.require("final-table-checks", 5)
    r.require("fd-table-checks", 30)
    r.assumptions = [
        "SCM_RIGHTS stream semantics of Linux: descriptors are attached to the first byte of the sendmsg that carried them and "
        "one recvmsg never returns descriptors of two sendmsg calls",
        "/proc/<pid>/fd of the bus is read at quiescent points established by ordering barriers (driver round-trips) and, after a "
        "disconnect, by NameOwnerChanged for the unique name followed by an observer barrier",
        "whether the bus disconnects an offending sender is not judged (the property does not say); a mispredicted disconnect "
        "makes the run inconclusive instead",
        "a descriptor closed twice is not externally visible; approximated by ASan/LSan reports, the baseline comparison and the "
        "bus answering a final round-trip",
    ]
    return r.finish()
