"""C16 - name, path, signature and UTF-8 checks accept exactly the specified grammars."""
import itertools
import json

from vf import build, gen, hrun, report, wire

PROP = "C16"

NAME_ALPHA = [b"A", b"z", b"0", b"_", b"-", b".", b":", b"/", b"\x00", b"\x80", b" "]
SIG_ALPHA_FULL = [bytes([c]) for c in b"ybnqiuxtdsoghva(){}"] + [b"r", b"e", b"z", b"\x00"]
SIG_ALPHA_RED = [bytes([c]) for c in b"yisgva(){}"]
UTF_ALPHA = [bytes([c]) for c in (0x00, 0x41, 0x7F, 0x80, 0x8F, 0x90, 0x9F, 0xA0, 0xBF, 0xC0, 0xC1, 0xC2, 0xDF,
                                  0xE0, 0xE1, 0xEC, 0xED, 0xEE, 0xEF, 0xF0, 0xF1, 0xF3, 0xF4, 0xF5, 0xF7, 0xF8,
                                  0xFB, 0xFC, 0xFD, 0xFE, 0xFF)]

RULE = ("exhaustive enumeration of all strings up to length L over one representative byte per character class "
        "(names/paths: %d symbols; signatures: %d (full) / %d (reduced) symbols; UTF-8: %d lead/continuation class "
        "bytes, all 1..4-byte combinations), plus nesting ladders, random names of length 250..260 and random "
        "valid names; every string is given to all 7 internal predicates and (if NUL-free) all 8 public functions; "
        "oracle = grammars in vf/wire.py; distinct = (predicate, oracle reason class, length) triples"
        % (len(NAME_ALPHA), len(SIG_ALPHA_FULL), len(SIG_ALPHA_RED), len(UTF_ALPHA)))

PREDS = [  # (name, internal bit, public bit, oracle -> None if valid else reason)
    ("bus_name", 0, 8, wire.bus_name_reason),
    ("interface", 1, 9, wire.interface_reason),
    ("member", 2, 10, wire.member_reason),
    ("error_name", 3, 11, wire.interface_reason),
    ("path", 4, 12, wire.path_reason),
]


def _sig_reason(b):
    try:
        wire.parse_signature(b)
        return None
    except wire.Invalid as e:
        return ("unspecified:" if e.unspecified else "") + e.reason


def _sig_single_reason(b):
    try:
        wire.parse_signature(b, single=True)
        return None
    except wire.Invalid as e:
        return ("unspecified:" if e.unspecified else "") + e.reason


def _utf8_reason(b):
    if b"\0" in b:
        return "nul"
    try:
        b.decode("utf-8", "strict")
        return None
    except UnicodeDecodeError as e:
        return "invalid-utf8"


def _space(kind, L):
    if kind == "name":
        alpha = NAME_ALPHA
    elif kind == "sigfull":
        alpha = SIG_ALPHA_FULL
    elif kind == "sigred":
        alpha = SIG_ALPHA_RED
    else:
        alpha = UTF_ALPHA
    return alpha, L


def _enum_shard(kind, L, shard, nshards):
    """Strings of length exactly L over the alphabet whose index mod nshards == shard."""
    alpha, L = _space(kind, L)
    if L == 0:
        if shard == 0:
            yield b""
        return
    # shard on the first two symbols to keep itertools fast
    heads = list(itertools.product(alpha, repeat=min(2, L)))
    for hi, head in enumerate(heads):
        if hi % nshards != shard:
            continue
        h = b"".join(head)
        if L <= 2:
            yield h
        else:
            for tail in itertools.product(alpha, repeat=L - 2):
                yield h + b"".join(tail)


def _extra_strings(rng, n):
    out = []
    for _ in range(n):
        r = rng.random()
        if r < 0.25:   # names around the 255 limit
            total = rng.randint(250, 260)
            el = []
            cur = 0
            while cur < total:
                k = min(total - cur, rng.randint(1, 60))
                el.append(bytes(rng.choice(b"abcXYZ_") for _ in range(1)) + bytes(rng.choice(b"abcXYZ_019") for _ in range(k - 1)))
                cur += k + 1
            s = rng.choice([b"", b":", b"/"]) + rng.choice([b".", b"/"]).join(el)
            out.append(s[:rng.randint(250, 260)])
        elif r < 0.33:
            out.append(gen.deep_signature(rng))
        elif r < 0.4:
            out.append(gen.misnested_signature(rng))
        elif r < 0.5:   # signatures around 255
            out.append(rng.choice([b"i", b"ai", b"(ii)", b"a{sv}"]) * rng.randint(40, 130))
        elif r < 0.6:
            out.append(gen.rand_signature(rng, 6, 6))
        elif r < 0.7:
            out.append(gen.rand_string(rng))
        elif r < 0.78:
            out.append(gen.rand_interface(rng))
        elif r < 0.86:
            out.append(gen.rand_busname(rng))
        elif r < 0.93:
            out.append(gen.rand_path(rng))
        else:
            s = bytearray(rng.choice([gen.rand_interface(rng), gen.rand_path(rng), gen.rand_unique(rng), gen.rand_type(rng, 0, 5)]))
            if s:
                s[rng.randrange(len(s))] = rng.choice(b".:/-_ 09aA(){}\x00\x80\xc3")
            out.append(bytes(s))
    return out


def _judge(part, s, mask, which):
    if mask is None or not isinstance(mask, int) or mask < 0:
        part.inconclusive.append("no harness answer for %r" % s[:40])
        return
    public = bool(mask & (1 << 16))
    L = len(s)
    wit = {"hex": s.hex(), "mask": mask}
    if mask & (1 << 20):
        # signature validation legitimately peeks at the byte after the range (an 'a' as last code): only the
        # other predicates are required to be independent of what surrounds the range
        names = ["bus_name", "interface", "member", "error_name", "path", "utf8", "signature"]
        differing = [names[i] for i in range(7) if ((mask >> i) & 1) != ((mask >> (21 + i)) & 1)]
        differing = [d for d in differing if d != "signature"]
        if differing:
            part.violation("%s:%s:verdict-depends-on-surrounding-bytes" % (PROP, differing[0]),
                           "validating the same bytes inside a larger string gives a different verdict (%s)" % ",".join(differing), wit)
    part.count("embedded-evaluations")

    def verdict(name, ibit, pbit, reason):
        got_i = bool(mask & (1 << ibit))
        unspec = reason is not None and reason.startswith("unspecified:")
        part.sig(name, reason or "valid", min(L, 8))
        if not unspec:
            if got_i and reason is not None:
                part.violation("%s:%s:accepted-but-invalid:%s" % (PROP, name, reason),
                               "internal %s predicate accepts a string the grammar forbids (%s)" % (name, reason), wit)
            elif not got_i and reason is None:
                part.violation("%s:%s:rejected-but-valid" % (PROP, name), "internal %s predicate rejects a valid string" % name, wit)
        if public and pbit is not None:
            got_p = bool(mask & (1 << pbit))
            if got_p != got_i:
                part.violation("%s:%s:entrypoints-disagree" % (PROP, name),
                               "public function says %s, internal predicate says %s" % (got_p, got_i), wit)
            part.count("public-evaluations")
        part.count("predicate-evaluations")

    if which in ("name", "extra"):
        for name, ibit, pbit, fn in PREDS:
            verdict(name, ibit, pbit, fn(s))
    if which in ("utf", "extra", "name"):
        verdict("utf8", 5, 13, _utf8_reason(s))
    if which in ("sig", "extra"):
        verdict("signature", 6, 14, _sig_reason(s))
        if public:
            r1 = _sig_single_reason(s)
            got = bool(mask & (1 << 15))
            part.sig("signature_single", r1 or "valid", min(L, 8))
            if not (r1 or "").startswith("unspecified:"):
                if got and r1 is not None:
                    part.violation("%s:signature_single:accepted-but-invalid:%s" % (PROP, r1),
                                   "dbus_signature_validate_single accepts %s" % r1, wit)
                elif not got and r1 is None:
                    part.violation("%s:signature_single:rejected-but-valid" % PROP, "dbus_signature_validate_single rejects a single complete type", wit)
            part.count("predicate-evaluations")


def _worker(args):
    seed, exe, kind, L, shard, nshards, nextra = args
    part = report.Part()
    if kind == "extra":
        rng = gen.rng_for(seed, PROP, "extra", shard)
        strings = _extra_strings(rng, nextra)
        which = "extra"
    else:
        strings = list(_enum_shard(kind, L, shard, nshards))
        which = {"name": "name", "sigfull": "sig", "sigred": "sig", "utf": "utf"}[kind]
    CH = 50000
    for off in range(0, len(strings), CH):
        chunk = strings[off:off + CH]
        res = hrun.run_cases(exe, [x.hex() or "-" for x in chunk], per_batch_timeout=600)
        for s, m in zip(chunk, res):
            part.evaluations += 1
            if isinstance(m, dict) and "crash" in m:
                c = m["crash"]
                key = "%s:%s:%s" % (PROP, (c.get("class") or ("crash", "?"))[0], (c.get("class") or ("crash", "?"))[1])
                part.violation(key, "predicate crashed / sanitizer report", {"hex": s.hex(), "stderr": c.get("stderr", "")[-2000:]})
                continue
            _judge(part, s, m, which)
    part.count("space:%s:len%d" % (kind, L), len(strings))
    if shard == 0 and strings:
        part.sample({"space": kind, "len": L, "example": strings[len(strings) // 2].hex()}, cap=1)
    return part


BUS_ALPHA = [b"A", b"z", b"0", b"_", b"-", b".", b":", b"/", b" "]


def _bus_worker(args):
    """Cross-entry-point layer: the same strings are offered to a running bus as RequestName argument and as
    values of the sender / interface / member / path keys of AddMatch; the bus must accept exactly what the
    library predicate (mask from h_syntax) accepts - plus the documented extra refusals of RequestName."""
    import shutil
    import tempfile
    from vf import busproc, client
    seed, exe, shard, nshards, L = args
    part = report.Part()
    b = build.build("asan", quiet=True)
    strings = []
    for ln in range(1, L + 1):
        for t in itertools.product(BUS_ALPHA, repeat=ln):
            strings.append(b"".join(t))
    rng = gen.rng_for(seed, PROP, "bus", shard)
    strings += [gen.rand_interface(rng) for _ in range(40)] + [gen.rand_busname(rng) for _ in range(40)] + \
               [gen.rand_path(rng) for _ in range(40)] + [b"a." + b"b" * 252, b"a." + b"b" * 253, b"a." + b"b" * 254]
    strings = [x for i, x in enumerate(strings) if i % nshards == shard]
    masks = hrun.run_cases(exe, [x.hex() or "-" for x in strings], per_batch_timeout=300)
    rundir = tempfile.mkdtemp(prefix="verif-c16-")
    try:
        d = busproc.Daemon(b, rundir, busproc.make_config("@SOCK@"), name="bus")
        c = client.connect(d.sock)
        nrules = 0
        for x, m in zip(strings, masks):
            if not isinstance(m, int):
                continue
            part.evaluations += 1
            wit = {"hex": x.hex(), "mask": m}
            r = c.bus_call(b"RequestName", b"su", [x, 4])
            ok = r.msg.type == 2
            lib = bool(m & 1)
            want = lib and x[:1] != b":" and x != b"org.freedesktop.DBus"
            if ok != want:
                part.violation("%s:bus-entry:RequestName:%s" % (PROP, "accepts-what-library-rejects" if ok else "rejects-what-library-accepts"),
                               "RequestName verdict %s, library predicate %s" % (ok, lib), wit)
            if ok:
                c.bus_call(b"ReleaseName", b"s", [x])
            part.count("bus-entry:RequestName")
            if b"'" in x or b"," in x:
                continue
            for key, bit in ((b"sender", 0), (b"interface", 1), (b"member", 2), (b"path", 4)):
                text = key + b"='" + x + b"'"
                r = c.bus_call(b"AddMatch", b"s", [text])
                ok = r.msg.type == 2
                lib = bool(m & (1 << bit))
                if ok != lib:
                    part.violation("%s:bus-entry:AddMatch-%s:%s" % (PROP, key.decode(), "accepts-what-library-rejects" if ok else "rejects-what-library-accepts"),
                                   "AddMatch(%s=...) verdict %s, library predicate %s" % (key.decode(), ok, lib), wit)
                if ok:
                    c.bus_call(b"RemoveMatch", b"s", [text])
                part.count("bus-entry:AddMatch")
                part.sig("bus-entry", key.decode(), ok, min(len(x), 6))
        c.close()
        d.stop()
        for cls, site, text in d.problems():
            part.violation("%s:%s:%s" % (PROP, cls, site), "daemon reported %s" % cls, {"stderr": text[-2000:]})
    finally:
        shutil.rmtree(rundir, ignore_errors=True)
    c.take_inbox()
    return part


def _dispatch(a):
    return _bus_worker(a[1]) if a[0] == "bus" else _worker(a)


def run(tier, seed, replay=None, scale=1.0):
    r = report.Run(PROP, tier)
    r.rule = RULE
    b = build.build("asan")
    r.builds.append(b.info())
    exe = b.harness("h_syntax")
    if replay:
        w = json.load(open(replay))["witness"]
        s = bytes.fromhex(w["hex"])
        part = report.Part()
        res = hrun.run_cases(exe, [s.hex() or "-"])
        part.evaluations = 1
        _judge(part, s, res[0], "extra")
        r.merge(part)
        return r.finish()
    if tier == "quick":
        plan = [("name", L) for L in range(0, 6)] + [("sigfull", L) for L in range(0, 5)] + \
               [("utf", L) for L in range(1, 4)] + [("sigred", 5), ("sigred", 6)]
        nextra = 3000
        utf4 = 4     # every 4th head of the 4-byte UTF-8 space
    else:
        plan = [("name", L) for L in range(0, 7)] + [("sigfull", L) for L in range(0, 6)] + \
               [("utf", L) for L in range(1, 5)] + [("sigred", 6), ("sigred", 7)]
        nextra = 40000
        utf4 = 0
    shards = []
    for kind, L in plan:
        ns = 1 if L <= 2 else 16
        if scale < 1 and L > 3:
            continue
        for sh in range(ns):
            shards.append((seed, exe, kind, L, sh, ns, 0))
    if tier == "quick" and scale >= 1:
        # a quarter of the 4-byte UTF-8 space (shards 0..3 of 16, rotated by seed)
        for i in range(utf4):
            shards.append((seed, exe, "utf", 4, (seed + i) % 16, 16, 0))
    for sh in range(16):
        shards.append((seed, exe, "extra", 0, sh, 16, max(10, int(nextra * scale) // 16)))
    busL = 3 if tier == "quick" else 4
    if scale >= 1:
        shards += [("bus", (seed, exe, sh, 16, busL)) for sh in range(16)]
    for part in report.run_sharded(_dispatch, shards):
        r.merge(part)
    exhaustive = sorted(k for k in r.counters if k.startswith("space:"))
    r.extra["exhaustive_subspaces"] = {k: int(r.counters[k]) for k in exhaustive}
    r.extra["exhaustive"] = False
    r.require("predicate-evaluations", 1000)
    r.require("public-evaluations", 500)
    if scale >= 1:
        r.require("bus-entry:AddMatch", 500)
        r.require("bus-entry:RequestName", 200)
    r.assumptions = ["grammars in vf/wire.py transcribe the specification's Valid Names / Valid Object Paths / Valid Signatures / UTF-8 text",
                     "bus entry points (RequestName argument; sender/interface/member/path values of AddMatch) are compared with the library predicate's verdict on the same string; message parsing is C01's"]
    return r.finish()
