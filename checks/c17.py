"""C17 - every call awaiting a reply completes exactly once."""
import errno
import json
import os
import re
import select
import shutil
import subprocess
import tempfile
import time

from vf import build, gen, hrun, peer as vpeer, report, wire
from vf.models import pending_client as model

PROP = "C17"
RULE = ("operation scripts for a private libdbus client connection (1..4 threads after dbus_threads_init_default; "
        "send_with_reply with timeouts 3 ms..infinite, set_notify, cancel, block, send_with_reply_and_block, "
        "read_write_dispatch / read_write / dispatch, the application's timer duty dbus_timeout_handle, polling "
        "get_completed, steal_reply) against a scripted Python peer whose per-call reply script permutes reply order, "
        "duplicates, omits, answers unknown serials, sends errors, sends SIGNALs / METHOD_CALLs that carry the call's serial as REPLY_SERIAL (not replies), delays, batches and closes the socket at step i; "
        "plus multi-blocker scripts: 2..4 threads block (block / send_with_reply_and_block, timeouts none or 20..30 s) on different calls of one "
        "connection, the peer answers all of them in ONE write() in an order of its own and then stays silent - every blocking wait must "
        "return (harness monitor: 5 s after the first one returned; Python kills the harness after 12 s); "
        "plus re-registration scripts: dbus_connection_set_timeout_functions is called again (same function pointers with other data = another "
        "main-loop context of the harness, other function pointers, or NULL and back) while calls with 3..60 ms timeouts are outstanding, some "
        "answered later, some never; timers are fired only from the context libdbus was last given; the harness checks that every timeout "
        "registered before is registered exactly once, in the new context, afterwards; "
        "plus reply-then-close scripts: the peer answers k>=1 outstanding calls (all, or some of them) in one write() and closes at once while "
        "the client is not reading; the harness reads only after it saw hangup and unread bytes pending on the socket (poll/FIONREAD), observes "
        "through notify / get_completed + steal_reply after dispatching (optionally one blocking wait as first reader) - every answered call "
        "completes with that reply; "
        "plus the serial part (checks/c17ser.py, harness/h_serial.c): hook H4 puts the connection's serial counter at a chosen value (70 % of "
        "the cases so that the 32-bit wrap happens inside the case) and 1..4 threads send signals, method returns and calls through every "
        "sending entry point (send with/without out parameter, preallocated send, send_with_reply, send_with_reply_and_block); the peer "
        "records what arrives (independent codec) and answers each call with the call's token - no serial 0 on the wire or from the API, no "
        "serial twice in a case, API value = wire value, every call completed by its own reply; "
        "each script runs on an ASan+UBSan build and on a TSan build; the completion log (atomic sequence numbers) is "
        "judged by vf/models/pending_client.py. distinct = per-call (how it completed, cancel relation, observers, "
        "timeout class, what the peer sent, connection lost, threads>1, flavor)")

INFINITE = model.INFINITE
TIMEOUTS = [3, 8, 15, 30, 60]
DELAYS = [0, 0, 1, 2, 5, 10, 20, 40, 70]
ERRNAME = "com.example.Err"


# ----------------------------------------------------------------------------- generation

def make_case(rng):
    nthreads = rng.choice([1, 1, 1, 2, 2, 3, 4])
    ncalls = rng.choice([1, 2, 3, 4, 6, 8, 12])
    hold = rng.choice([0, 0, 0, ncalls, max(1, ncalls // 2)])
    close = None
    if rng.random() < 0.22:
        close = [rng.randint(1, ncalls), rng.choice([0, 0, 2, 10, 30]), int(rng.random() < 0.5)]
    noise = int(rng.random() < 0.3)
    pcalls = {}
    seqs = []
    maxdelay = 0
    maxfinite = 0
    est_ms = 0
    p_cancel = rng.choice([0.0, 0.25, 0.5])
    p_block = rng.choice([0.0, 0.3, 0.6])
    for c in range(ncalls):
        is_w = rng.random() < 0.15
        timeout = rng.choice(TIMEOUTS) if is_w else rng.choice(TIMEOUTS + TIMEOUTS + [INFINITE, 25000])
        shapes = [["ret"], ["ret"], ["ret"], ["err"], ["ret", "ret"], ["ret", "err"], [], ["unk"], ["unk", "ret"], ["err", "err"],
                  # messages that are not replies but carry REPLY_SERIAL = this call's serial: before / instead of / after the reply
                  ["sig"], ["sig", "ret"], ["ret", "sig"], ["call", "ret"], ["call"], ["sig", "err"]]
        acts = []
        for copy, kind in enumerate(rng.choice(shapes)):
            d = "H" if (hold and rng.random() < 0.6) else rng.choice(DELAYS)
            if d != "H":
                maxdelay = max(maxdelay, d)
            acts.append([kind, d, copy, rng.randint(0, 99)])
        pcalls[str(c)] = acts
        if model.is_finite(timeout):
            maxfinite = max(maxfinite, timeout)
        th = rng.randrange(nthreads)
        seq = []
        if is_w:
            seq.append("%dW%d,%d" % (th, c, timeout))
            est_ms += timeout
        else:
            nflag = rng.choice([0, 0, 1, 1, 2])
            seq.append("%dS%d,%d,%d" % (th, c, timeout, nflag))
            follow = []
            if nflag == 0 and rng.random() < 0.5:
                follow.append("N%d,%d" % (c, rng.randint(0, 1)))
            if rng.random() < p_cancel:
                follow.append("X%d" % c)
            if model.is_finite(timeout) and rng.random() < p_block:   # short timeouts only: block must return
                follow.append("B%d" % c)
                est_ms += timeout
            for _ in range(rng.randint(0, 3)):
                follow.append("G%d" % c)
            if rng.random() < 0.4:
                follow.append("T%d" % c)
            rng.shuffle(follow)
            for f in follow:
                # mostly the sending thread, sometimes another one
                t2 = th if rng.random() < 0.6 else rng.randrange(nthreads)
                seq.append("%d%s" % (t2, f))
                if rng.random() < 0.3:
                    seq.append("%dZ%d" % (t2, rng.choice([50, 200, 1000, 3000])))
        seqs.append(seq)
    # the main-loop duty: pumps, raw reads, dispatches, timer firing
    budget = rng.choice([0, 15, 40, 90, 150])
    pumps = []
    pump_threads = [0] if rng.random() < 0.7 else list(range(nthreads))
    while budget > 0:
        ms = rng.choice([0, 1, 2, 5, 10])
        t = rng.choice(pump_threads)
        r = rng.random()
        if r < 0.7:
            pumps.append("%dP%d" % (t, ms))
        elif r < 0.8:
            pumps.append("%dR%d" % (t, ms))
            pumps.append("%dD" % t)
        elif r < 0.9:
            pumps.append("%dF" % t)
            ms = 0
        else:
            pumps.append("%dZ%d" % (t, ms * 1000))
        budget -= max(1, ms)
        est_ms += ms
    seqs.append(pumps)
    ops = []
    live = [s for s in seqs if s]
    while live:
        s = rng.choice(live)
        ops.append(s.pop(0))
        if not s:
            live.remove(s)
    # min_run_ms 0: the end of the peer's script is a logical barrier (the Fin call), not a waiting time;
    # drain_ms is only the watchdog for calls that never complete
    return {"nthreads": nthreads, "ncalls": ncalls, "min_run_ms": 0,
            "drain_ms": 8000 + maxfinite, "est_ms": est_ms, "peer_ms": maxdelay + (close[1] if close else 0), "ops": ";".join(ops),
            "peer": {"calls": pcalls, "hold": hold, "close": close, "noise": noise}}


# Multi-blocker one-write cases.  The timeouts are none (DBUS_TIMEOUT_INFINITE) or so long that within the watch only
# the peer's reply can end a blocking wait; the watch is far below them and far above any scheduling delay.
MB_FINITE = [20000, 25000, 30000]
MB_WATCH_MS = 5000          # harness monitor: after the first blocking wait of the case returned
MB_BACKSTOP_S = 12.0        # Python side: after the peer's one write(), when the harness says nothing at all
# exploration only (VERIF_C17_MB_EXPLORE=1): no barrier between the sends and the blocking waits
MB_EXPLORE = os.environ.get("VERIF_C17_MB_EXPLORE", "0") == "1"


def make_mb_case(rng):
    k = rng.choice([2, 2, 3, 3, 4])
    tclass = rng.choice(["inf", "inf", "fin", "mix"])
    if tclass == "inf":
        timeouts = [INFINITE] * k
    elif tclass == "fin":
        timeouts = [rng.choice(MB_FINITE) for _ in range(k)]
    else:
        timeouts = [rng.choice([INFINITE] + MB_FINITE) for _ in range(k)]
        a, b = rng.sample(range(k), 2)
        timeouts[a] = INFINITE
        timeouts[b] = rng.choice(MB_FINITE)
    # Every call is on the socket before any thread starts a blocking wait (barrier op A): a message queued while another
    # thread sleeps in its blocking wait is not written until that wait ends - a different matter, see MB_EXPLORE.
    first_sends = rng.random() < 0.3        # thread 1 sends every call, the others only block
    w_thread = rng.randrange(k) if rng.random() < 0.3 else None    # this one uses send_with_reply_and_block (and is the first reader)
    # the order of the replies inside the one write(): a permutation that is not the call order
    order = list(range(k))
    while order == list(range(k)):
        rng.shuffle(order)
    pcalls = {}
    seqs = [["0J%d" % MB_WATCH_MS]]
    head = []
    n_s = k - (1 if w_thread is not None else 0)
    for c in range(k):
        th = c + 1
        pcalls[str(c)] = [[rng.choice(["ret", "ret", "ret", "err"]), "H", 0, order.index(c)]]
        seq = []
        if c == w_thread:
            if not MB_EXPLORE:
                seq.append("%dA%d,0" % (th, n_s))
            seq.append("%dW%d,%d" % (th, c, timeouts[c]))
        else:
            snd = "%dS%d,%d,%d" % (1 if first_sends else th, c, timeouts[c], rng.choice([0, 0, 1, 2]))
            (head if first_sends else seq).append(snd)
            if not MB_EXPLORE:
                seq.append("%dA%d,%d" % (th, n_s, int(w_thread is not None)))
            z = rng.choice([0, 0, 300, 2000, 10000, 30000])
            if z:
                seq.append("%dZ%d" % (th, z))
            seq.append("%dB%d" % (th, c))
            if rng.random() < 0.5:
                seq.append("%dG%d" % (th, c))
            if rng.random() < 0.4:
                seq.append("%dT%d" % (th, c))
        seqs.append(seq)
    seqs[1] = head + seqs[1]
    ops = [o for seq in seqs for o in seq]
    hold_delay = rng.choice([30, 60, 120])
    # a third of the cases: unrelated signals arrive while the threads wait, before the one write (this wakes the
    # reader and makes the waiters go round their loops; it exposed the negative I/O-path timeout repaired by 85a2716)
    mid = None
    if rng.random() < 0.4:
        mid = [rng.choice([2, 10, 25, 40]), rng.randint(2, 20), rng.randint(3, 10)]
        hold_delay = mid[1] + mid[0] * mid[2] + rng.choice([20, 60])
    return {"nthreads": k + 1, "ncalls": k, "min_run_ms": 0, "drain_ms": 8000, "est_ms": 200, "peer_ms": 200, "ops": ";".join(ops),
            "peer": {"calls": pcalls, "hold": k, "hold_delay": hold_delay, "hold_noise": int(rng.random() < 0.25), "mid_noise": mid,
                     "ack": w_thread, "close": None, "noise": int(rng.random() < 0.3)},
            "mb": {"k": k, "watch_ms": MB_WATCH_MS, "timeouts": timeouts, "order": order, "swrb": w_thread}}


# Reply-then-close cases.  Timeouts that cannot elapse within a case, so that only the reply or the loss of the
# connection can complete a call (-1 = libdbus's default, 25 s).
RC_TIMEOUTS = [INFINITE, -1, 25000, 3600000]


def make_rc_case(rng):
    k = rng.choice([1, 1, 2, 3, 4, 6])
    unanswered = set()
    if k >= 2 and rng.random() < 0.3:           # mixed: some calls get no reply before the close
        unanswered = set(rng.sample(range(k), rng.randint(1, k - 1)))
    answered = [c for c in range(k) if c not in unanswered]
    nthreads = 2 if rng.random() < 0.3 else 1
    order = list(range(k))
    rng.shuffle(order)
    pcalls = {}
    ops = []
    nflags = {}
    for c in range(k):
        pcalls[str(c)] = [] if c in unanswered else [[rng.choice(["ret", "ret", "ret", "err"]), "H", 0, order.index(c)]]
        nflags[c] = rng.choice([0, 1, 1, 2, 2])
        ops.append("0S%d,%d,%d" % (c, rng.choice(RC_TIMEOUTS), nflags[c]))
        if nflags[c] == 0 and rng.random() < 0.3:
            ops.append("0N%d,%d" % (c, rng.randint(0, 1)))
        if rng.random() < 0.3:
            ops.append("0G%d" % c)
    # the client does not read until the peer's hangup (and with it everything written before) is pending on the socket
    ops.append("0C10000")
    # the first read: a raw read, a pump, or a blocking wait on one of the answered calls
    first = rng.choice(["R", "P", "P", "B"])
    blocked = None
    if first == "B":
        blocked = rng.choice(answered)
        ops.append("0B%d" % blocked)
    else:
        ops.append("0%s0" % first)
    others = []
    for c in range(k):
        for _ in range(rng.randint(0, 2)):
            others.append("G%d" % c)
        if rng.random() < 0.5:
            others.append("T%d" % c)
    rng.shuffle(others)
    pumps = []
    for _ in range(k + rng.choice([0, 2, 4])):     # sometimes too few: the rest is left to the harness's drain loop
        r = rng.random()
        pumps.append("P%d" % rng.choice([0, 0, 1]) if r < 0.6 else "D" if r < 0.85 else "R0")
    main_ops = []
    side_ops = []
    while pumps or others:
        if pumps and (not others or rng.random() < 0.6):
            main_ops.append("0" + pumps.pop(0))
        else:
            o = others.pop(0)
            if nthreads == 2 and rng.random() < 0.6:
                side_ops.append("1" + o)
                if rng.random() < 0.5:
                    side_ops.append("1Z%d" % rng.choice([50, 200, 1000]))
            else:
                main_ops.append("0" + o)
    if nthreads == 2 and not side_ops:
        side_ops = ["1Z200", "1G0"]
    ops += main_ops + side_ops
    return {"nthreads": nthreads, "ncalls": k, "min_run_ms": 0, "drain_ms": 8000, "est_ms": 300, "peer_ms": 100, "ops": ";".join(ops),
            "peer": {"calls": pcalls, "hold": k, "hold_delay": rng.choice([0, 0, 5, 20]), "hold_noise": int(rng.random() < 0.25),
                     "close_after_write": 1, "close": None, "noise": int(rng.random() < 0.3)},
            "rc": {"k": k, "answered": answered, "unanswered": sorted(unanswered), "first_read": first, "blocked": blocked}}


# Re-registration cases: dbus_connection_set_timeout_functions() is called again (op M) while calls with short
# timeouts are outstanding; some of them are answered later by the peer, some never.
def make_rr_case(rng):
    n_before = rng.choice([1, 2, 2, 3, 4, 6])
    n_after = rng.choice([0, 0, 1, 2])
    two = rng.random() < 0.3                       # a second move later on
    nthreads = 2 if rng.random() < 0.25 else 1     # the second thread only polls get_completed
    k = n_before + n_after
    pcalls = {}
    maxdelay = 0
    maxt = 0
    sends = []
    follow = {}
    for c in range(k):
        r = rng.random()
        if r < 0.45:
            acts = []                               # never answered: only the timeout can complete it
        else:
            d = rng.choice([0, 2, 5, 10, 20, 40, 70])
            maxdelay = max(maxdelay, d)
            acts = [[rng.choice(["ret", "ret", "err"]), d, 0, rng.randint(0, 99)]]
        pcalls[str(c)] = acts
        t = rng.choice(TIMEOUTS + [25000, INFINITE]) if (acts and rng.random() < 0.25) else rng.choice(TIMEOUTS)
        if model.is_finite(t):
            maxt = max(maxt, t)
        nflag = rng.choice([0, 1, 1, 2, 2])
        sends.append("0S%d,%d,%d" % (c, t, nflag))
        f = []
        if nflag == 0 and rng.random() < 0.3:
            f.append("N%d,%d" % (c, rng.randint(0, 1)))
        for _ in range(rng.randint(0, 2)):
            f.append("G%d" % c)
        if rng.random() < 0.4:
            f.append("T%d" % c)
        follow[c] = f

    def move():
        mode = rng.choice([0, 0, 0, 1, 2])
        return "0M%d,%d" % (mode, rng.choice([0, 0, 500, 3000]) if mode == 2 else 0)

    def pumps(n):
        out = []
        for _ in range(n):
            r = rng.random()
            out.append("0P%d" % rng.choice([0, 1, 2, 5]) if r < 0.6 else "0F" if r < 0.75 else "0Z%d" % rng.choice([200, 1000, 3000])
                       if r < 0.9 else "0R0")
        return out

    ops = sends[:n_before]
    ops += pumps(rng.choice([0, 0, 1, 2]))          # mostly: nothing has been read or fired before the move
    ops.append(move())
    tail = sends[n_before:] + pumps(rng.randint(1, 5))
    if two:
        tail.insert(rng.randint(0, len(tail)), move())
    obs = [o for c in range(k) for o in follow[c]]
    rng.shuffle(obs)
    side = []
    for o in obs:
        if nthreads == 2 and o[0] == "G" and rng.random() < 0.6:
            side.append("1" + o)
            if rng.random() < 0.5:
                side.append("1Z%d" % rng.choice([200, 1000, 5000]))
        else:
            tail.insert(rng.randint(0, len(tail)), "0" + o)
    if nthreads == 2 and not side:
        side = ["1Z1000", "1G0"]
    # an observation op on a call must not precede its send in thread 0's own sequence (wait_call would spin): order them
    seen, fixed, late = set(), [], []
    for o in ops + tail:
        if o[1] == "S":
            seen.add(int(o[2:].split(",")[0]))
            fixed.append(o)
            fixed += [x for x in late if int(x[2:].split(",")[0]) in seen]
            late = [x for x in late if int(x[2:].split(",")[0]) not in seen]
        elif o[1] in "NGT" and int(o[2:].split(",")[0]) not in seen:
            late.append(o)
        else:
            fixed.append(o)
    fixed += late
    return {"nthreads": nthreads, "ncalls": k, "min_run_ms": 0, "drain_ms": 8000 + maxt, "est_ms": maxt + 100, "peer_ms": maxdelay,
            "ops": ";".join(fixed + side),
            "peer": {"calls": pcalls, "hold": 0, "close": None, "noise": int(rng.random() < 0.3)},
            "rr": {"n_before": n_before, "n_after": n_after, "moves": 2 if two else 1}}


def case_line(case):
    return "%d %d %d %d %s" % (case["nthreads"], case["ncalls"], case["min_run_ms"], case["drain_ms"], case["ops"])


# ----------------------------------------------------------------------------- the scripted peer

class Script(object):
    def __init__(self, pscript):
        self.p = pscript
        self.n = 0
        self.held = []
        self.fin_serial = None
        self.fin_answered = False
        self.joined = None          # the bytes of the one write() that carries every held reply

    def maybe_finish(self, pr):
        """answer the harness's final barrier call once nothing scripted is left to be written"""
        if self.fin_serial is not None and not self.fin_answered and not pr.queue and pr.conn is not None:
            self.fin_answered = True
            pr._write(vpeer.method_return(pr, self.fin_serial))

    def on_message(self, pr, m):
        if m.type == wire.T_CALL and m.field(wire.F_MEMBER) == b"Fin":
            self.fin_serial = m.serial
            return
        if m.type != wire.T_CALL or m.body_sig != b"u":
            return
        idx = m.body[0]
        self.n += 1
        if self.p.get("noise") and self.n == 1:
            pr.send_at(0, vpeer.signal(pr))
        if self.p.get("ack") == idx:
            pr.send_at(0, vpeer.signal(pr))      # tells the threads at the barrier that this call has arrived
        for kind, delay, copy, prio in self.p["calls"].get(str(idx), []):
            if kind == "ret":
                data = vpeer.method_return(pr, m.serial, b"uu", [idx, copy])
            elif kind == "err":
                data = vpeer.error_reply(pr, m.serial, ERRNAME.encode(), b"suu", [b"scripted error", idx, copy])
            elif kind == "sig":
                data = vpeer.spoof(pr, wire.T_SIGNAL, m.serial, b"uu", [idx, copy])
            elif kind == "call":
                data = vpeer.spoof(pr, wire.T_CALL, m.serial, b"uu", [idx, copy])
            else:
                data = vpeer.method_return(pr, (m.serial + 100000) & 0x7FFFFFFF, b"uu", [idx + 1000, copy])
            if delay == "H":
                self.held.append((prio, len(self.held), data))
            else:
                pr.send_at(delay / 1000.0, data)
        if self.p.get("hold") and self.n == self.p["hold"] and self.held:
            parts = [d for _, _, d in sorted(self.held)]
            if self.p.get("hold_noise"):
                parts.insert(len(parts) // 2, vpeer.signal(pr))
            self.joined = b"".join(parts)
            pr.send_at(self.p.get("hold_delay", 0) / 1000.0, self.joined)
            if self.p.get("close_after_write"):
                # reply-then-close: scheduled behind the write (same due time, later sequence number): one write(), then close
                pr.close_at(self.p.get("hold_delay", 0) / 1000.0, flush=True)
            self.held = []
            # unrelated traffic while the threads wait, before the one write: [count, first_ms, gap_ms]
            mn = self.p.get("mid_noise")
            for i in range(mn[0] if mn else 0):
                pr.send_at((mn[1] + i * mn[2]) / 1000.0, vpeer.signal(pr))
        cl = self.p.get("close")
        if cl and self.n == cl[0]:
            pr.close_at(cl[1] / 1000.0, flush=bool(cl[2]))


def peer_log(pr):
    """decode what was really written to the socket (independent codec)"""
    log = model.PeerLog()
    log.closed = pr.closed_by_us
    log.reply_writes = []       # per write() that carried replies: (time after the write, [idx markers in write order])
    for t_w, data in pr.sent_log:
        off = 0
        in_this = []
        while off + 16 <= len(data):
            try:
                n = wire.frame_length(data[off:])
                m = wire.decode(data[off:off + n])
            except wire.Invalid:
                break
            off += n
            if m.type in (wire.T_SIGNAL, wire.T_CALL) and m.field(wire.F_REPLY_SERIAL) is not None:
                body = [x for x in m.body if isinstance(x, int)]
                log.spoofs[m.field(wire.F_REPLY_SERIAL)].append((m.type, body[0] if body else None, body[1] if len(body) > 1 else None))
            if m.type in (wire.T_RETURN, wire.T_ERROR):
                name = m.field(wire.F_ERROR_NAME, b"")
                body = [x for x in m.body if isinstance(x, int)]
                log.add(m.field(wire.F_REPLY_SERIAL), m.type, name.decode() if name else "", body[0] if body else None,
                        body[1] if len(body) > 1 else None)
                if body and body[0] < 1000:
                    in_this.append(body[0])
        if in_this:
            log.reply_writes.append((t_w, in_this))
    return log


# ----------------------------------------------------------------------------- harness session

def timer_gate():
    """'1' (default): dbus_timeout_handle is never called while another thread is inside libdbus; '0' only for exploration"""
    return "0" if os.environ.get("VERIF_C17_TIMER_GATE", "1") == "0" else "1"


def _no_core():
    import resource
    try:
        resource.setrlimit(resource.RLIMIT_CORE, (0, 0))
    except (ValueError, OSError):
        pass


class Session(object):
    def __init__(self, exe, rundir, tag, delay=None):
        self.exe = exe
        self.delay = delay          # hook H3: "<permille>:<max_us>:<seed>" or None
        self.rundir = rundir
        self.peer = vpeer.Peer(rundir, "peer-" + tag)
        self.errpath = os.path.join(rundir, "stderr-" + tag)
        self.proc = None
        self.erroff = 0
        self.exit_timeouts = 0

    def start(self):
        self.stop()
        self.errf = open(self.errpath, "ab")
        self.erroff = self.errf.tell()
        env = hrun.san_env()
        env["TSAN_OPTIONS"] = env["TSAN_OPTIONS"] + ":second_deadlock_stack=1:history_size=4"
        # The sanitizer builds enable DBUS_ENABLE_EMBEDDED_TESTS.  Its malloc fault-injection counter is a plain global
        # that DBusMemPool saves/restores around its block allocation and asserts on (dbus-mempool.c) - with two threads
        # that assertion fires for reasons that have nothing to do with pending calls and do not exist in a production
        # build.  The documented debug switch takes the pool (and that assertion) out of the picture and, as a bonus,
        # gives every list link / hash entry its own heap block for ASan.
        env["DBUS_DISABLE_MEM_POOLS"] = "1"
        env["VERIF_C17_TIMER_GATE"] = timer_gate()
        if self.delay:
            env["DBUS_VERIF_DELAY"] = self.delay
        self.proc = subprocess.Popen([self.exe, self.peer.address], stdin=subprocess.PIPE, stdout=subprocess.PIPE,
                                     stderr=self.errf, env=env, preexec_fn=_no_core)
        os.set_blocking(self.proc.stdout.fileno(), False)
        self.buf = b""

    def stop(self):
        if self.proc is not None:
            try:
                self.proc.stdin.close()
            except OSError:
                pass
            try:
                self.proc.wait(timeout=20)
            except subprocess.TimeoutExpired:
                self.exit_timeouts += 1
                self.proc.kill()
                self.proc.wait()
            self.proc.stdout.close()
            self.errf.close()
            self.proc = None

    def new_stderr(self):
        try:
            with open(self.errpath, "rb") as fh:
                fh.seek(self.erroff)
                data = fh.read()
            self.erroff += len(data)
            return data.decode("latin1")
        except OSError:
            return ""

    def close(self):
        self.stop()
        self.peer.close()

    def _discard(self, kill=True):
        if kill and self.proc.poll() is None:
            self.proc.kill()
        try:
            self.proc.wait(timeout=20)
        except subprocess.TimeoutExpired:
            pass
        rc = self.proc.returncode
        self.proc.stdout.close()
        self.errf.close()
        self.proc = None
        return rc

    def run_case(self, case, watchdog_s, stacks=False):
        """-> (result dict or None, status 'ok'|'hang'|'died'|'mb-stuck', peer log, stderr text of this case).
        Multi-blocker cases: once the peer's one write() has happened the watchdog is MB_BACKSTOP_S after it; a harness that
        reports stuck blocking waits (or says nothing) is killed here - its threads sit inside libdbus for good."""
        if self.proc is None or self.proc.poll() is not None:
            self.start()
        pr = self.peer
        pr.new_case()
        sc = Script(case["peer"])
        pr.on_message = sc.on_message
        try:
            self.proc.stdin.write((case_line(case) + "\n").encode())
            self.proc.stdin.flush()
        except OSError:
            return None, "died", peer_log(pr), self.new_stderr()
        deadline = time.monotonic() + watchdog_s
        out = self.proc.stdout
        status = "ok"
        line = None
        mb = case.get("mb")
        t_written = None
        while line is None:
            now = time.monotonic()
            if mb and t_written is None and sc.joined is not None:
                for t_w, data in pr.sent_log:
                    if data is sc.joined:
                        t_written = t_w
                        deadline = min(deadline, t_w + MB_BACKSTOP_S)
            if now > deadline:
                status = "hang"
                break
            pr.step(min(0.25, deadline - now), extra_rfds=[out])
            sc.maybe_finish(pr)
            try:
                chunk = os.read(out.fileno(), 1 << 20)
            except BlockingIOError:
                chunk = None
            if chunk:
                self.buf += chunk
            elif chunk == b"":
                status = "died"
                break
            i = self.buf.find(b"\n")
            if i >= 0:
                line, self.buf = self.buf[:i], self.buf[i + 1:]
        plog = peer_log(pr)
        perr = list(pr.protocol_errors)
        if status != "ok":
            res = {"protocol_errors": perr}
            if mb and status == "hang":
                if t_written is not None:
                    res["mb_silent_s"] = round(time.monotonic() - t_written, 1)
                if stacks and self.proc.poll() is None:
                    res["stacks"] = thread_stacks(self.proc.pid)
            res["rc"] = self._discard(kill=(status == "hang"))
            return res, status, plog, self.new_stderr()
        try:
            res = json.loads(line.decode("latin1"))
        except ValueError:
            res = {"unparseable": line[:200].decode("latin1")}
        res["protocol_errors"] = perr
        if mb and t_written is not None:
            res["peer_written_us"] = int(t_written * 1e6)       # time.monotonic() and the harness's clock are both CLOCK_MONOTONIC
        if res.get("mb_stuck"):
            if stacks and self.proc.poll() is None:
                res["stacks"] = thread_stacks(self.proc.pid)
            self._discard()
            return res, "mb-stuck", plog, self.new_stderr()
        return res, "ok", plog, self.new_stderr()


def thread_stacks(pid):
    """the stacks of a harness whose threads are stuck, for the witness (best effort)"""
    try:
        out = subprocess.run(["gdb", "-p", str(pid), "-batch", "-nx", "-ex", "set pagination off", "-ex", "thread apply all bt 16"],
                             stdin=subprocess.DEVNULL, stdout=subprocess.PIPE, stderr=subprocess.DEVNULL, timeout=60).stdout.decode("latin1")
    except (OSError, subprocess.SubprocessError):
        return ""
    keep = [re.sub(r" \(([^()]|\([^()]*\))*\) ", " (...) ", ln)[:200] for ln in out.split("\n") if re.match(r"(Thread \d+|#\d+ )", ln)]
    return "\n".join(keep)[:8000]


_tsan_frame = re.compile(r"#\d+ (\S+) (\S+?):\d+")
_bt_frame = re.compile(r"libdbus-1\.so[.\d]*\((\w+)\+0x")
_BT_SKIP = ("backtrace", "_dbus_print_backtrace", "_dbus_abort", "_dbus_real_assert", "_dbus_real_assert_not_reached",
            "_dbus_trace_ref", "_dbus_warn_check_failed", "_dbus_warn_return_if_fail", "_dbus_warn")

# Reports that are artefacts of the build configuration and say nothing about pending calls: the sanitizer builds
# enable DBUS_ENABLE_EMBEDDED_TESTS, whose malloc fault-injection bookkeeping in dbus-memory.c is a plain static int
# decremented by every dbus_malloc (it does not exist in a production build).
TSAN_NOT_JUDGED = {"_dbus_decrement_fail_alloc_counter": "embedded-tests-fail-alloc-counter",
                   "_dbus_get_fail_alloc_counter": "embedded-tests-fail-alloc-counter",
                   "_dbus_set_fail_alloc_counter": "embedded-tests-fail-alloc-counter"}


def _excerpt(t):
    return t if len(t) <= 5000 else t[:3600] + "\n[...]\n" + t[-1200:]


def sanitizer_reports(text):
    """-> list of (class, site, excerpt) for every report in a stderr excerpt; class None = counted, not judged"""
    out = []
    if not text:
        return out
    if "ThreadSanitizer" in text:
        for chunk in re.split(r"(?m)^={18}\s*$", text):
            if "WARNING: ThreadSanitizer" not in chunk:
                continue
            cls = hrun.classify_stderr(chunk)
            kind = cls[0] if cls else "tsan:unknown"
            # first in-tree frame of each access / lock stack (stacks are separated by blank lines); the stacks
            # that only say where memory, mutexes or threads were created are not part of the identity
            sites = []
            for stack in re.split(r"\n\s*\n", chunk):
                head = stack.strip().split("\n")[0]
                if re.match(r"\s*(Location is|Mutex M\d+ \(|Thread T\d+ )", head):
                    continue
                for fm in _tsan_frame.finditer(stack):
                    fn, loc = fm.group(1), fm.group(2)
                    if "/dbus/dbus-" in loc and "harness" not in loc:
                        sites.append(fn)
                        break
            if sites and all(x in TSAN_NOT_JUDGED for x in sites):
                out.append((None, TSAN_NOT_JUDGED[sites[0]], ""))
                continue
            sites = sorted(set(sites))
            out.append((kind, "/".join(sites[:3]) or "?", _excerpt(chunk)))
        rest = re.sub(r"(?s)={18}.*?={18}", "", text)
    else:
        rest = text
    m = re.search(r"ERROR: ThreadSanitizer: (\w+) on", rest)
    if m:
        site = "?"
        for fm in _tsan_frame.finditer(rest):
            if "/dbus/dbus-" in fm.group(2):
                site = fm.group(1)
                break
        out.append(("tsan:" + m.group(1), site, _excerpt(rest)))
        return out
    cls = hrun.classify_stderr(rest)
    pm = re.search(r"pthread function (\w+) failed with (\d+) [^\n]*? in (\w+)", rest)
    if not cls and pm:
        # libdbus's own check of a pthread call's result (fatal in builds with checks enabled)
        cls = ("pthread-failed:%s:%s:%s" % (pm.group(1), errno.errorcode.get(int(pm.group(2)), pm.group(2)), pm.group(3)), "?")
    if cls and not cls[0].startswith("tsan"):
        kind, site = cls
        if kind == "assert:not-reached":
            mm = re.search(r"should not have been reached: ([^\n]*)", rest)
            if mm:
                kind += ":" + re.sub(r"[^A-Za-z0-9]+", "-", mm.group(1)).strip("-")[:50]
        if site == "?":
            # libdbus's own backtrace: the key is the public entry point the application called (the last
            # libdbus frame above the harness), which has a symbol in every build flavor
            named = [f for f in _bt_frame.findall(rest) if f not in _BT_SKIP]
            api = [f for f in named if f.startswith("dbus_")]
            if api:
                site = api[-1]
            elif named:
                site = named[-1]
        out.append((kind, site, _excerpt(rest)))
    return out


# ----------------------------------------------------------------------------- judging one case

FAMILIES = ("tsan-data-race", "tsan-other", "tsan-crash", "asan-use-after-free", "asan-crash", "asan-other",
            "ubsan-null-deref", "ubsan-other", "assert-double-completion", "assert-timeout-removed", "assert-other",
            "pthread-call-failed", "other-crash")


def family(kind):
    """the small closed set of report families used as keys for multi-threaded (schedule dependent) cases"""
    if kind.startswith("tsan:data-race"):
        return "tsan-data-race"
    if kind.startswith("tsan:"):
        return "tsan-crash" if re.match(r"tsan:[A-Z]+$", kind) else "tsan-other"
    if kind.startswith("asan:heap-use-after-free"):
        return "asan-use-after-free"
    if kind.startswith("asan:SEGV") or kind.startswith("asan:stack-overflow") or kind.startswith("asan:FPE"):
        return "asan-crash"
    if kind.startswith(("asan:", "lsan:")):
        return "asan-other"
    if kind.startswith("ubsan:"):
        return "ubsan-null-deref" if "null-pointer" in kind else "ubsan-other"
    if kind.startswith("assert:dbus-pending-call.c:pending->reply-==-NULL") or kind.startswith("assert:dbus-pending-call.c:!pending->completed"):
        return "assert-double-completion"
    if kind.startswith("assert:not-reached:Nonexistent-timeout-was-removed"):
        return "assert-timeout-removed"
    if kind.startswith("pthread-failed:"):
        return "pthread-call-failed"
    if kind.startswith(("assert:", "api-check:", "invariant:")):
        return "assert-other"
    return "other-crash"


def report_key(kind, site, nthreads):
    """Sanitizer / assertion / crash reports: in single-threaded cases (deterministic) the key carries the error kind
    and the in-tree site; in multi-threaded cases which of several racing sites reports first depends on the schedule,
    so the key is only the family and the exact functions stay in the witness."""
    if nthreads is None or nthreads >= 2:
        return "%s:mt:%s" % (PROP, family(kind))
    return "%s:%s:%s" % (PROP, kind, site)


def judge_case(part, flavor, case, res, status, plog, err, final):
    """-> True when the case must be re-run alone before it can be judged (watchdog / incomplete)"""
    wit = {"flavor": flavor, "case": case}
    nth = case["nthreads"]
    rerun = False
    reports = sanitizer_reports(err)
    for kind, site, text in reports:
        if kind is None:
            part.count("tsan-report-not-judged:" + site)
            continue
        part.count("sanitizer-report:" + family(kind))
        part.violation(report_key(kind, site, nth), "%s at %s in the %s harness (%d thread(s))" % (kind, site, flavor, nth),
                       dict(wit, kind=kind, site=site, stderr=text))
    judged_reports = [x for x in reports if x[0]]
    mb = case.get("mb")
    if status == "mb-stuck":
        # the harness's monitor: a blocking wait has not returned MB_WATCH_MS after another one of the same write() did
        part.count("mb-stuck-report")
        if not final:
            return True
        findings, cnt = model.judge_multi_blocker_stuck(res, plog, mb)
        part.counters.update(cnt)
        for f in findings:
            if f.cls == "INCONCLUSIVE-MB":
                part.inconclusive.append(f.what)
            else:
                part.violation("%s:%s" % (PROP, f.cls), f.what + " (twice)", dict(wit, call=f.call, result=res,
                                                                                peer_writes=[w for _, w in plog.reply_writes]))
        return False
    if status == "hang" and mb and res and res.get("mb_silent_s") is not None:
        # not even the monitor reported: no blocking wait returned at all (or the monitor itself hangs inside libdbus)
        part.count("mb-silent-after-write")
        if not final:
            return True
        part.violation("%s:hang:no-blocker-returned-after-one-write" % PROP, "%.1f s after the peer wrote the replies to calls %r in one write() "
                       "no blocking wait on that connection had returned and the harness's monitor was silent, twice"
                       % (res["mb_silent_s"], [w for _, w in plog.reply_writes]), dict(wit, result=res, stderr=err[-3000:]))
        return False
    if status == "hang":
        if not final:
            return True
        part.violation("%s:hang:harness-stuck:%s" % (PROP, flavor), "the harness did not finish the script within the watchdog, twice",
                       dict(wit, stderr=err[-3000:], result=res))
        return False
    if status == "died":
        if not judged_reports:
            if not final:
                return True      # died without saying why (e.g. killed from outside): look again before judging
            part.violation(report_key("crash:rc%s" % (res.get("rc") if res else "?"), flavor, nth), "the harness died without a report, twice",
                           dict(wit, stderr=err[-3000:]))
        return False
    if res is None or "events" not in res:
        if not final:
            return True
        part.inconclusive.append("harness could not run a case: %r" % (res,))
        return False
    if res.get("protocol_errors"):
        part.violation("%s:client-sent-invalid-bytes" % PROP, "the peer could not decode what libdbus wrote: %s" % res["protocol_errors"][:2], wit)
    if res.get("ev_overflow"):
        part.inconclusive.append("event log overflow")
    findings, sigs, cnt = model.judge(res, plog, rc=case.get("rc"))
    part.counters.update(cnt)
    if mb:
        mcnt = model.judge_multi_blocker(res, plog, mb, [w for _, w in plog.reply_writes], res.get("peer_written_us"))
        spread = mcnt.pop("mb-completion-lag-max-ms", 0)
        part.counters.update(mcnt)
        part.mb_spread_max = max(getattr(part, "mb_spread_max", 0), spread)
        if spread > 100 and os.environ.get("VERIF_C17_MB_DEBUG"):
            part.sample({"mb_lag_ms": spread, "flavor": flavor, "script": case_line(case), "peer": case["peer"],
                         "events": ["%s t%d c%d %d" % (e["k"], e["t"], e["c"], e["us"]) for e in res["events"] if e["ph"] == 0]}, cap=12)
    mt = nth > 1
    for s in sigs:
        part.sig(s + (mt, flavor))
    orders = tuple(e["k"] for e in res["events"] if e["k"] in ("notify", "steal", "xend", "bend", "wend"))[:12]
    part.count("timers-fired", res.get("timers_fired", 0))
    part.extra_orders.add((orders, mt))
    for f in findings:
        if f.cls == "INCOMPLETE":
            if not final:
                rerun = True
            else:
                part.violation("%s:hang:incomplete-after-%s" % (PROP, "disconnect" if res.get("disconnected") else "timeout"),
                               f.what + " (twice)", dict(wit, result=_trim(res)))
        else:
            part.violation("%s:%s" % (PROP, f.cls), f.what, dict(wit, call=f.call, result=_trim(res)))
    if res.get("drain_timeout") and not any(f.cls == "INCOMPLETE" for f in findings):
        # every call that had to complete did, but the end-of-script barrier was never reached
        part.count("drain-timeout-without-incomplete-call")
        if not res.get("fin") and not res.get("disconnected"):
            if not final:
                rerun = True
            else:
                part.violation("%s:hang:barrier-reply-never-dispatched" % PROP, "the peer's answer to the final barrier call was never "
                               "dispatched within the watchdog, twice", dict(wit, result=_trim(res)))
    return rerun


def _trim(res):
    r = dict(res)
    r["events"] = res["events"][:400]
    return r


def _watchdog(case):
    return (case.get("est_ms", 500) + case["drain_ms"] + case["min_run_ms"] + case.get("peer_ms", 100)) / 1000.0 + 20.0


def _worker(args):
    if args[0] == "serial":
        from checks import c17ser
        return c17ser.worker(args[1:])
    seed, shard, count, flavor, exe = args
    rng = gen.rng_for(seed, PROP, shard)
    part = report.Part()
    part.extra_orders = set()
    cases = [make_case(rng) for _ in range(count)]
    # multi-blocker one-write cases on top (own generator stream: the ordinary cases of a seed stay what they were),
    # spread between the ordinary ones because the harness process is reused from case to case
    rng_mb = gen.rng_for(seed, PROP, "mb", shard)
    n_mb = max(1, count // 9)
    step = max(1, len(cases) // n_mb)
    for j in range(n_mb):
        cases.insert(min(len(cases), j * (step + 1) + step // 2), make_mb_case(rng_mb))
    # reply-then-close cases, likewise on top and with their own stream
    rng_rc = gen.rng_for(seed, PROP, "rc", shard)
    n_rc = max(1, count // 9)
    step = max(1, len(cases) // n_rc)
    for j in range(n_rc):
        cases.insert(min(len(cases), j * (step + 1) + step // 3), make_rc_case(rng_rc))
    # re-registration of the timeout functions under outstanding calls, likewise
    rng_rr = gen.rng_for(seed, PROP, "rr", shard)
    n_rr = max(1, count // 9)
    step = max(1, len(cases) // n_rr)
    for j in range(n_rr):
        cases.insert(min(len(cases), j * (step + 1) + (2 * step) // 3), make_rr_case(rng_rr))
    rundir = tempfile.mkdtemp(prefix="verif-c17-")
    # hook H3 (delay points after every release of the connection lock) in every second shard: the same kinds of scripts under
    # other interleavings than the scheduler alone produces; the other shards keep the undisturbed timing
    delay = None
    if shard % 2 == 1:
        rng_d = gen.rng_for(seed, PROP, "delay", shard)
        delay = "%d:%d:%d" % (rng_d.choice([40, 120, 350]), rng_d.choice([0, 60, 400, 2000]), (seed * 131 + shard) & 0x7FFFFFFF)
    ses = Session(exe, rundir, flavor, delay=delay)
    try:
        for i, case in enumerate(cases):
            part.evaluations += 1
            part.count("scripts:" + flavor)
            if delay:
                part.count("scripts-with-delay-points:" + flavor)
                if case["nthreads"] > 1:
                    part.count("mt-scripts-with-delay-points")
            part.count("threads:%d" % case["nthreads"])
            if case.get("rr"):
                part.count("rr-cases")
            if case.get("rc"):
                part.count("rc-cases")
                part.count("rc-cases:mixed" if case["rc"]["unanswered"] else "rc-cases:all-answered")
                part.count("rc-cases:first-read-" + {"R": "read", "P": "pump", "B": "block"}[case["rc"]["first_read"]])
            if case.get("mb"):
                part.count("mb-cases")
                part.count("mb-blockers", case["mb"]["k"])
                if INFINITE in case["mb"]["timeouts"]:
                    part.count("mb-cases:infinite")
                if any(t != INFINITE for t in case["mb"]["timeouts"]):
                    part.count("mb-cases:finite")
            t_case = time.monotonic()
            res, status, plog, err = ses.run_case(case, _watchdog(case))
            if time.monotonic() - t_case > 5.0:
                part.count("slow-case(>5s):" + status)
                part.sample({"slow_case_s": round(time.monotonic() - t_case, 1), "status": status, "flavor": flavor,
                             "script": case_line(case), "peer": case["peer"], "result": json.dumps(_trim(res) if res and "events" in res else res)[:3000]}, cap=12)
            if judge_case(part, flavor, case, res, status, plog, err, final=False):
                part.count("rerun-alone")
                ses.stop()
                want_stacks = part.counters["stacks-taken"] < 2
                res, status, plog, err = ses.run_case(case, _watchdog(case), stacks=want_stacks)
                if res and res.get("stacks"):
                    part.count("stacks-taken")
                if not judge_case(part, flavor, case, res, status, plog, err, final=True):
                    part.count("rerun-alone-resolved")
            if shard == 0 and i < 2 and flavor == "asan":
                part.sample({"script": case_line(case), "peer": case["peer"], "result": json.dumps(res)[:1200]})
        ses.stop()
        if ses.exit_timeouts:
            part.count("harness-exit-timeout", ses.exit_timeouts)
        for kind, site, text in sanitizer_reports(ses.new_stderr()):
            if kind is None:
                part.count("tsan-report-not-judged:" + site)
                continue
            part.violation(report_key(kind, site, None), "%s at %s at exit of the %s harness" % (kind, site, flavor),
                           {"flavor": flavor, "kind": kind, "site": site, "stderr": text})
    finally:
        ses.close()
        shutil.rmtree(rundir, ignore_errors=True)
    part.signatures |= set(("order",) + o for o in part.extra_orders)
    del part.extra_orders
    return part


def run(tier, seed, replay=None, scale=1.0):
    r = report.Run(PROP, tier, seed=seed)
    r.rule = RULE
    exes = {}
    sexes = {}
    for flavor in ("asan", "tsan"):
        b = build.build(flavor)
        r.builds.append(b.info())
        exes[flavor] = b.harness("h_pending")
        sexes[flavor] = b.harness("h_serial")
    if replay:
        w = json.load(open(replay))["witness"]
        if w.get("serial_part"):
            from checks import c17ser
            part = report.Part()
            c17ser.replay(part, sexes, w)
            part.signatures |= set([("serial-replay", 0), ("serial-replay", 1)])
            r.merge(part)
            return r.finish()
        case = w["case"]
        flavors = [w["flavor"]] if w.get("flavor") in exes else ["asan", "tsan"]
        part = report.Part()
        part.extra_orders = set()
        for flavor in flavors:
            rundir = tempfile.mkdtemp(prefix="verif-c17-")
            ses = Session(exes[flavor], rundir, flavor)
            try:
                for rep in range(int(os.environ.get("VERIF_REPLAY_REPEAT", "20"))):
                    part.evaluations += 1
                    res, status, plog, err = ses.run_case(case, _watchdog(case))
                    if judge_case(part, flavor, case, res, status, plog, err, final=False):
                        ses.stop()
                        res, status, plog, err = ses.run_case(case, _watchdog(case), stacks=(rep == 0))
                        judge_case(part, flavor, case, res, status, plog, err, final=True)
            finally:
                ses.close()
                shutil.rmtree(rundir, ignore_errors=True)
        part.signatures |= set(("order",) + o for o in part.extra_orders)
        del part.extra_orders
        r.merge(part)
        r.assumptions = ["a schedule-dependent witness is replayed %s times; absence of the violation on replay is not a refutation"
                         % os.environ.get("VERIF_REPLAY_REPEAT", "20")]
        return r.finish()
    total = int((600 if tier == "quick" else 20000) * scale)
    nshards = 16 if tier == "quick" else 64
    per = max(1, total // nshards)
    shards = []
    for i in range(nshards):
        for flavor in ("asan", "tsan"):
            shards.append((seed, i, per, flavor, exes[flavor]))
    # serial part (checks/c17ser.py): serials around the 32-bit wrap of the counter, every sending entry point, 1..4 threads
    stotal = int((640 if tier == "quick" else 16000) * scale)
    snsh = 8 if tier == "quick" else 32
    for i in range(snsh):
        for flavor in ("asan", "tsan"):
            shards.append(("serial", seed, i, max(1, stotal // (2 * snsh)), flavor, sexes[flavor]))
    spread_max = 0
    for part in report.run_sharded(_worker, shards):
        spread_max = max(spread_max, getattr(part, "mb_spread_max", 0))
        r.merge(part)
    # the longest a blocking wait of a multi-blocker case went on after the first one of its case had returned (or after its
    # own start, if later): what the machine's load alone did to runs that were judged fine (compare with MB_WATCH_MS)
    r.extra["mb_completion_lag_max_ms"] = spread_max
    r.extra["mb_watch_ms"] = MB_WATCH_MS
    orders = set(x for x in r.signatures if isinstance(x, tuple) and x and x[0] == "order")
    r.signatures -= orders
    r.extra["distinct_completion_orders"] = len(orders)
    # the first witness of every key is the replay file: prefer the simplest script (fewest threads, then shortest)
    r.violations.sort(key=lambda v: ((v["witness"] or {}).get("case", {}).get("nthreads", 9),
                                     len((v["witness"] or {}).get("case", {}).get("ops", ""))))
    full = scale >= 1
    r.require("scripts:asan", 500 if full else 1)
    r.require("scripts:tsan", 500 if full else 1)
    r.require("scripts-with-delay-points:asan", 200 if full else 1)
    r.require("scripts-with-delay-points:tsan", 200 if full else 1)
    r.require("mt-scripts-with-delay-points", 150 if full else 1)
    r.require("calls-judged", 2000 if full else 1)
    r.require("completed:peer-return", 300 if full else 1)
    r.require("completed:local-timeout", 100 if full else 1)
    r.require("serials-checked", 2000 if full else 1)
    r.require("serial-part:cases:asan", 200 if full else 1)
    r.require("serial-part:cases:tsan", 200 if full else 1)
    r.require("serial-part:cases-that-passed-the-wrap:st", 60 if full else 1)
    r.require("serial-part:cases-that-passed-the-wrap:mt", 60 if full else 1)
    r.require("serial-part:calls-in-wrapping-cases", 500 if full else 1)
    r.require("serial-part:calls-completed-with-own-reply", 1000 if full else 1)
    for _op in "snprcb":
        r.require("serial-part:op:" + _op, 200 if full else 1)
    r.require("timers-fired", 50 if full else 1)
    r.require("block", 100 if full else 1)
    r.require("swrb", 100 if full else 1)
    # several blocking waits answered by one write(): cases run, with / without a timeout, and those where at least two
    # threads were verifiably inside their blocking wait when the peer's single write() happened
    # the peer replies and closes at once, the client reads afterwards: cases run (all answered / mixed), those where the
    # harness verified hangup + unread bytes pending before its first read, answered calls and how they were observed
    # dbus_connection_set_timeout_functions called again under outstanding calls: cases, moves by kind that really had
    # timeouts to hand over, and what became of the calls that were outstanding at that moment
    r.require("rr-cases", 60 if full else 1)
    r.require("rr-ops-with-outstanding-timeouts:same-functions", 40 if full else 1)
    r.require("rr-ops-with-outstanding-timeouts:other-functions", 10 if full else 1)
    r.require("rr-ops-with-outstanding-timeouts:null-and-back", 10 if full else 1)
    r.require("rr-timeouts-moved", 150 if full else 1)
    r.require("rr-outstanding-then:local-timeout", 60 if full else 1)
    r.require("rr-outstanding-then:peer-return", 20 if full else 1)
    r.require("rr-calls-sent-after-rereg", 20 if full else 1)
    r.require("rc-cases", 60 if full else 1)
    r.require("rc-cases:all-answered", 30 if full else 1)
    r.require("rc-cases:mixed", 8 if full else 1)
    r.require("rc-precondition-verified", 60 if full else 1)
    r.require("rc-answered-completed-with-reply", 100 if full else 1)
    r.require("rc-completed-via:dispatch", 80 if full else 1)
    r.require("rc-observed-by:notify", 40 if full else 1)
    r.require("rc-observed-by:poll", 20 if full else 1)
    r.require("rc-observed-by:steal", 40 if full else 1)
    r.require("mb-cases", 60 if full else 1)
    r.require("mb-cases:infinite", 25 if full else 1)
    r.require("mb-cases:finite", 15 if full else 1)
    r.require("mb-one-write-verified", 60 if full else 1)
    r.require("mb-reply-order-differs-from-call-order", 30 if full else 1)
    r.require("mb-handover-cases", 40 if full else 1)
    r.require("mb-handover-cases:infinite", 15 if full else 1)
    r.require("mb-handover-cases:finite", 10 if full else 1)
    r.extra["flavors"] = ["asan", "tsan"]
    r.extra["timer_gate"] = timer_gate()
    r.extra["report_key_families_multithreaded"] = list(FAMILIES)
    r.extra["hooks"] = ("H3 delay points (after every release of the connection lock: yield / sleep up to 2 ms with probability 4..35 %) are "
                        "active in every second shard; H4 (serial counter) in the serial part")
    r.assumptions = ["the harness is a valid API client: it installs DBusTimeout functions and calls dbus_timeout_handle for enabled, "
                     "elapsed, not-removed timeouts; it never steals before completion or twice, cancels at most once",
                     "timer gate %s: %s" % (timer_gate(), "dbus_timeout_handle is only called while no other thread is inside a libdbus "
                                            "call, so a timeout is never handled concurrently with its removal (the interleaving 'main-loop "
                                            "thread fires a timeout while another thread reads its reply' is therefore NOT explored; "
                                            "VERIF_C17_TIMER_GATE=0 explores it)" if timer_gate() == "1" else
                                            "OFF (exploration mode): timeouts are handled concurrently with other threads' libdbus calls"),
                     "the end of the peer's script is a logical barrier: a final call that the peer answers after its last scripted write",
                     "sanitizer/assertion reports of multi-threaded cases are keyed by family only (C17:mt:<family>); the site is in the witness",
                     "timestamps are used only in the direction a slow machine cannot fake (a timeout error earlier than the timeout)",
                     "multi-blocker one-write cases: 'a reply that has arrived completes its call' is judged with a watch of %d ms that starts "
                     "when the first blocking wait of the case returns (so the one write() has been read) and also needs %d wake-ups of the "
                     "monitor thread itself; timeouts in these cases are none or >= %d ms, so within the watch only the reply can end a wait; "
                     "a report is confirmed by a second run before it counts; Python kills the harness %.0f s after the write if it stays silent"
                     % (MB_WATCH_MS, MB_WATCH_MS // 4, min(MB_FINITE), MB_BACKSTOP_S),
                     "TSan sees only the schedules that occurred; absence of a report is not absence of a race"]
    return r.finish()
