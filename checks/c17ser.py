"""C17, serial part: "message serials assigned by a connection are non-zero and, until the 32-bit counter wraps,
distinct" and "a reply is never paired with a different call", observed at the connection's boundary while the
counter passes 0xFFFFFFFF.

harness/h_serial.c opens a private connection to a scripted peer (vf/peer.py), puts the connection's counter at a
chosen value through hook H4 and lets 1..4 threads send signals, method returns and calls through every sending
entry point (send with / without out parameter, preallocated send, send_with_reply, send_with_reply_and_block).
The peer records every frame it receives (independent codec: a frame with serial 0 is not a valid message) and
answers each call with a return that repeats the call's token.

Oracle (all over what was observed on the wire and through the API's return values, nothing taken from inside libdbus):
  * every message arrives, exactly once, as a valid message: in particular its serial is not 0;
  * no two messages of a case carry the same serial (a case sends < 300 messages and its counter starts at a value
    chosen by the harness, so even across the wrap the values 0xFFFFFFxx.., 1, 2, .. have never been used before);
  * the serial the API reported for a message (out parameter, dbus_message_get_serial) is the one on the wire;
  * every call completes with the reply that carries its own token, and that reply's REPLY_SERIAL is its serial.
Within one thread the wire order equals the program order (one ordered stream), which is also checked because the
hook makes 'serials grow by one, skipping 0' checkable for single-threaded cases - that is NOT demanded (the
property does not say serials are consecutive), only counted.
"""
import json
import os
import random
import shutil
import subprocess
import tempfile
import time

from vf import hrun, peer as vpeer, report, wire

OPS = "snprcbf"


def make_case(rng):
    nthreads = rng.choice([1, 1, 1, 2, 2, 3, 4])
    total = rng.randint(3, 40) if rng.random() < 0.8 else rng.randint(40, 120)
    per = max(1, total // nthreads)
    progs = []
    weights = rng.choice([(4, 2, 2, 1, 4, 2, 1), (1, 1, 1, 1, 6, 3, 0), (5, 3, 3, 2, 0, 0, 1), (2, 1, 1, 1, 2, 6, 1)])
    for t in range(nthreads):
        n = min(60, max(1, per + rng.randint(-2, 2)))
        progs.append("".join(rng.choices(OPS, weights=weights, k=n)))
    n_msgs = sum(1 for p in progs for o in p if o != "f")
    kind = rng.random()
    if kind < 0.70:
        # the wrap happens inside the case, at a random position of the stream
        start = (0x100000000 - rng.randint(1, max(1, n_msgs))) & 0xFFFFFFFF
    elif kind < 0.80:
        start = rng.choice([0xFFFFFFFF, 0xFFFFFFFE, 0xFFFFFFFF - n_msgs + 1, 0xFFFFFFFF - n_msgs])
    elif kind < 0.90:
        start = rng.choice([1, 2, 0x7FFFFFFF - rng.randint(0, 8), 0x80000000 - rng.randint(0, 8), 0xFFFF - rng.randint(0, 8),
                            0x10000 - rng.randint(0, 4)])
    else:
        start = rng.randint(1, 0xFFFFFFFF)
    return {"start": start or 1, "nthreads": nthreads, "progs": progs}


def case_line(case):
    return "%d %d %s" % (case["start"], case["nthreads"], " ".join(case["progs"]))


class Session(object):
    def __init__(self, exe, rundir, tag, delay=None):
        self.exe = exe
        self.delay = delay
        self.peer = vpeer.Peer(rundir, "speer-" + tag)
        self.errpath = os.path.join(rundir, "serr-" + tag)
        self.proc = None
        self.erroff = 0

    def start(self):
        self.stop()
        self.errf = open(self.errpath, "ab")
        self.erroff = self.errf.tell()
        env = hrun.san_env()
        env["DBUS_DISABLE_MEM_POOLS"] = "1"       # see checks/c17.py: the embedded-tests malloc counter is not thread-safe
        if self.delay:
            env["DBUS_VERIF_DELAY"] = self.delay  # hook H3: delay points after every release of the connection lock
        self.proc = subprocess.Popen([self.exe, self.peer.address], stdin=subprocess.PIPE, stdout=subprocess.PIPE,
                                     stderr=self.errf, env=env)
        os.set_blocking(self.proc.stdout.fileno(), False)
        self.buf = b""

    def stop(self):
        if self.proc is not None:
            try:
                self.proc.stdin.close()
            except OSError:
                pass
            try:
                self.proc.wait(timeout=20)
            except subprocess.TimeoutExpired:
                self.proc.kill()
                self.proc.wait()
            self.proc.stdout.close()
            self.errf.close()
            self.proc = None

    def close(self):
        self.stop()
        self.peer.close()

    def new_stderr(self):
        try:
            with open(self.errpath, "rb") as fh:
                fh.seek(self.erroff)
                data = fh.read()
            self.erroff += len(data)
            return data.decode("latin1")
        except OSError:
            return ""

    def run_case(self, case, watchdog_s=90):
        if self.proc is None or self.proc.poll() is not None:
            self.start()
        pr = self.peer
        pr.new_case()

        def on_message(p, m):
            if m.type == wire.T_CALL and m.body_sig == b"u":
                p.send_at(0, vpeer.method_return(p, m.serial, b"u", [m.body[0]]))
        pr.on_message = on_message
        try:
            self.proc.stdin.write((case_line(case) + "\n").encode())
            self.proc.stdin.flush()
        except OSError:
            return None, "died", [], list(pr.protocol_errors), self.new_stderr()
        deadline = time.monotonic() + watchdog_s
        out = self.proc.stdout
        line = None
        status = "ok"
        while line is None:
            now = time.monotonic()
            if now > deadline:
                status = "hang"
                break
            pr.step(min(0.25, deadline - now), extra_rfds=[out])
            try:
                chunk = os.read(out.fileno(), 1 << 20)
            except BlockingIOError:
                chunk = None
            if chunk:
                self.buf += chunk
            elif chunk == b"":
                status = "died"
                break
            i = self.buf.find(b"\n")
            if i >= 0:
                line, self.buf = self.buf[:i], self.buf[i + 1:]
        if status == "ok":
            # the harness closes the connection right after its report: the end of the stream is the barrier
            until = time.monotonic() + 20
            while pr.conn is not None and time.monotonic() < until:
                pr.step(0.25)
            if pr.conn is not None:
                status = "no-eof"
        if status != "ok":
            if self.proc.poll() is None:
                self.proc.kill()
            self.proc.wait()
            self.proc.stdout.close()
            self.errf.close()
            self.proc = None
        res = None
        if line is not None:
            try:
                res = json.loads(line.decode("latin1"))
            except ValueError:
                res = {"unparseable": line[:200].decode("latin1")}
        return res, status, list(pr.received), list(pr.protocol_errors), self.new_stderr()


def judge(part, flavor, case, res, status, received, perrs, err):
    """-> list of (key, what)"""
    F = []
    wit = {"case": case, "line": case_line(case), "flavor": flavor}
    from checks import c17 as _c17          # same report keys (families for multi-threaded cases) as the main part
    rep = []
    for kind, site, text in _c17.sanitizer_reports(err):
        if kind is None:
            part.count("tsan-report-not-judged:" + site)
            continue
        rep.append(kind)
        part.count("sanitizer-report:" + _c17.family(kind))
        F.append((_c17.report_key(kind, site, case["nthreads"]), "%s at %s in the %s serial harness (%d thread(s)): %s"
                  % (kind, site, flavor, case["nthreads"], text[:600])))
    if status in ("hang", "no-eof"):
        F.append(("C17:serial:hang", "the serial case did not finish (%s): %s" % (status, case_line(case))))
        return F, wit
    if status == "died" or res is None:
        if not rep:
            F.append(("C17:serial:harness-died", "h_serial died without a report: %s" % err[-300:]))
        return F, wit
    if "ops" not in res:
        part.inconclusive.append("h_serial: %r for %s" % (res, case_line(case)))
        return F, wit
    for pe in perrs:
        if "serial-0" in pe:
            F.append(("C17:serial-zero-on-the-wire", "the connection put a message with serial 0 on the wire (start %d): %s" % (case["start"], pe[:160])))
        else:
            F.append(("C17:serial:invalid-message-on-the-wire", pe[:200]))
    # ---- what arrived, by token
    by_token = {}
    order_by_thread = {}
    seen_serial = {}
    for n, m in enumerate(received):
        tok = m.body[0] if m.body_sig == b"u" and m.body else None
        if tok is None:
            continue
        if tok in by_token:
            F.append(("C17:serial:message-arrived-twice", "token %d arrived twice" % tok))
        by_token[tok] = m
        order_by_thread.setdefault(tok // 1000, []).append(tok % 1000)
        if m.serial in seen_serial:
            F.append(("C17:serial-repeated" + (":mt" if case["nthreads"] > 1 else ""),
                      "messages with tokens %d and %d both carry serial %d (counter started at %d, %d thread(s))"
                      % (seen_serial[m.serial], tok, m.serial, case["start"], case["nthreads"])))
        seen_serial[m.serial] = tok
        part.count("serial-part:messages-on-the-wire")
    wrapped = False
    serials = [m.serial for m in received if m.body_sig == b"u"]
    if serials and min(serials) < case["start"] and max(serials) >= case["start"]:
        wrapped = True
        part.count("serial-part:cases-that-passed-the-wrap")
        part.count("serial-part:cases-that-passed-the-wrap:%s" % ("mt" if case["nthreads"] > 1 else "st"))
    if case["nthreads"] == 1 and len(serials) > 1:
        consecutive = all((b == a + 1) or (a == 0xFFFFFFFF and b == 1) for a, b in zip(serials, serials[1:]))
        part.count("serial-part:st-cases-consecutive" if consecutive else "serial-part:st-cases-not-consecutive(not judged)")
    # ---- per op
    for o in res["ops"]:
        tok = o["t"] * 1000 + o["i"]
        op = o["op"]
        part.count("serial-part:op:" + op)
        if op == "f":
            continue
        m = by_token.get(tok)
        if not o["sent"]:
            part.count("serial-part:send-reported-failure(not judged)")
            continue
        if m is None:
            F.append(("C17:serial:message-lost:" + op, "message %d (op %s) was accepted for sending but never arrived (start %d)" % (tok, op, case["start"])))
            continue
        if o["msg"] == 0 or (op in "srp" and o["ret"] == 0):
            F.append(("C17:serial-zero:reported-by-api:" + op, "the API reported serial 0 for message %d (op %s; wire serial %d; start %d)"
                      % (tok, op, m.serial, case["start"])))
        elif o["msg"] != m.serial or (op in "srp" and o["ret"] != m.serial):
            F.append(("C17:serial:api-and-wire-differ:" + op, "message %d (op %s): API reported serial %d / message says %d, wire carries %d"
                      % (tok, op, o["ret"], o["msg"], m.serial)))
        part.count("serials-checked")
        if op in "cb":
            part.count("serial-part:calls")
            if wrapped:
                part.count("serial-part:calls-in-wrapping-cases")
            if o["rt"] == -1:
                F.append(("C17:serial:call-not-completed", "call %d (serial %d, op %s) did not complete although the peer answered it (start %d)"
                          % (tok, m.serial, op, case["start"])))
            elif o["rt"] != wire.T_RETURN or o["rtok"] != tok:
                F.append(("C17:reply-paired-with-other-call:serial-part",
                          "call %d (serial %d, op %s) completed with type %d token %d name %r REPLY_SERIAL %d (start %d)"
                          % (tok, m.serial, op, o["rt"], o["rtok"], o["rname"], o["rs"], case["start"])))
            elif o["rs"] != m.serial:
                F.append(("C17:reply-serial-mismatch:serial-part", "call %d has wire serial %d but completed with a reply for serial %d"
                          % (tok, m.serial, o["rs"])))
            else:
                part.count("serial-part:calls-completed-with-own-reply")
    for t, idxs in order_by_thread.items():
        if idxs != sorted(idxs):
            F.append(("C17:serial:thread-order-not-kept", "messages of thread %d arrived out of program order: %r" % (t, idxs[:40])))
    part.sig("serial", case["nthreads"], wrapped, "".join(sorted(set("".join(case["progs"])))), min(len(serials) // 10, 8),
             case["start"] >> 28)
    return F, wit


def worker(args):
    seed, shard, n, flavor, exe = args
    rng = random.Random("%s:C17ser:%s" % (seed, shard))
    part = report.Part()
    rundir = tempfile.mkdtemp(prefix="verif-c17s-")
    delay = "%d:%d:%d" % (rng.choice([60, 200, 400]), rng.choice([0, 50, 300]), (seed * 17 + shard) & 0x7FFFFFFF) if shard % 2 == 1 else None
    ses = Session(exe, rundir, flavor, delay=delay)
    stuck = 0
    try:
        for i in range(n):
            if delay:
                part.count("serial-part:cases-with-delay-points")
            case = make_case(rng)
            part.evaluations += 1
            part.count("serial-part:cases:" + flavor)
            res, status, received, perrs, err = ses.run_case(case)
            if status in ("hang", "no-eof"):
                # a watchdog firing once is inconclusive: run it again alone
                res, status, received, perrs, err = ses.run_case(case)
            F, wit = judge(part, flavor, case, res, status, received, perrs, err)
            for key, what in F:
                part.violation(key, what, dict(wit, serial_part=True))
            if res and res.get("drained") == 0:
                stuck += 1
                if stuck >= 2:
                    # calls that never complete cost a watchdog each: two such cases are reported, the rest of this shard is skipped
                    part.count("serial-part:shard-cut-short-after-two-stuck-cases")
                    break
            if i == 0 and shard == 0:
                part.sample({"part": "serial", "line": case_line(case), "wire_serials": [m.serial for m in received][:12]})
    finally:
        ses.close()
        shutil.rmtree(rundir, ignore_errors=True)
    return part


def replay(part, exes, w):
    case = w["case"]
    for flavor in ([w["flavor"]] if w.get("flavor") in exes else list(exes)):
        rundir = tempfile.mkdtemp(prefix="verif-c17s-")
        ses = Session(exes[flavor], rundir, flavor)
        try:
            for rep in range(int(os.environ.get("VERIF_REPLAY_REPEAT", "20"))):
                part.evaluations += 1
                res, status, received, perrs, err = ses.run_case(case)
                F, wit = judge(part, flavor, case, res, status, received, perrs, err)
                for key, what in F:
                    part.violation(key, what, dict(wit, serial_part=True))
        finally:
            ses.close()
            shutil.rmtree(rundir, ignore_errors=True)
