"""C18 - a monitor sees everything that matches and can affect nothing."""
import bisect
import collections
import json
import os
import re
import shutil
import tempfile

from vf import build, busproc, client, gen, report, wire
from vf.models import matchrules as mr
from vf.models import monitor as mon
from vf.models import names as nm

PROP = "C18"
RULE = ("paired histories of 25..70 operations over 3..7 raw clients, each executed on two fresh ASan daemons from the "
        "same seeded plan: broadcast / unicast signals, calls to unique, well-known, vanished and never-existing names, "
        "requested and unrequested replies, send-denied calls, receive-denied signals, messages of unknown type codes (5..255, either "
        "byte order, optional header fields present or absent, addressed to peers, owned and ownerless names and the bus), "
        "a small class of histories with max_outgoing_bytes lowered to 20000..65536 in which the attached monitors stop reading while "
        "~0.5 MiB of 4 KiB signals and calls (more than socket buffers plus the limit) is delivered to ordinary readers, then drain, "
        "forged sender fields, messages "
        "from a connection that never said Hello, RequestName / ReleaseName churn with queues, AddMatch / RemoveMatch, "
        "driver queries, connects, disconnects, invalid BecomeMonitor calls (bad rule, nonzero flags, wrong signature, "
        "unprivileged uid) and 0..2 clients that call BecomeMonitor (empty filter or 1..3 selective rules over type, "
        "sender, interface, member, path, arg0, destination - unique, owned and ownerless well-known names, the bus) at a random point, often while owning / queued for names and with calls "
        "outstanding in both directions. Run A: (a) every monitor's socket is read up to a tokened end-marker signal "
        "and compared as a multiset with everything the harness made the bus process after the monitor's activation "
        "(its own send log, every bus-generated message some client received, every NameOwnerChanged, the model's "
        "synthesized errors for receive-denied broadcasts) filtered by vf/models/monitor.py: exactly one copy, true "
        "sender, equal content, per-sender order, nothing unexplained; (c) names released with the proper signals, "
        "queries by a third party, messages to the monitor's old names are answered with an error, old match rules "
        "dead, EOF and no answer after the monitor sends (signals, calls, and destination-less calls / returns / errors with "
        "and without PATH / INTERFACE in both byte orders). Run B (control): the same plan, but each future monitor disconnects at "
        "its step instead; (b) every other client's observation sequence must be equal in A and B (unique names "
        "renamed by creation order, the BecomeMonitor / disconnect step compared as a multiset, serials of "
        "bus-generated messages and the bus GUID masked). distinct = (message class, filter shape, matched) + "
        "(operation kind, outcome) + (pair shape)")

BUS = b"org.freedesktop.DBus"
BUS_PATH = b"/org/freedesktop/DBus"
MON_IFACE = b"org.freedesktop.DBus.Monitoring"
NOC_RULE = b"type='signal',sender='org.freedesktop.DBus',interface='org.freedesktop.DBus',member='NameOwnerChanged'"
NAMES = [b"com.example.W1", b"com.example.W2", b"org.verif.Svc"]
IF_OK = [b"com.example.If1", b"com.example.If2"]
IF_DENIED = b"com.example.Denied"
IF_NORECV = b"com.example.NoRecv"
MEMBERS = [b"Changed", b"Foo", b"Bar"]
PATHS = [b"/com/example/a", b"/com/example/b", b"/"]
ARG0 = [b"alpha", b"beta", b"com.example.W1"]
MARK_IF = b"org.verif.Marker"
MARK_RULE = b"type='signal',interface='org.verif.Marker'"
NOBODY = 65534
ACCESS_DENIED = b"org.freedesktop.DBus.Error.AccessDenied"
ODD_TYPES = [5, 5, 7, 7, 200, 255, 6, 9, 64, 128]
# what a monitor sends at the end of a history: (class, message type, fields)
MON_SENDS = [
    ("signal", 4, dict(path=b"/com/example/a", iface=IF_OK[0], member=b"Changed", sig=b"s", body=[b"alpha"])),
    ("call", 1, dict(path=BUS_PATH, iface=BUS, member=b"RequestName", dest=BUS, sig=b"su", body=[NAMES[0], 7])),
    ("call", 1, dict(path=b"/", iface=IF_OK[0], member=b"Foo", dest=b"@peer")),
    ("call", 1, dict(path=BUS_PATH, iface=BUS, member=b"GetId", dest=BUS)),
    ("call-without-destination", 1, dict(path=b"/", iface=IF_OK[0], member=b"Foo")),
    ("call-without-destination", 1, dict(path=b"/com/example/a", member=b"Foo", order="B")),
    ("call-without-destination", 1, dict(path=b"/", iface=IF_OK[1], member=b"Bar", flags=1, sig=b"s", body=[b"alpha"])),
    ("return-without-destination", 2, dict(reply_serial=7)),
    ("return-without-destination", 2, dict(reply_serial=3, path=b"/com/example/a", iface=IF_OK[0], order="B", sig=b"s", body=[b"x"])),
    ("error-without-destination", 3, dict(reply_serial=7, error_name=b"com.example.Error.Failed")),
    ("error-without-destination", 3, dict(reply_serial=2, error_name=b"com.example.Error.Failed", path=b"/", iface=IF_OK[1],
                                          member=b"Foo", order="B")),
    ("peer-call-without-destination", 1, dict(path=b"/", iface=b"org.freedesktop.DBus.Peer", member=b"Ping")),
    ("signal", 4, dict(path=b"/", iface=IF_OK[1], member=b"Bar", dest=b"@peer")),
    ("call-without-destination", 1, dict(path=BUS_PATH, iface=BUS, member=b"GetId")),
]
SOCKBUF = 212992          # default SO_SNDBUF of the bus's end of a unix socket; twice that surely is beyond what the kernel holds
FLOOD_SIZE = 4096

POLICY = """
  <policy context="default">
    <allow send_destination="*" eavesdrop="true"/>
    <allow eavesdrop="true"/>
    <allow own="*"/>
    <allow user="*"/>
    <deny send_interface="com.example.Denied" send_type="method_call"/>
    <deny receive_interface="com.example.NoRecv" receive_type="signal"/>
  </policy>
"""

_tok_re = re.compile(rb":77\.(\d+)")


def tok(i):
    """placeholder unique name of the i-th connection of a plan (major 77 is never used by a fresh bus)"""
    return b":77.%d" % i


# ======================================================================================== plan

class Planner(object):
    """Turns a seeded rng into a list of operations; all decisions depend on the rng and on the
    reference models only, never on anything observed, so the same plan can be run twice."""

    def __init__(self, rng):
        self.rng = rng
        self.ops = []
        self.model = nm.Names()
        self.cl = {}            # idx -> dict(state, rules, uid)
        self.nconn = 0
        self.pending = []       # dict(op, caller, callee): calls delivered and awaiting an answer
        self.monitors = []      # idx in activation order
        self.gone_names = []    # names (unique tokens) that no longer exist
        self.mon_names = set()  # names once held by a connection that became a monitor
        self.mon_rules = []     # selective filter rules (key -> value) of the monitors so far, without a type key
        self.limits = None      # <limit> elements of the bus configuration
        self.lag = False        # history of the 'monitor lags behind' class

    # -- helpers
    def owners(self):
        return {n: q[0][0] for n, q in self.model.q.items() if q}

    def ords(self, root_only=False, not_obs=False):
        return [i for i, c in sorted(self.cl.items()) if c["state"] == "ord" and not (root_only and c["uid"] is not None)
                and not (not_obs and i == 0)]

    def emit(self, op):
        op["i"] = len(self.ops)
        op["owners"] = dict(self.owners())
        self.ops.append(op)
        return op

    def resolve(self, dest):
        if dest is None:
            return None
        if dest == BUS:
            return BUS
        return self.model.owner(dest)

    def body(self):
        r = self.rng.random()
        if r < 0.3:
            return b"", []
        if r < 0.8:
            return b"s", [self.rng.choice(ARG0)]
        return b"su", [self.rng.choice(ARG0), self.rng.randint(0, 9)]

    def some_dest(self, c):
        rng = self.rng
        r = rng.random()
        peers = [tok(i) for i in self.ords()]
        if r < 0.45 or not peers:
            return rng.choice(peers or [tok(c)])
        if r < 0.65:
            return rng.choice(NAMES)
        if r < 0.80 and self.gone_names:
            return rng.choice(self.gone_names)
        if r < 0.90 and self.mon_names:
            return rng.choice(sorted(self.mon_names))
        return b"com.example.Nobody"

    # -- operations
    def connect(self, noc=False, uid=None):
        i = self.nconn
        self.nconn += 1
        self.cl[i] = {"state": "ord", "rules": [], "uid": uid}
        self.model.hello(tok(i))
        if noc:
            self.cl[i]["rules"].append((mr.parse(NOC_RULE), NOC_RULE))
        return self.emit({"k": "connect", "c": i, "noc": noc, "uid": uid})

    def nohello(self):
        i = self.nconn
        self.nconn += 1
        self.cl[i] = {"state": "gone", "rules": [], "uid": None}
        sig, body = self.body()
        return self.emit({"k": "nohello", "c": i, "path": self.rng.choice(PATHS), "iface": self.rng.choice(IF_OK),
                          "member": self.rng.choice(MEMBERS), "sig": sig, "body": body})

    def leave(self, i, as_monitor):
        """common part of disconnect and BecomeMonitor: the reference model for both is 'all names released'"""
        t = tok(i)
        if as_monitor:
            self.mon_names.add(t)
            self.mon_names.update(n for n in self.model.names_of(t))
        owned = [n for n in self.model.names_of(t) if self.model.owner(n) == t]
        queued = [n for n in self.model.names_of(t) if self.model.owner(n) != t]
        ev = self.model.disconnect(t)
        noreply = []
        keep = []
        for p in self.pending:
            if p["callee"] == i:
                if self.cl[p["caller"]]["state"] == "ord" and p["caller"] != i:
                    noreply.append(p["op"])
            else:
                keep.append(p)
        self.pending = keep
        self.cl[i]["state"] = "mon" if as_monitor else "gone"
        self.cl[i]["old_rules"] = self.cl[i]["rules"]
        self.cl[i]["rules"] = []
        self.gone_names.append(t)
        return ev, noreply, owned, queued

    def disconnect(self, i):
        ev, noreply, owned, queued = self.leave(i, False)
        return self.emit({"k": "disconnect", "c": i, "events": ev, "noreply": noreply})

    def addmatch(self, i, text=None):
        rng = self.rng
        if text is None:
            pairs = []
            if rng.random() < 0.8:
                pairs.append((b"type", b"signal"))
            for k in rng.sample(["interface", "member", "path", "sender", "arg0"], rng.choice([1, 1, 2])):
                if k == "interface":
                    pairs.append((b"interface", rng.choice(IF_OK + [IF_NORECV, IF_NORECV])))
                elif k == "member":
                    pairs.append((b"member", rng.choice(MEMBERS)))
                elif k == "path":
                    pairs.append((b"path", rng.choice(PATHS)))
                elif k == "sender":
                    pairs.append((b"sender", rng.choice([tok(j) for j in self.ords()] + NAMES[:2])))
                else:
                    pairs.append((b"arg0", rng.choice(ARG0)))
            text = b",".join(k + b"='" + v + b"'" for k, v in pairs)
        if any(t == text for _, t in self.cl[i]["rules"]):
            return None
        self.cl[i]["rules"].append((mr.parse(text), text))
        return self.emit({"k": "addmatch", "c": i, "rule": text})

    def rmmatch(self, i):
        # a rule naming a vanished unique name can never match again; whether the bus has already discarded it is
        # unspecified (it does so when the leaver held rules itself, and always on BecomeMonitor) and only
        # RemoveMatch could tell, so such rules are never removed here (C07 accepts both outcomes as well)
        held = [x for x in self.cl[i]["rules"] if (x[1] != NOC_RULE or i != 0) and x[0].d.get(b"sender") not in self.gone_names]
        if not held:
            return None
        x = self.rng.choice(held)
        self.cl[i]["rules"].remove(x)
        return self.emit({"k": "rmmatch", "c": i, "rule": x[1]})

    def request(self, i, name, flags):
        q = self.model.q.get(name) or []
        if flags & nm.REPLACE_EXISTING and q and q[0][0] != tok(i) and not q[0][1]:
            flags &= ~nm.REPLACE_EXISTING     # C04's known queue-position deviation is not this check's business
        code, ev, row = self.model.request(tok(i), name, flags)
        return self.emit({"k": "request", "c": i, "name": name, "flags": flags, "code": code, "events": ev, "row": row})

    def release(self, i, name):
        code, ev, row = self.model.release(tok(i), name)
        return self.emit({"k": "release", "c": i, "name": name, "code": code, "events": ev, "row": row})

    def denied_recipients(self, i, path, iface, member, sig, body):
        view = {"type": 4, "sender": tok(i), "path": path, "interface": iface, "member": member, "destination": None,
                "args": [("s", body[0])] if sig[:1] == b"s" else ([("u", None)] if sig else [])}
        own = self.owners()
        n = 0
        for j in self.ords():
            if any(r.matches(view, own) for r, _ in self.cl[j]["rules"]):
                n += 1
        return n

    def signal(self, i, unicast=None, iface=None):
        rng = self.rng
        if unicast is None:
            unicast = rng.random() < 0.2
        if iface is None:
            iface = IF_NORECV if rng.random() < 0.17 else rng.choice(IF_OK)
        path, member = rng.choice(PATHS), rng.choice(MEMBERS)
        sig, body = self.body()
        op = {"k": "signal", "c": i, "path": path, "iface": iface, "member": member, "sig": sig, "body": body, "dest": None,
              "forge": None, "refused": None, "denied_n": 0}
        if rng.random() < 0.1:
            op["forge"] = rng.choice([BUS, tok(rng.choice(sorted(self.cl)))])
        if unicast:
            op["dest"] = self.some_dest(i)
            o = self.resolve(op["dest"])
            if o is None:
                op["refused"] = "no-owner"
            elif iface == IF_NORECV:
                op["refused"] = "recv-denied"
            op["to_mon_name"] = op["dest"] in self.mon_names and o is None
        elif iface == IF_NORECV:
            op["denied_n"] = self.denied_recipients(i, path, iface, member, sig, body)
            if op["denied_n"]:
                op["refused"] = "recv-denied-broadcast"
        return self.emit(op)

    def call(self, i, dest=None, iface=None, flags=None):
        rng = self.rng
        if dest is None:
            dest = self.some_dest(i)
        if iface is None:
            iface = IF_DENIED if rng.random() < 0.15 else rng.choice(IF_OK)
        if flags is None:
            flags = rng.choice([0, 0, 0, 1, 2, 3])
        sig, body = self.body()
        op = {"k": "call", "c": i, "dest": dest, "path": rng.choice(PATHS), "iface": iface, "member": rng.choice(MEMBERS),
              "sig": sig, "body": body, "flags": flags, "refused": None, "forge": None}
        if rng.random() < 0.08:
            op["forge"] = rng.choice([BUS, tok(rng.choice(sorted(self.cl)))])
        o = self.resolve(dest)
        if o is None:
            op["refused"] = "no-owner"
        elif iface == IF_DENIED:
            op["refused"] = "send-denied"
        op["to_mon_name"] = dest in self.mon_names and o is None
        self.emit(op)
        if op["refused"] is None and not (flags & 1):
            callee = int(_tok_re.match(o).group(1))
            self.pending.append({"op": op["i"], "caller": i, "callee": callee})
        return op

    def answer(self):
        cands = [p for p in self.pending if self.cl[p["callee"]]["state"] == "ord"]
        if not cands:
            return None
        p = self.rng.choice(cands)
        self.pending.remove(p)
        return self.emit({"k": "answer", "c": p["callee"], "call": p["op"], "caller": p["caller"],
                          "err": self.rng.random() < 0.3, "caller_alive": self.cl[p["caller"]]["state"] == "ord"})

    def unreq(self, i):
        dest = self.rng.choice([tok(j) for j in self.ords()] + self.gone_names[-2:])
        return self.emit({"k": "unreq", "c": i, "dest": dest, "rs": self.rng.randint(900, 999), "err": self.rng.random() < 0.5,
                          "refused": "no-owner" if self.resolve(dest) is None else None})

    def query(self, i):
        rng = self.rng
        anyname = rng.choice(NAMES + [tok(j) for j in sorted(self.cl)] + [b"com.example.Nobody"])
        member, sig, body = rng.choice([
            (b"GetNameOwner", b"s", [anyname]), (b"NameHasOwner", b"s", [anyname]), (b"ListNames", b"", []),
            (b"ListQueuedOwners", b"s", [rng.choice(NAMES)]), (b"GetConnectionUnixUser", b"s", [anyname]), (b"GetId", b"", []),
            (b"ListActivatableNames", b"", []), (b"NoSuchMethod", b"", [])])
        return self.emit({"k": "query", "c": i, "member": member, "sig": sig, "body": body})

    def odd(self, i):
        """a message whose type code is none of the four known ones: legal on the wire, refused by the bus"""
        rng = self.rng
        r = rng.random()
        peers = [tok(j) for j in self.ords()]
        owned = sorted(self.owners())
        if r < 0.35:
            dest = rng.choice(peers)
        elif r < 0.55 and owned:
            dest = rng.choice(owned)
        elif r < 0.75:
            dest = BUS
        else:
            dest = self.some_dest(i)
        sig, body = self.body()
        op = {"k": "odd", "c": i, "mtype": rng.choice(ODD_TYPES), "dest": dest,
              "path": rng.choice(PATHS + [BUS_PATH]) if rng.random() < 0.6 else None,
              "iface": rng.choice(IF_OK + [IF_DENIED, IF_NORECV, BUS]) if rng.random() < 0.6 else None,
              "member": rng.choice(MEMBERS + [b"GetId"]) if rng.random() < 0.6 else None,
              "rs": rng.randint(1, 40) if rng.random() < 0.2 else None,
              "errname": b"com.example.Error.Odd" if rng.random() < 0.15 else None,
              "sig": sig, "body": body, "flags": rng.choice([0, 0, 1, 2, 3]), "order": rng.choice(["l", "l", "B"]),
              "forge": rng.choice([BUS, tok(rng.choice(sorted(self.cl)))]) if rng.random() < 0.1 else None}
        if self.mon_rules and rng.random() < 0.5:
            # aim at one selective rule of an attached monitor, so that such filters do get to decide on unknown types
            rule = rng.choice(self.mon_rules)
            for k, v in rule.items():
                if k == b"interface":
                    op["iface"] = v
                elif k == b"member":
                    op["member"] = v
                elif k == b"path":
                    op["path"] = v
                elif k == b"destination":
                    op["dest"] = dest = v
                elif k == b"arg0":
                    op["sig"], op["body"] = b"s", [v]
                elif k == b"sender":
                    who = self.owners().get(v, v)
                    m = _tok_re.match(who)
                    if m and int(m.group(1)) in self.ords():
                        op["c"] = i = int(m.group(1))
        o = self.resolve(dest)
        op["refused"] = "unknown-type" if o is not None else "unknown-type-no-owner"
        op["to_mon_name"] = dest in self.mon_names and o is None
        return self.emit(op)

    def nodest(self, i):
        return self.emit({"k": "nodest", "c": i, "iface": self.rng.choice([b"org.freedesktop.DBus.Peer", IF_OK[0]]),
                          "member": b"Ping", "path": b"/"})

    def badmon(self, i):
        if self.cl[i]["uid"] is not None:
            variant = "unprivileged"
        else:
            variant = self.rng.choice(["flags", "flags", "bad-rule", "bad-rule", "good-then-bad-rule", "signature"])
        return self.emit({"k": "badmon", "c": i, "variant": variant,
                          "names": sorted(n for n in self.model.names_of(tok(i)) if self.model.owner(n) == tok(i))})

    def state(self):
        return self.emit({"k": "state", "names": sorted(self.model.all_names()),
                          "queues": {n: self.model.queue(n) for n in NAMES}, "gone": list(self.gone_names)})

    def gen_filter(self):
        rng = self.rng
        if rng.random() < 0.45:
            return []
        rules = []
        for _ in range(rng.choice([1, 1, 2, 3])):
            pairs = []
            keys = rng.sample(["type", "sender", "interface", "member", "path", "arg0"], rng.choice([1, 1, 2, 2, 3]))
            if rng.random() < 0.4:
                # alone, or combined with some of the other keys
                keys = ["destination"] + keys[:rng.choice([0, 0, 1, 2])]
            for k in keys:
                if k == "type":
                    pairs.append((b"type", rng.choice([b"signal", b"signal", b"method_call", b"method_return", b"error"])))
                elif k == "sender":
                    pairs.append((b"sender", rng.choice([tok(j) for j in self.ords()] + NAMES[:2] + [BUS, BUS])))
                elif k == "interface":
                    pairs.append((b"interface", rng.choice(IF_OK + [IF_DENIED, IF_NORECV, BUS])))
                elif k == "member":
                    pairs.append((b"member", rng.choice(MEMBERS + [b"NameOwnerChanged", b"GetId", b"RequestName"])))
                elif k == "path":
                    pairs.append((b"path", rng.choice(PATHS + [BUS_PATH])))
                elif k == "destination":
                    # live unique names, well-known names with and without an owner (all are targets of traffic), the bus
                    pairs.append((b"destination", rng.choice([tok(j) for j in self.ords()] + NAMES + NAMES
                                                             + [b"com.example.Nobody", b"com.example.Nobody", BUS])))
                else:
                    pairs.append((b"arg0", rng.choice(ARG0 + NAMES[1:2])))
            rules.append(b",".join(k + b"='" + v + b"'" for k, v in pairs))
        rules.append(MARK_RULE)
        return rules

    def flood(self, flooder):
        """enough matching traffic, while no monitor reads, to fill the kernel's buffers and push the bus-side queue of every
        attached monitor beyond max_outgoing_bytes; ordinary connections keep reading (executor), so nothing is refused"""
        limit = self.limits["max_outgoing_bytes"]
        n = (2 * SOCKBUF + limit + 40000) // FLOOD_SIZE + 1
        peers = [j for j in self.ords() if j != flooder] or [flooder]
        return self.emit({"k": "flood", "c": flooder, "n": n, "size": FLOOD_SIZE, "peer": self.rng.choice(peers),
                          "path": PATHS[0], "iface": IF_OK[0], "member": MEMBERS[0], "arg0": ARG0[0]})

    def monitor_block(self, lag=False):
        rng = self.rng
        cands = self.ords(root_only=True, not_obs=True)
        if not cands:
            self.connect(noc=rng.random() < 0.4)
            cands = self.ords(root_only=True, not_obs=True)
        m = rng.choice(cands)
        others = [j for j in self.ords() if j != m]
        if rng.random() < 0.7:
            self.request(m, rng.choice(NAMES), rng.choice([0, 1, 4, 5]))
        if rng.random() < 0.5:
            self.request(m, rng.choice(NAMES), rng.choice([0, 1, 2, 3]))
        if rng.random() < 0.5 and others:
            mine = [n for n in self.model.names_of(tok(m)) if self.model.owner(n) == tok(m)]
            if mine:
                self.request(rng.choice(others), rng.choice(mine), 0)
        if rng.random() < 0.5:
            self.addmatch(m)
        if rng.random() < 0.5 and others:
            self.call(m, dest=tok(rng.choice(others)), iface=rng.choice(IF_OK), flags=0)
        if rng.random() < 0.5 and others:
            mine = [n for n in self.model.names_of(tok(m)) if self.model.owner(n) == tok(m)]
            self.call(rng.choice(others), dest=rng.choice(mine + [tok(m)]), iface=rng.choice(IF_OK), flags=0)
        if rng.random() < 0.15:
            self.badmon(m)
        rules = self.gen_filter()
        flooder = None
        if lag:
            flooder = rng.choice(others or [0])
            rules = rng.choice([[], [], [], [b"interface='" + IF_OK[0] + b"'"], [b"sender='" + tok(flooder) + b"'"],
                                [b"arg0='" + ARG0[0] + b"'"], [b"path='" + PATHS[0] + b"',member='" + MEMBERS[0] + b"'"]])
            if rules:
                rules = rules + [MARK_RULE]
        for t in rules[:-1]:
            d = dict(mr.tokenize(t))
            if b"type" not in d:
                self.mon_rules.append(d)
        old_rules = [t for _, t in self.cl[m]["rules"]]
        ev, noreply, owned, queued = self.leave(m, True)
        self.monitors.append(m)
        op = self.emit({"k": "monitor", "c": m, "rules": rules, "events": ev, "noreply": noreply, "owned": owned,
                        "queued": queued, "old_rules": old_rules})
        if lag:
            self.state()
            if self.cl[flooder]["state"] != "ord":
                flooder = 0
            self.flood(flooder)
        return op

    def random_op(self):
        rng = self.rng
        ords = self.ords()
        c = rng.choice(ords)
        r = rng.random()
        op = None
        if r < 0.045:
            op = self.odd(c)
        elif r < 0.22:
            op = self.signal(c, unicast=False)
        elif r < 0.28:
            op = self.signal(c, unicast=True)
        elif r < 0.45:
            op = self.call(c)
        elif r < 0.53:
            op = self.answer()
        elif r < 0.57:
            op = self.unreq(c)
        elif r < 0.67:
            op = self.request(c, rng.choice(NAMES), rng.randint(0, 7))
        elif r < 0.73:
            held = self.model.names_of(tok(c))
            op = self.release(c, rng.choice(held) if held and rng.random() < 0.8 else rng.choice(NAMES))
        elif r < 0.79:
            op = self.addmatch(c)
        elif r < 0.81:
            op = self.rmmatch(c)
        elif r < 0.86:
            op = self.query(c)
        elif r < 0.90:
            if len(ords) < 6:
                uid = NOBODY if (rng.random() < 0.2 and os.getuid() == 0) else None
                op = self.connect(noc=rng.random() < 0.3, uid=uid)
        elif r < 0.93:
            cands = self.ords(not_obs=True)
            if len(cands) > 1:
                op = self.disconnect(rng.choice(cands))
        elif r < 0.94:
            op = self.nohello()
        elif r < 0.96:
            cands = self.ords(not_obs=True)
            unpriv = [j for j in cands if self.cl[j]["uid"] is not None]
            if cands:
                op = self.badmon(rng.choice(unpriv) if unpriv and rng.random() < 0.6 else rng.choice(cands))
        elif r < 0.975:
            op = self.state()
        elif r < 0.988:
            op = self.nodest(c)
        else:
            op = self.odd(c)
        if op is None:
            self.signal(c, unicast=False)


def make_plan(rng, lag=False):
    p = Planner(rng)
    if lag:
        p.lag = True
        p.limits = {"max_outgoing_bytes": rng.choice([20000, 32768, 65536])}
    p.connect(noc=True)                       # connection 0: the observer, never leaves
    for _ in range(rng.randint(2, 4)):
        p.connect(noc=rng.random() < 0.4)
    for i in p.ords():
        if rng.random() < 0.6:
            p.addmatch(i)
    n_ops = rng.randint(25, 70)
    nmon = rng.choice([0, 1, 1, 1, 1, 1, 2, 2, 2, 2])
    if lag:
        nmon = max(nmon, 1)
    pos = set(rng.sample(range(3, n_ops - 3), nmon))
    for step in range(n_ops):
        if step in pos:
            p.monitor_block(lag=lag and not p.monitors)
            p.state()
        else:
            p.random_op()
    p.state()
    return p


def describe(op):
    d = {k: v for k, v in op.items() if k not in ("owners", "events", "i", "k", "queues", "names")}
    return "%d %s %s" % (op["i"], op["k"], " ".join("%s=%s" % (k, _short(v)) for k, v in sorted(d.items()) if k == "c" or v not in (None, [], 0, False)))


def _short(v):
    if isinstance(v, bytes):
        return v.decode("latin1")
    if isinstance(v, (list, tuple)):
        return "[" + ",".join(_short(x) for x in v) + "]"
    return str(v)


# ======================================================================================== execution

class Abort(Exception):
    """the history cannot be continued (already reported or counted)"""


class Exec(object):
    """One run of a plan on one fresh daemon.  mode 'A': monitors become monitors; mode 'B' (control):
    they disconnect at that step instead."""

    def __init__(self, b, rundir, plan, mode, part, hid):
        self.b, self.rundir, self.plan, self.mode, self.part, self.hid = b, rundir, plan, mode, part, hid
        self.clock = client.Clock()
        self.cl = {}              # idx -> Client
        self.uniq = {}            # idx -> unique name
        self.state = {}           # idx -> 'ord' | 'mon' | 'gone'
        self.active_t = {}        # idx -> clock value when Hello's reply had been read
        self.cuts = []            # (label, {idx: len(log)}) over the connections that are ordinary at that point
        self.snaps = [(0, {})]    # (clock, owners) change points
        self.callinfo = {}        # op index -> (idx, serial) of the operation's main message
        self.mons = {}            # idx -> dict(start, t_act, filter, op, pre, post)
        self.markers = []         # (token, serial)
        self.diverged = None
        self.daemon = None
        self.violations = []
        self.steps_done = 0
        self.eof_ok = {}
        self.gone_t = {}          # idx -> clock value from which the connection no longer is an ordinary one
        self.flooded = set()      # (idx, serial) of the messages sent while the monitors were not reading

    # -- plumbing
    def sub(self, v):
        if isinstance(v, bytes):
            return _tok_re.sub(lambda m: self.uniq.get(int(m.group(1)), b":77." + m.group(1)), v)
        if isinstance(v, list):
            return [self.sub(x) for x in v]
        if isinstance(v, dict):
            return {self.sub(k): self.sub(x) for k, x in v.items()}
        return v

    def violation(self, key, what, extra=None):
        self.violations.append((key, what, extra))

    def diverge(self, why):
        if self.diverged is None:
            self.diverged = why

    def ordinary(self):
        return [i for i in sorted(self.cl) if self.state[i] == "ord"]

    def snap(self, op):
        self.snaps.append((self.clock.t, self.sub(op["owners"])))

    def owners_at(self, t):
        j = bisect.bisect_right([s[0] for s in self.snaps], t) - 1
        return self.snaps[max(j, 0)][1]

    def cut(self, label):
        d = {}
        for i in self.ordinary():
            self.cl[i].barrier()
            d[i] = len(self.cl[i].log)
        self.cuts.append((label, d))
        return d

    def drain_monitors(self):
        for i, m in self.mons.items():
            if not self.cl[i].eof:
                self.cl[i].pump()

    def start(self):
        self.daemon = busproc.Daemon(self.b, self.rundir, busproc.make_config("@SOCK@", policy_xml=POLICY, limits=self.plan.limits),
                                     name="%s%d" % (self.mode.lower(), self.hid))
        if not self.daemon.started():
            raise RuntimeError("daemon did not start: " + self.daemon.stderr_text()[-400:])

    # -- operations
    def send(self, op, c, mtype, **kw):
        serial, data = c.build(mtype, **kw)
        c.send_msg(data, serial)
        self.callinfo[op["i"]] = (op["c"], serial)
        return serial

    def wait_gone(self, u):
        """the bus has noticed that u is gone when the observer has seen its unique name vanish"""
        obs = self.cl[0]
        held = []
        try:
            while True:
                rec = obs.recv(timeout=client.WATCHDOG)
                held.append(rec)
                k = rec.msg.known()
                if rec.msg.type == 4 and k.get(7) == BUS and k.get(3) == b"NameOwnerChanged" and \
                        len(rec.msg.body) == 3 and rec.msg.body[0] == u and rec.msg.body[2] == b"":
                    break
        finally:
            obs.inbox = held + obs.inbox

    def wait_noreply(self, op):
        for ci in op["noreply"]:
            idx, serial = self.callinfo[ci]
            if self.state.get(idx) == "ord":
                self.cl[idx].wait_reply(serial)

    def run_op(self, op):
        k = op["k"]
        getattr(self, "op_" + k)(op)
        self.steps_done += 1
        if self.mode == "A":
            self.drain_monitors()
        for i in self.ordinary():
            if len(self.cl[i].inbox) > 64:
                self.cl[i].take_inbox()

    def op_connect(self, op):
        i = op["c"]
        c = client.Client(self.daemon.sock, self.clock, uid=op["uid"], label=i)
        self.cl[i] = c
        self.state[i] = "ord"
        c.auth()
        r = c.hello()
        if r.msg.type != 2 or not c.unique:
            raise RuntimeError("Hello failed: %r" % r)
        self.active_t[i] = self.clock.t
        self.uniq[i] = c.unique
        if op["noc"]:
            c.bus_call(b"AddMatch", b"s", [NOC_RULE])
        self.snap(op)

    def op_nohello(self, op):
        i = op["c"]
        c = client.Client(self.daemon.sock, self.clock, label=i)
        self.cl[i] = c
        self.state[i] = "gone"
        self.active_t[i] = float("inf")
        c.auth()
        self.send(op, c, 4, path=op["path"], iface=op["iface"], member=op["member"], sig=op["sig"], body=op["body"])
        if not c.wait_eof():
            self.violation("inactive-sender-not-disconnected", "a connection that sent before Hello was not disconnected")
        self.cl[0].barrier()

    def op_disconnect(self, op):
        i = op["c"]
        c = self.cl[i]
        c.barrier()
        self.state[i] = "gone"
        self.gone_t[i] = self.clock.t
        c.close()
        self.wait_gone(self.uniq[i])
        self.wait_noreply(op)
        self.snap(op)

    def op_addmatch(self, op):
        r = self.cl[op["c"]].bus_call(b"AddMatch", b"s", [self.sub(op["rule"])])
        if r.msg.type != 2:
            self.diverge("AddMatch failed")

    def op_rmmatch(self, op):
        r = self.cl[op["c"]].bus_call(b"RemoveMatch", b"s", [self.sub(op["rule"])])
        if r.msg.type != 2:
            self.diverge("RemoveMatch failed")

    def op_request(self, op):
        r = self.cl[op["c"]].bus_call(b"RequestName", b"su", [op["name"], op["flags"]])
        if r.msg.type != 2 or r.msg.body[0] != op["code"]:
            self.diverge("RequestName row %s answered %r" % (op["row"], r.msg.body))
        self.snap(op)

    def op_release(self, op):
        r = self.cl[op["c"]].bus_call(b"ReleaseName", b"s", [op["name"]])
        if r.msg.type != 2 or r.msg.body[0] != op["code"]:
            self.diverge("ReleaseName row %s answered %r" % (op["row"], r.msg.body))
        self.snap(op)

    def check_refusal(self, op, c, serial):
        """(c) a message to a name that only a monitor used to hold is undeliverable: the sender gets an error"""
        if self.mode != "A" or not op.get("to_mon_name"):
            return
        errs = [r for r in c.log if r.msg.type == 3 and r.msg.known().get(7) == BUS and r.msg.known().get(5) == serial]
        self.part.count("old-name-probes")
        if len(errs) != 1:
            self.violation("old-name-still-routable:%s" % ("unique" if op["dest"][:1] == b":" else "well-known"),
                           "a message to a name last held by a connection that became a monitor was answered with %d errors" % len(errs))

    def op_signal(self, op):
        c = self.cl[op["c"]]
        s = self.send(op, c, 4, path=op["path"], iface=op["iface"], member=op["member"], sig=op["sig"], body=op["body"],
                      dest=self.sub(op["dest"]), sender=self.sub(op["forge"]))
        c.barrier()
        self.check_refusal(op, c, s)

    def op_call(self, op):
        c = self.cl[op["c"]]
        s = self.send(op, c, 1, path=op["path"], iface=op["iface"], member=op["member"], sig=op["sig"], body=op["body"],
                      dest=self.sub(op["dest"]), flags=op["flags"], sender=self.sub(op["forge"]))
        c.barrier()
        self.check_refusal(op, c, s)

    def op_answer(self, op):
        c = self.cl[op["c"]]
        idx, serial = self.callinfo[op["call"]]
        kw = {"error_name": b"com.example.Error.Failed"} if op["err"] else {}
        self.send(op, c, 3 if op["err"] else 2, reply_serial=serial, dest=self.uniq[idx], sig=b"s", body=[b"answer"], **kw)
        c.barrier()

    def op_unreq(self, op):
        c = self.cl[op["c"]]
        kw = {"error_name": b"com.example.Error.Unasked"} if op["err"] else {}
        self.send(op, c, 3 if op["err"] else 2, reply_serial=op["rs"], dest=self.sub(op["dest"]), **kw)
        c.barrier()

    def op_query(self, op):
        self.cl[op["c"]].bus_call(op["member"], op["sig"], self.sub(op["body"]))

    def op_odd(self, op):
        c = self.cl[op["c"]]
        s = self.send(op, c, op["mtype"], path=op["path"], iface=op["iface"], member=op["member"], dest=self.sub(op["dest"]),
                      reply_serial=op["rs"], error_name=op["errname"], sig=op["sig"], body=op["body"], flags=op["flags"],
                      order=op["order"], sender=self.sub(op["forge"]))
        c.barrier()
        if self.mode == "A":
            self.part.count("unknown-type-sent")
            self.part.count("unknown-type-sent:%s" % ("to-bus" if op["dest"] == BUS else ("no-owner" if op["refused"].endswith("no-owner")
                            else ("to-unique" if op["dest"][:1] == b":" else "to-well-known"))))
            if op["order"] == "B":
                self.part.count("unknown-type-sent:big-endian")
            # what the bus answers is its own business (AccessDenied / ServiceUnknown / NameHasNoOwner on this tree); that it
            # answers at all is recorded, and the answer must reach the monitors like any other bus-generated message
            n = len([r for r in c.log if r.msg.type == 3 and r.msg.known().get(7) == BUS and r.msg.known().get(5) == s])
            self.part.count("unknown-type-answered-%d-times" % n)
        self.check_refusal(op, c, s)

    def op_flood(self, op):
        c = self.cl[op["c"]]
        peer = self.uniq[op["peer"]]
        for k in range(op["n"]):
            body = [op["arg0"], b"%05d" % k + b"x" * (op["size"] - 5)]
            if k % 3 == 2:
                serial, data = c.build(1, path=op["path"], iface=op["iface"], member=op["member"], dest=peer, sig=b"ss", body=body, flags=1)
            else:
                serial, data = c.build(4, path=op["path"], iface=op["iface"], member=op["member"], sig=b"ss", body=body)
            c.send_msg(data, serial)
            self.flooded.add((op["c"], serial))
            if k % 4 == 3:
                # the sender's round-trip first: the bus has then processed the batch before anybody else sends;
                # every ordinary connection keeps up (so none of them ever has a backlog near the limit); no monitor reads
                c.barrier()
                for i in self.ordinary():
                    self.cl[i].barrier()
                    self.cl[i].take_inbox()
        c.barrier()
        for i in self.ordinary():
            self.cl[i].barrier()
            self.cl[i].take_inbox()

    def op_nodest(self, op):
        c = self.cl[op["c"]]
        self.send(op, c, 1, path=op["path"], iface=op["iface"], member=op["member"])
        c.barrier()

    def op_badmon(self, op):
        c = self.cl[op["c"]]
        v = op["variant"]
        if v == "flags":
            sig, body = b"asu", [[], 1 + (op["i"] % 3) * 0x7fffffff]
        elif v == "bad-rule":
            sig, body = b"asu", [[[b"type='sig'", b"foo='bar'", b"interface='nodot'", b"member='Foo"][op["i"] % 4]], 0]
        elif v == "good-then-bad-rule":
            sig, body = b"asu", [[b"type='signal'", b"path='not/a/path'"], 0]
        elif v == "signature":
            sig, body = [(b"s", [b"type='signal'"]), (b"as", [[]]), (b"asus", [[], 0, b"x"]), (b"", [])][op["i"] % 4]
        else:
            sig, body = b"asu", [[], 0]
        try:
            r = c.call(BUS, BUS_PATH, MON_IFACE, b"BecomeMonitor", sig, body)
            if self.mode == "A":
                self.part.count("invalid-become-monitor")
                self.part.count("invalid-become-monitor:" + v)
            self.part.sig("op", "badmon", v, r.msg.type)
            if r.msg.type != 3:
                self.violation("invalid-become-monitor-accepted:%s" % v, "BecomeMonitor with invalid arguments (%s) succeeded" % v)
                raise Abort()
            c.barrier()
        except client.Closed:
            self.violation("invalid-become-monitor-had-effect:%s" % v,
                           "after a refused BecomeMonitor (%s) the caller was disconnected when it sent again" % v)
            raise Abort()
        obs = self.cl[0]
        r = obs.bus_call(b"GetNameOwner", b"s", [c.unique])
        bad = []
        if r.msg.type != 2 or r.msg.body[0] != c.unique:
            bad.append("unique name gone")
        for n in op["names"]:
            r = obs.bus_call(b"GetNameOwner", b"s", [n])
            if r.msg.type != 2 or r.msg.body[0] != c.unique:
                bad.append("lost %s" % n.decode())
        if bad:
            self.violation("invalid-become-monitor-had-effect:%s" % v, "a refused BecomeMonitor changed name ownership: %s" % bad)

    def op_state(self, op):
        obs = self.cl[0]
        r = obs.bus_call(b"ListNames")
        got = set(r.msg.body[0]) if r.msg.type == 2 else set()
        want = set(self.sub(op["names"])) | {BUS}
        mon_u = {self.uniq[i]: i for i in self.mons}
        cnt = (lambda: self.part.count("state-queries")) if self.mode == "A" else (lambda: None)
        cnt()
        if got != want:
            stale = [u for u in got - want if u in mon_u]
            if stale and self.mode == "A":
                self.violation("monitor-still-owns-name:unique", "ListNames still lists the unique name of a monitor")
            else:
                self.diverge("ListNames differs: extra %r missing %r" % (sorted(got - want), sorted(want - got)))
        for n, q in op["queues"].items():
            r = obs.bus_call(b"ListQueuedOwners", b"s", [n])
            gq = list(r.msg.body[0]) if r.msg.type == 2 else []
            wq = self.sub(q)
            cnt()
            if gq != wq:
                stale = [u for u in gq if u in mon_u]
                if stale and self.mode == "A":
                    self.violation("monitor-still-%s" % ("owns-name:well-known" if gq[0] in mon_u else "queued"),
                                   "ListQueuedOwners(%s) still contains a monitor" % n.decode())
                else:
                    self.diverge("queue of %s differs: %r want %r" % (n.decode(), gq, wq))
        for u in self.sub(op["gone"])[-3:]:
            r = obs.bus_call(b"NameHasOwner", b"s", [u])
            cnt()
            r2 = obs.bus_call(b"GetNameOwner", b"s", [u])
            cnt()
            if r.msg.type != 2 or r.msg.body[0] or r2.msg.type != 3:
                if u in mon_u and self.mode == "A":
                    self.violation("monitor-still-owns-name:unique", "NameHasOwner / GetNameOwner still know the old unique name of a monitor")
                else:
                    self.diverge("NameHasOwner(%r) true for a vanished connection" % u)

    def op_monitor(self, op):
        i = op["c"]
        c = self.cl[i]
        pre = self.cut("pre:%d" % op["i"])
        u = self.uniq[i]
        self.gone_t[i] = self.clock.t
        if self.mode == "A":
            rules = self.sub(op["rules"])
            s = self.send(op, c, 1, path=BUS_PATH, iface=MON_IFACE, member=b"BecomeMonitor", dest=BUS, sig=b"asu", body=[rules, 0])
            t_act = c.sent[-1][0]
            rep = c.wait_reply(s)
            if rep.msg.type != 2:
                self.violation("become-monitor-refused", "a valid BecomeMonitor by uid 0 failed: %s" % rep.msg.known().get(4))
                raise Abort()
            start = max(j for j, r in enumerate(c.log) if r is rep) + 1
            self.state[i] = "mon"
            self.mons[i] = {"start": start, "t_act": t_act, "filter": mon.Filter(rules), "op": op, "pre": pre, "serial": s,
                            "old_rules": [mr.parse(t) for t in self.sub(op["old_rules"])]}
            self.part.count("become-monitor")
        else:
            self.state[i] = "gone"
            c.close()
        self.wait_gone(u)
        self.wait_noreply(op)
        self.snap(op)
        post = self.cut("post:%d" % op["i"])
        if self.mode == "A":
            self.mons[i]["post"] = post
            self.check_release(op, pre, post)

    def check_release(self, op, pre, post):
        """(c) the names were released with the proper signals (what the observer and the successors saw in the step)"""
        want = collections.Counter()
        for e in op["events"]:
            e = self.sub(list(e))
            want[tuple(e)] += 1
        got = collections.Counter()
        for idx in pre:
            if idx == op["c"]:
                continue
            log = self.cl[idx].log[pre[idx]:post.get(idx, len(self.cl[idx].log))]
            for r in log:
                k = r.msg.known()
                if r.msg.type != 4 or k.get(7) != BUS:
                    continue
                if k.get(3) == b"NameOwnerChanged" and idx == 0:
                    got[("NameOwnerChanged",) + tuple(r.msg.body)] += 1
                elif k.get(3) in (b"NameAcquired", b"NameLost") and k.get(6) == self.uniq[idx]:
                    got[(k.get(3).decode(), self.uniq[idx], r.msg.body[0])] += 1
        # NameLost to the new monitor itself is read from its own socket later; not part of this comparison
        want = collections.Counter({k: v for k, v in want.items() if k[0] != "NameLost"})
        self.part.count("name-release-checked")
        self.part.sig("op", "monitor", len(op["owned"]), len(op["queued"]), len(op["noreply"]), bool(op["rules"]))
        if got != want:
            missing = want - got
            extra = got - want
            self.violation("names-not-released" if missing else "release-signals-differ",
                           "BecomeMonitor: name signals differ from 'all names released': missing %r extra %r"
                           % (sorted(missing.elements())[:4], sorted(extra.elements())[:4]))

    # -- the whole history
    def run(self):
        self.start()
        for op in self.plan.ops:
            if not self.daemon.alive():
                self.violation("daemon-died", "the bus exited during the history")
                raise Abort()
            self.run_op(op)
        self.final()

    def emit_marker(self, n):
        obs = self.cl[0]
        token = b"end-%d-%d" % (self.hid, n)
        serial = obs.signal(b"/org/verif/Marker", MARK_IF, b"End", b"s", [token])
        obs.barrier()      # keeps the marker ahead of whatever another connection sends next
        self.markers.append((token, serial, obs.serial))
        return token

    def read_to_marker(self, i, token):
        c = self.cl[i]
        c.inbox = []                       # everything read so far is in c.log, which is what is judged
        m = self.mons[i]
        pos = m.get("scan", m["start"])
        while True:
            while pos < len(c.log):
                pos += 1
                if self._is_marker(c.log[pos - 1], token):
                    m["scan"] = pos
                    return True
            m["scan"] = pos
            try:
                c.recv(timeout=client.WATCHDOG)
            except client.Closed:
                self.violation("monitor-disconnected-without-sending", "a monitor's connection was closed although it never sent")
                return False

    @staticmethod
    def _is_marker(rec, token):
        k = rec.msg.known()
        return rec.msg.type == 4 and k.get(2) == MARK_IF and rec.msg.body and rec.msg.body[0] == token

    def final(self):
        self.cut("end")
        order = list(self.plan.monitors)
        for n in range(len(order) + 1):
            token = self.emit_marker(n)
            if self.mode == "A":
                for j in order[n:]:
                    if j not in self.mons or self.mons[j].get("lost"):
                        continue
                    if self.read_to_marker(j, token):
                        m = self.mons[j]
                        m["end"] = len(self.cl[j].log)
                        m["t_end"] = self.clock.t
                        m["endcut"] = {i: len(self.cl[i].log) for i in self.cl}
                        m["last_marker"] = n
                    else:
                        self.mons[j]["lost"] = True
            if n == len(order):
                break
            # the n-th monitor sends something: it must be disconnected, and nobody may notice
            i = order[n]
            if self.mode == "A" and i in self.mons:
                self.monitor_sends(i, (self.hid + n) % len(MON_SENDS))
        self.cut("final")

    def monitor_sends(self, i, kind):
        c = self.cl[i]
        cls, mtype, kw = MON_SENDS[kind]
        kw = dict(kw)
        if kw.get("dest") == b"@peer":
            kw["dest"] = self.uniq[0]
        before = len(c.log)
        serial = None
        ok = replied = False
        try:
            serial, data = c.build(mtype, **kw)
            c.send_msg(data, serial)
            if cls == "peer-call-without-destination":
                # libdbus answers org.freedesktop.DBus.Peer calls that carry no destination inside DBusConnection, before the
                # bus's dispatch function (and its monitor check) ever runs: recorded as observed, not judged
                try:
                    c.inbox = []
                    c.wait_reply(serial)
                    replied = True
                except client.Closed:
                    ok = True
            else:
                ok = c.wait_eof()
        except client.Closed:
            ok = True
        self.part.count("monitor-sent")
        self.part.count("monitor-sent:" + cls)
        self.part.sig("op", "monitor-sends", kind, ok)
        self.eof_ok[i] = ok
        if cls == "peer-call-without-destination":
            self.part.count("monitor-peer-call:%s" % ("disconnected" if ok else "answered-and-still-connected"))
            self.mons[i]["stream_end"] = before       # what libdbus answered is outside the judged stream
            if not ok:
                # a genuine deviation of the pinned tree (recorded in known_findings.json): the monitor sent something, was
                # answered and stays connected
                self.violation("monitor-not-disconnected-after-sending:peer-call-without-destination",
                               "a monitor sent org.freedesktop.DBus.Peer.%s without DESTINATION, got an answer and was not disconnected"
                               % kw.get("member", b"?").decode())
            return
        # nothing may come back to it: it is never the addressee of a delivery
        uM = self.uniq[i]
        for rec in c.log[before:]:
            k = rec.msg.known()
            # (captured copies of replies to other connections carry those connections' names as destination)
            if k.get(7) is None or (serial is not None and rec.msg.type in (2, 3) and k.get(5) == serial and k.get(7) == BUS
                                    and k.get(6) in (None, uM)):
                self.violation("answer-delivered-to-monitor:" + cls, "a monitor sent a message and was sent an answer to it (%s)"
                               % (k.get(4) or b"method return").decode("latin1"))
                break
        if not ok:
            self.violation("monitor-not-disconnected-after-sending" + ("" if cls in ("signal", "call") else ":" + cls),
                           "a monitor sent a message (%s) and was still connected after the watchdog" % cls)

    def finish(self):
        for c in self.cl.values():
            c.close()
        if self.daemon is not None:
            self.daemon.stop()
            out = []
            for cls, site, text in self.daemon.problems():
                if cls == "lsan:leak" and _only_reload_watch_leak(self.daemon.stderr_text()):
                    # bus/main.c never releases the watch of its reload pipe on the normal quit path; LeakSanitizer reports
                    # these 64 bytes of process-lifetime memory only when no stale pointer happens to keep them 'reachable'
                    # (about one daemon in 40000 here).  Allocated in main() before the bus serves anybody: not C18's business.
                    self.part.count("daemon-exit-leak:setup_reload_pipe")
                    continue
                out.append((cls, site, text))
            return out
        return []


# ======================================================================================== judgement (a): monitor streams

def _only_reload_watch_leak(err):
    blocks = re.split(r"\n(?=(?:Direct|Indirect) leak of )", err.split("ERROR: LeakSanitizer", 1)[-1])
    leaks = [b for b in blocks if b.startswith(("Direct leak", "Indirect leak"))]
    return bool(leaks) and all("setup_reload_pipe" in b.split("\n\n")[0] for b in leaks)


def _decoded_sent(c):
    out = []
    for t, serial, data in c.sent:
        r = wire.validate(data, nfds=None)
        if r.msg is not None:
            out.append((t, serial, r.msg))
    return out


def judge_monitors(ex, part):
    """Compare every monitor's stream with everything the bus was made to process after its activation."""
    plan = ex.plan
    sent = {i: _decoded_sent(c) for i, c in ex.cl.items()}
    t_of = {}
    for i, lst in sent.items():
        for t, serial, msg in lst:
            t_of[(i, serial)] = t
    op_of = {v: plan.ops[k] for k, v in ex.callinfo.items()}
    u0 = ex.uniq[0]
    # a message of an unknown type is refused: no connection that is not a monitor may ever receive one
    for i, c in ex.cl.items():
        end = ex.mons[i]["start"] if i in ex.mons else len(c.log)
        for rec in c.log[:end]:
            if rec.msg.type > 4:
                ex.violation("unknown-type-delivered", "a message of unknown type %d was delivered to connection %d, which is not a monitor"
                             % (rec.msg.type, i))
                break
    # names a connection owned at any time: a bus-generated message (always addressed by unique name) is not judged
    # against destination='<well-known name>' when its addressee may have owned that name (its exact time is unknown)
    ever = {}
    for _, owners in ex.snaps:
        for n, u in owners.items():
            ever.setdefault(u, {})[n] = u
    for M, m in ex.mons.items():
        if m.get("end") is None:
            part.count("monitor-stream-unbounded")
            continue
        filt, t_act, pre, post = m["filter"], m["t_act"], m["pre"], m.get("post") or {}
        t_end, endcut = m["t_end"], m["endcut"]
        bs = ex.markers[m["last_marker"]][2]
        tail = {("c", u0, bs), ("r", 2, u0, bs, None)}      # the observer's round-trip behind the last marker
        uM = ex.uniq[M]
        E = mon.Expect()

        def add(key, view, owners, cat, content, required=1, optional=0, refused=None):
            if key in tail:
                required, optional = 0, 1
            # what is merely tolerated (transition of this very connection) may also have come through its old rules
            hit = True if required == 0 else filt.verdict(view, owners)
            if hit is None:
                # destination= against a message delivered under another name of the same connection: not judged
                required, optional, hit = 0, max(optional, required), True
                part.count("destination-unjudged")
            elif required and has_dest and view["destination"] is not None:
                part.count("destination-filter-judged")
                if hit and refused == "no-owner":
                    part.count("destination-no-owner-shown")
                if hit and view["destination"] == BUS:
                    part.count("destination-bus-shown")
            E.add(key, hit, cat, content, optional=optional, refused=refused, required=required)

        has_dest = filt.has_destination()
        by_unique = {u: i for i, u in ex.uniq.items()}

        def recipient(i, t, msg):
            """unique name of the connection the bus is about to deliver a client's message to, if any"""
            d = msg.known().get(6)
            if d is None or d == BUS or not t > ex.active_t.get(i, float("inf")):
                return None
            if d[:1] != b":":
                d = ex.owners_at(t).get(d)
            j = by_unique.get(d)
            if j is None or not (ex.active_t.get(j, float("inf")) < t < ex.gone_t.get(j, float("inf"))):
                return None
            return d

        # 1. everything any connection sent
        for i, lst in sent.items():
            if i == M:
                continue
            for t, serial, msg in lst:
                if t <= t_act or t > t_end:
                    continue
                true = ex.uniq[i] if t > ex.active_t.get(i, float("inf")) else mon.NOT_ACTIVE
                req, opt = 1, 0
                if i in ex.mons and t > ex.mons[i]["t_act"]:
                    req, opt = 0, 1                       # another monitor's forbidden message: the bus closes it unprocessed
                op = op_of.get((i, serial))
                refused = op.get("refused") if op else None
                view = mon.view_of(msg, true)
                view["recipient"] = recipient(i, t, msg)
                cat = mon.category(msg, true)
                if (i, serial) in ex.flooded:
                    cat += ":monitor-lagging"
                add(("c", true, serial), view, ex.owners_at(t), cat, mon.content_of(msg),
                    required=req, optional=opt, refused=refused)
        # 2. bus-generated unicast messages, as received by their addressees
        for i, c in ex.cl.items():
            if i == M or i not in ex.uniq:
                continue
            if i in pre:
                lo = pre[i]
            elif c.sent and c.sent[0][0] > t_act:
                lo = 0
            else:
                continue
            win = post.get(i)
            for j in range(lo, min(len(c.log), endcut.get(i, len(c.log)))):
                msg = c.log[j].msg
                k = msg.known()
                if k.get(7) != BUS or k.get(6) is None or k.get(6) != ex.uniq[i]:
                    continue
                in_window = win is not None and j < win
                namesig = msg.type == 4 and k.get(3) in (b"NameLost", b"NameAcquired")
                req, opt = (0, 2) if (in_window and namesig) else (1, 0)
                if has_dest and namesig and req and i in ex.mons and j >= ex.mons[i]["pre"].get(i, 0):
                    # NameLost to a connection in the middle of giving up its names on BecomeMonitor (the unique name goes
                    # first): whether a destination= rule still 'knows' the addressee is not judged
                    req, opt = 0, 1
                    part.count("destination-unjudged")
                view = mon.view_of(msg, BUS)
                view["recipient"] = ex.uniq[i]
                add(mon.stream_key(msg), view, ever.get(ex.uniq[i], {}), mon.category(msg), mon.content_of(msg), required=req, optional=opt)
        # 3. NameOwnerChanged broadcasts, as received by the observer (which holds a rule for them throughout)
        obs = ex.cl[0]
        for j in range(pre[0], min(len(obs.log), endcut[0])):
            msg = obs.log[j].msg
            k = msg.known()
            if msg.type == 4 and k.get(7) == BUS and k.get(6) is None and k.get(3) == b"NameOwnerChanged":
                req, opt = (0, 2) if j < post.get(0, 0) else (1, 0)
                add(mon.stream_key(msg), mon.view_of(msg, BUS), {}, mon.category(msg), mon.content_of(msg), required=req, optional=opt)
        # 3b. NameLost for the names the new monitor itself gave up (addressed to it inside the transition)
        for e in m["op"]["events"]:
            if e[0] == "NameOwnerChanged" and e[2] == tok(M):
                E.add(("s", b"NameLost", uM, (ex.sub(e[1]),)), True, "bus-signal:NameLost", None, optional=1, required=0)
        # 3c. NameLost the bus addresses to a connection that has just vanished (nobody receives it)
        for op in plan.ops:
            if op["k"] == "disconnect" and op["i"] > m["op"]["i"]:
                for e in op["events"]:
                    if e[0] == "NameOwnerChanged" and e[2] == tok(op["c"]):
                        key = ("s", b"NameLost", ex.uniq[op["c"]], (ex.sub(e[1]),))
                        view = {"type": 4, "sender": BUS, "path": BUS_PATH, "interface": BUS, "member": b"NameLost",
                                "destination": ex.uniq[op["c"]], "args": [("s", ex.sub(e[1]))]}
                        E.add(key, has_dest or filt.matches(view, {}), "bus-signal:NameLost-to-vanished", None, optional=1, required=0)
        # 4. errors the bus synthesizes for monitors when a broadcast is refused by a recipient's receive policy
        for op in plan.ops:
            if op["k"] == "signal" and op.get("denied_n") and op["i"] in ex.callinfo:
                i, serial = ex.callinfo[op["i"]]
                t = t_of.get((i, serial), 0)
                if t_act < t <= t_end:
                    view = {"type": 3, "sender": BUS, "path": None, "interface": None, "member": None,
                            "destination": ex.uniq[i], "args": [("s", b"")], "recipient": ex.uniq[i]}
                    add(("r", 3, ex.uniq[i], serial, ACCESS_DENIED), view, ever.get(ex.uniq[i], {}), "bus-error:AccessDenied-for-denied-broadcast", None,
                        required=op["denied_n"])
        # the stream
        stream = [r.msg for r in ex.cl[M].log[m["start"]:m.get("stream_end")]]
        # Hello is stamped either ':not.active.yet' or the unique name it is about to create: both are the true sender
        early = set()
        for i, lst in sent.items():
            for t, serial, msg in lst:
                if i in ex.uniq and t <= ex.active_t.get(i, 0):
                    early.add(("c", ex.uniq[i], serial))

        def skey(x):
            k = mon.stream_key(x)
            return ("c", mon.NOT_ACTIVE, k[2]) if k in early else k
        seen = collections.Counter(skey(x) for x in stream)
        missing, dup, unexplained = E.compare(seen)
        fk = filt.keyset()
        lag_bytes = 0
        for key, n in E.universe.items():
            info = E.info[key]
            matched = E.required.get(key, 0) > 0
            part.sig("mon", info["cat"], fk if len(fk) < 40 else "many", matched, info["refused"])
            if matched:
                got = min(seen.get(key, 0), E.required[key])
                part.count("monitor-messages-checked", got)
                if key[0] != "c":
                    part.count("bus-generated-seen", got)
                elif info["refused"]:
                    part.count("refused-seen", got)
                if "unicast" in info["cat"]:
                    part.count("unicast-seen", got)
                if "broadcast" in info["cat"]:
                    part.count("broadcast-seen", got)
                if info["cat"].startswith("inactive-"):
                    part.count("inactive-sender-seen", got)
                if info["cat"].endswith(":monitor-lagging"):
                    part.count("lag-copies-checked", got)
                    lag_bytes += got * FLOOD_SIZE
                if info["cat"].endswith("unknown-type"):
                    part.count("unknown-type-shown", got)
                    part.count("unknown-type-shown:%s-filter" % ("empty" if filt.empty() else "selective"), got)
            elif E.required.get(key, 0) == 0 and E.optional.get(key, 0) == 0:
                part.count("filtered-out-and-absent" if not seen.get(key) else "filtered-out-but-present")
                if info["cat"].endswith("unknown-type") and not seen.get(key):
                    part.count("unknown-type-filtered-out-and-absent")
        for key, n in E.optional.items():
            if key not in tail and seen.get(key, 0) > E.required.get(key, 0):
                part.count("transition-copies", seen[key] - E.required.get(key, 0))
                if seen[key] - E.required.get(key, 0) > 1:
                    part.count("transition-double-copies")
        part.count("monitor-streams-judged")
        if lag_bytes:
            part.count("lag-monitors-judged")
            part.count("lag-monitor-filter:" + ("empty" if filt.empty() else "selective"))
            if lag_bytes > 2 * SOCKBUF + plan.limits["max_outgoing_bytes"]:
                part.count("lag-backlog-beyond-limit")      # what it drained cannot have fitted into kernel buffers + the limit
        part.count("monitor-filter:" + ("empty" if filt.empty() else "selective"))
        if has_dest:
            part.count("monitor-filter:destination")
        desc = {"monitor": "connection %d" % M, "filter": [t.decode("latin1") for t in filt.texts]}
        for key, n in missing:
            info = E.info[key]
            wrong = None
            if key[0] == "c":
                for k2, _ in unexplained:
                    if k2[0] == "c" and k2[2] == key[2] and k2[1] != key[1]:
                        wrong = k2
            if wrong is not None:
                ex.violation("wrong-sender:%s" % info["cat"], "a monitor's copy carries sender %r, the message was sent by %r"
                             % (wrong[1], key[1]), desc)
                continue
            ex.violation("not-shown:%s%s" % (info["cat"], ":refused-" + info["refused"] if info["refused"] else ""),
                         "a processed message matching the monitor's filter is missing from its stream (%d of %d copies): %s"
                         % (E.required[key] - n, E.required[key], _keytext(key)), desc)
        for key, n in dup:
            ex.violation("shown-%d-times:%s" % (seen[key], E.info[key]["cat"]),
                         "a message was shown %d times to a monitor (expected %d): %s" % (seen[key], E.required.get(key, 0), _keytext(key)), desc)
        for key, n in unexplained:
            ex_msg = [x for x in stream if skey(x) == key][0]
            cat = mon.category(ex_msg)
            if key[0] == "c" and any(k2[0] == "c" and k2[2] == key[2] for k2, _ in missing):
                continue       # reported as wrong-sender above
            if key in E.universe:
                view = mon.view_of(ex_msg, ex_msg.known().get(7))
                if ex_msg.known().get(6) == uM:
                    cls = "delivered-as-addressee"
                elif any(r.matches(view, ex.owners_at(t_end)) for r in m["old_rules"]):
                    cls = "old-match-rule-still-active"
                else:
                    cls = "filter-mismatch"
            else:
                cls = "unexplained"
            ex.violation("%s:%s" % (cls, cat), "a monitor received a message it should not have (%s): %s" % (cls, _keytext(key)), desc)
        # content of the copies and per-sender order
        last = {}
        for x in stream:
            key = skey(x)
            info = E.info.get(key)
            if info and info["content"] and mon.content_of(x) not in info["content"]:
                ex.violation("altered-copy:%s" % info["cat"], "a monitor's copy differs from the message: %r vs %r"
                             % (mon.content_of(x), info["content"][0]), desc)
            if key[0] == "c" and key[1] != mon.NOT_ACTIVE and key in E.universe:
                if last.get(key[1], 0) >= x.serial:
                    ex.violation("order:per-sender", "messages of one sender reached a monitor out of order (%d after %d)"
                                 % (x.serial, last[key[1]]), desc)
                last[key[1]] = x.serial


def _keytext(key):
    return repr(tuple(x.decode("latin1") if isinstance(x, bytes) else x for x in key))


# ======================================================================================== judgement (b): paired runs

def observations(ex):
    table = {u: b"<c%d>" % i for i, u in ex.uniq.items()}
    out = {}
    for i, c in ex.cl.items():
        getid = set(serial for t, serial, msg in _decoded_sent(c)
                    if msg.known().get(3) == b"GetId" and msg.known().get(6) == BUS)
        seq = []
        for rec in c.log:
            msg = rec.msg
            k = msg.known()
            sender = k.get(7)
            body = msg.body
            if sender == BUS and msg.type == 2 and k.get(5) in getid:
                body = [b"<guid>"]
            own = sender is not None and sender != BUS
            seq.append((msg.type, mon.rename(sender, table), mon.rename(k.get(6), table), msg.serial if own else None, k.get(5),
                        k.get(1), k.get(2), k.get(3), k.get(4), bytes(msg.body_sig or b""), mon.rename(body, table)))
        out[i] = seq
    return out


def _item_class(item):
    origin = "bus" if item[1] == BUS else ("local" if item[1] is None else "peer")
    what = item[8] or item[7] or b""
    return "%s-%s-%s" % (origin, {1: "call", 2: "return", 3: "error", 4: "signal"}.get(item[0], "?"),
                         what.decode("latin1").rsplit(".", 1)[-1] if what else "")


def compare_pair(exa, exb, part):
    """-> list of (key, what) differences between the runs with monitors (A) and the control (B)."""
    diffs = []
    oa, ob = observations(exa), observations(exb)
    la, lb = [c[0] for c in exa.cuts], [c[0] for c in exb.cuts]
    if la != lb or set(oa) != set(ob):
        return [("harness", "the two runs did not execute the same plan (%r vs %r)" % (la[-3:], lb[-3:]))]
    total = 0
    for i in sorted(oa):
        upto = None
        if i in exa.plan.monitors:
            # a future monitor is compared while it is an ordinary connection only
            for (label, d) in exa.cuts:
                if label.startswith("pre:") and exa.plan.ops[int(label[4:])]["c"] == i:
                    upto = label
        sa, sb = oa[i], ob[i]
        pa = pb = 0
        bounds = []
        for (label, da), (_, db) in zip(exa.cuts, exb.cuts):
            if (i in da) != (i in db):
                return [("harness", "connection %d is ordinary in one run only at %s" % (i, label))]
            if i in da:
                bounds.append((label, da[i], db[i]))
                if label == upto:
                    break
        if upto is None and exa.state.get(i) != "mon":
            bounds.append(("eof", len(sa), len(sb)))
        prev = "start"
        for label, ea, eb in bounds:
            xa, xb = sa[pa:ea], sb[pb:eb]
            pa, pb = ea, eb
            window = prev.startswith("pre:") and label.startswith("post:")
            total += len(xa)
            if xa != xb:
                ca, cb = collections.Counter(xa), collections.Counter(xb)
                if ca == cb:
                    if not window:
                        diffs.append(("interference:reordered", "connection %d saw the same messages in another order between %s and %s"
                                      % (i, prev, label)))
                else:
                    for item in sorted((ca - cb).elements(), key=repr)[:2]:
                        diffs.append(("interference:extra:%s" % _item_class(item), "connection %d saw, only in the run with monitors "
                                      "(between %s and %s): %r" % (i, prev, label, item)))
                    for item in sorted((cb - ca).elements(), key=repr)[:2]:
                        diffs.append(("interference:missing:%s" % _item_class(item), "connection %d did not see, in the run with monitors "
                                      "(between %s and %s): %r" % (i, prev, label, item)))
            prev = label
        part.count("paired-clients-compared")
    part.count("paired-messages-compared", total)
    return diffs


# ======================================================================================== orchestration

def _witness(plan, ex, hid, extra=None):
    n = ex.steps_done + 1 if ex is not None else len(plan.ops)
    w = {"history": hid, "run": ex.mode if ex is not None else "-", "monitors": ["connection %d" % m for m in plan.monitors],
         "steps": [describe(op) for op in plan.ops[:n]][-90:]}
    if extra:
        w.update(extra)
    return w


def _run_exec(ex):
    """Runs one history; the daemon is stopped and its stderr scraped in every case.  Timeout / Closed propagate."""
    ex.done, ex.problems = False, []
    try:
        ex.run()
        ex.done = True
    except Abort:
        pass
    finally:
        try:
            ex.problems = ex.finish()
        except Exception:
            pass


def run_pair(b, rundir, seed, shard, i, part):
    hid = shard * 100000 + i
    for attempt in (0, 1):
        plan = make_plan(gen.rng_for(seed, PROP, shard, i), lag=(i % 20 == 1))
        sub = Part2()
        exs = []
        try:
            for mode in ("A", "B"):
                ex = Exec(b, os.path.join(rundir, "h%d-%d%s" % (i, attempt, mode)), plan, mode, sub, hid)
                exs.append(ex)
                _run_exec(ex)
        except (client.Timeout, client.Closed) as e:
            ex = exs[-1]
            alive = ex.daemon.alive() if ex.daemon is not None else False
            if attempt == 1:
                for (k, what, extra) in ex.violations:
                    part.violation("%s:%s" % (PROP, k), what, _witness(plan, ex, hid, extra))
                for cls, site, text in ex.problems:
                    part.violation("%s:%s:%s" % (PROP, cls, site), "daemon reported %s" % cls, _witness(plan, ex, hid, {"stderr": text[-3000:]}))
                part.violation("%s:hang:%s" % (PROP, type(e).__name__), "history hung twice in run %s at step %d (daemon alive=%s)"
                               % (ex.mode, ex.steps_done, alive), _witness(plan, ex, hid))
            else:
                part.count("watchdog")
            continue
        finally:
            for mode in ("A", "B"):
                shutil.rmtree(os.path.join(rundir, "h%d-%d%s" % (i, attempt, mode)), ignore_errors=True)
        sub.flush(part)
        exa, exb = exs
        done_a, done_b = exa.done, exb.done
        for ex in (exa, exb):
            for cls, site, text in ex.problems:
                part.violation("%s:%s:%s" % (PROP, cls, site), "daemon reported %s" % cls, _witness(plan, ex, hid, {"stderr": text[-3000:]}))
        if done_a and exa.diverged is None:
            judge_monitors(exa, part)
        elif exa.diverged is not None:
            part.count("model-diverged")
            part.sample({"history": hid, "model-diverged": exa.diverged}, cap=8)
        if done_a and done_b:
            diffs = compare_pair(exa, exb, part)
            part.count("paired-runs-compared")
            part.count("paired-runs-with-%d-monitors" % len(plan.monitors))
            part.sig("pair", len(plan.monitors), tuple(bool(plan.ops[exa.mons[m]["op"]["i"]]["rules"]) for m in exa.mons),
                     tuple((len(exa.mons[m]["op"]["owned"]), len(exa.mons[m]["op"]["queued"]), len(exa.mons[m]["op"]["noreply"]))
                           for m in exa.mons))
            for key, what in diffs:
                if key == "harness" or not plan.monitors:
                    part.inconclusive.append("history %d: control runs differ without any monitor (%s): %s" % (hid, key, what))
                else:
                    exa.violation(key, what)
        for ex in (exa, exb):
            for (k, what, extra) in ex.violations:
                part.violation("%s:%s" % (PROP, k), what, _witness(plan, ex, hid, extra))
        part.evaluations += len(plan.ops)
        part.count("histories")
        if plan.lag:
            part.count("lag-histories")
        for op in plan.ops:
            part.count("op:" + op["k"])
            part.sig("op", op["k"], op.get("refused"), op.get("variant"), op.get("row"))
        return plan
    return None


class Part2(report.Part):
    """counters of an attempt; merged only when the attempt was not abandoned by the watchdog"""

    def flush(self, part):
        part.signatures |= self.signatures
        part.counters.update(self.counters)


def _worker(args):
    if args[0] == "refused-delivery":
        # checks/c18eav.py: destination= monitors and the errors the bus builds for refused match-rule recipients
        from checks import c18eav
        _, seed, shard, count = args
        part = report.Part()
        b = build.build("asan", quiet=True)
        base = tempfile.mkdtemp(prefix="verif-c18e-")
        try:
            for i in range(count):
                c18eav.case(b, os.path.join(base, "c%d" % i), gen.rng_for(seed, PROP, "eav", shard, i), part, shard * 1000 + i)
        finally:
            shutil.rmtree(base, ignore_errors=True)
        return part
    seed, shard, count = args
    part = report.Part()
    b = build.build("asan", quiet=True)
    rundir = tempfile.mkdtemp(prefix="verif-c18-")
    os.chmod(rundir, 0o711)        # connections made under another uid must be able to reach the socket
    try:
        for i in range(count):
            plan = run_pair(b, rundir, seed, shard, i, part)
            if plan is not None and shard == 0 and i < 2:
                part.sample({"history": shard * 100000 + i, "monitors": plan.monitors, "steps": [describe(op) for op in plan.ops[:30]]})
    finally:
        shutil.rmtree(rundir, ignore_errors=True)
    return part


def run(tier, seed, replay=None, scale=1.0):
    r = report.Run(PROP, tier)
    r.rule = RULE
    b = build.build("asan")
    r.builds.append(b.info())
    if replay:
        j = json.load(open(replay))
        if j["witness"].get("part") == "refused-delivery":
            from checks import c18eav
            shard, i = divmod(j["witness"]["case"], 1000)
            part = report.Part()
            c18eav.case(b, tempfile.mkdtemp(prefix="verif-c18e-"), gen.rng_for(j["seed"], PROP, "eav", shard, i), part, j["witness"]["case"])
            part.sig("replay", 0)
            part.sig("replay", 1)
            r.merge(part)
            return r.finish()
        hid = j["witness"]["history"]
        shard, i = divmod(hid, 100000)
        part = report.Part()
        rundir = tempfile.mkdtemp(prefix="verif-c18-")
        os.chmod(rundir, 0o711)
        try:
            run_pair(b, rundir, j["seed"], shard, i, part)
        finally:
            shutil.rmtree(rundir, ignore_errors=True)
        part.sig("replay", 0)
        r.merge(part)
        return r.finish()
    total = int((320 if tier == "quick" else 4000) * scale)
    per = max(1, total // 16)
    neav = max(1, int((64 if tier == "quick" else 1600) * scale))
    shards = [(seed, i, per) for i in range(16)] + [("refused-delivery", seed, i, max(1, neav // 8)) for i in range(8)]
    for part in report.run_sharded(_worker, shards):
        r.merge(part)
    if scale >= 1:
        r.require("paired-runs-compared", 200)
        r.require("refused-delivery:cases", 40)
        r.require("refused-delivery:synthesized-errors-seen", 150)
        r.require("refused-delivery:selective-messages-compared", 300)
        r.require("refused-delivery:op:eavesdropped-unicast-signal", 30)
        r.require("refused-delivery:op:refused-broadcast", 20)
        r.require("paired-runs-with-2-monitors", 40)
        r.require("paired-messages-compared", 20000)
        r.require("monitor-streams-judged", 200)
        r.require("monitor-messages-checked", 10000)
        r.require("bus-generated-seen", 4000)
        r.require("refused-seen", 200)
        r.require("unicast-seen", 400)
        r.require("broadcast-seen", 600)
        r.require("inactive-sender-seen", 50)
        r.require("monitor-filter:empty", 50)
        r.require("monitor-filter:selective", 50)
        r.require("monitor-filter:destination", 50)
        r.require("destination-filter-judged", 3000)
        r.require("destination-no-owner-shown", 15)
        r.require("destination-bus-shown", 100)
        r.require("monitor-sent:call-without-destination", 35)
        r.require("monitor-sent:return-without-destination", 15)
        r.require("monitor-sent:error-without-destination", 15)
        r.require("monitor-sent:signal", 15)
        r.require("monitor-sent:call", 25)
        r.require("lag-histories", 10)
        r.require("lag-monitors-judged", 10)
        r.require("lag-backlog-beyond-limit", 10)
        r.require("lag-copies-checked", 1200)
        r.require("lag-monitor-filter:empty", 1)
        r.require("lag-monitor-filter:selective", 1)
        r.require("unknown-type-sent", 300)
        r.require("unknown-type-sent:to-bus", 40)
        r.require("unknown-type-sent:to-unique", 60)
        r.require("unknown-type-sent:to-well-known", 20)
        r.require("unknown-type-sent:no-owner", 40)
        r.require("unknown-type-sent:big-endian", 60)
        r.require("unknown-type-shown", 200)
        r.require("unknown-type-shown:empty-filter", 80)
        r.require("unknown-type-shown:selective-filter", 25)
        r.require("unknown-type-filtered-out-and-absent", 50)
        r.require("monitor-sent", 200)
        r.require("name-release-checked", 200)
        r.require("invalid-become-monitor", 80)
        r.require("old-name-probes", 80)
        r.require("state-queries", 2000)
    else:
        r.require("paired-runs-compared", 1)
        r.require("monitor-messages-checked", 1)
    r.assumptions = [
        "serial numbers of bus-generated messages and the bus GUID are not part of what a client 'observes' (the specification gives "
        "them no meaning); everything else, including error texts, must be equal in the paired runs",
        "messages generated inside the BecomeMonitor transaction itself (the acknowledgement, NameLost / NameOwnerChanged / "
        "NameAcquired for the names given up) are not 'subsequent': the new monitor may see 0..2 copies of them; every earlier "
        "monitor must see exactly one",
        "a message sent by a monitor (after which the bus closes it) may or may not be shown to other monitors",
        "the round-trip the observer performs behind a monitor's last end marker is outside the judged stream",
        "match rules and names that would trigger the known C04 / C07 deviations are not generated; a history in which the bus "
        "disagrees with the name model elsewhere is counted as model-diverged and its monitor streams are not judged",
        "RemoveMatch is never issued for a rule whose sender is the unique name of a connection that has left or become a monitor: "
        "the bus may already have garbage-collected such a rule (BecomeMonitor always does, a disconnect only when the leaver held "
        "rules), which the specification leaves open",
        "destination= in a monitor's filter is compared with the text of the DESTINATION header field; not judged: a message being "
        "delivered to a connection under another of that connection's names than the rule gives (the bus compares by ownership "
        "there), bus-generated messages to a connection that may have owned the rule's well-known name, and NameLost addressed to a "
        "connection that is giving up its names in BecomeMonitor / has just vanished",
        "messages of unknown type are only sent with a DESTINATION field (without one they take the same uncaptured path as the known "
        "finding without-destination-call); which error the bus answers them with is not judged, only that the answer the sender "
        "received is shown to the monitors; the byte order of a monitor's copy is not judged",
        "in the 'monitor lags' histories only monitors stop reading; every ordinary connection reads after at most four 4 KiB messages, "
        "so no ordinary delivery is ever near max_outgoing_bytes; that the lagging monitor's bus-side queue really exceeded the limit "
        "is inferred from the bytes it drained (more than twice the default socket send buffer plus the limit)",
        "a monitor that sends a destination-less method call on org.freedesktop.DBus.Peer is answered by libdbus inside the bus "
        "process and not disconnected on the unchanged tree; that one variant is a recorded finding (known_findings.json)",
        "only the paired control 'disconnects instead' is run; the 'never connects' control of DESIGN.md is not"]
    return r.finish()
