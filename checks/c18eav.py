"""C18, refused-delivery part: what monitors with a destination= filter are shown when the bus refuses to hand a message to a
recipient that was reached through a MATCH RULE (an eavesdropper, or the holder of an ordinary rule whose receive policy says
no).  For such a refusal nobody gets an error on the bus - the bus builds an AccessDenied error addressed to the SENDER for
the monitors' eyes only.  This part runs on buses of its own whose policy refuses eavesdroppers one interface
(<deny receive_interface=... eavesdrop="true"/>: the addressee still gets the message) and refuses everybody the signals of
another one, with four monitors: one without filter (it shows what the bus processed) and three selective ones with
destination='<unique name>' of the sender, of the addressee and of a bystander.

Oracle: the unfiltered monitor's stream between two markers is the reference; every selective monitor must have been shown,
in the same order and exactly once, exactly those reference messages whose DESTINATION header field is its unique name
(filters name unique names only, so 'which name of the connection' never matters); and the reference itself must contain one
bus-built AccessDenied per refused match-rule recipient, carrying the refused message's serial and addressed to its sender."""
import shutil

from vf import busproc, client

PROP = "C18"
BUS = b"org.freedesktop.DBus"
BUS_PATH = b"/org/freedesktop/DBus"
IF_NOEAVES = b"com.example.NoEaves"
IF_NORECV = b"com.example.NoRecv"
IF_OK = b"com.example.Fine"
DENIED = b"org.freedesktop.DBus.Error.AccessDenied"

POLICY = """
  <policy context="default">
    <allow send_destination="*" eavesdrop="true"/>
    <allow eavesdrop="true"/>
    <allow own="*"/>
    <allow user="*"/>
    <deny receive_interface="com.example.NoEaves" eavesdrop="true"/>
    <deny receive_interface="com.example.NoRecv" receive_type="signal"/>
  </policy>
"""


def _monitor(sock, rules):
    c = client.connect(sock)
    r = c.call(BUS, BUS_PATH, b"org.freedesktop.DBus.Monitoring", b"BecomeMonitor", b"asu", [list(rules), 0])
    if r.msg.type != 2:
        raise RuntimeError("BecomeMonitor(%r) refused: %r" % (rules, r))
    return c


def _stream(mon, start_serial, end_serial, marker_sender):
    """everything the monitor is shown between its Start marker and its End marker (what comes before Start - the traffic of
    the monitor's own transition, which the main part of C18 deals with - is skipped)"""
    out = []
    started = False
    while True:
        rec = mon.recv(timeout=client.WATCHDOG)
        k = rec.msg.known()
        if rec.msg.type == 4 and k.get(7) == marker_sender and k.get(3) in (b"Start", b"End"):
            if k.get(3) == b"Start" and rec.msg.serial == start_serial:
                started = True
                out = []
                continue
            if k.get(3) == b"End" and rec.msg.serial == end_serial:
                return out if started else None
        out.append(rec)


def _key(rec):
    k = rec.msg.known()
    return (rec.msg.type, k.get(7), k.get(6), rec.msg.serial if k.get(7) != BUS else None, k.get(5), k.get(4), k.get(3))


def case(b, rundir, rng, part, cid):
    d = busproc.Daemon(b, rundir, busproc.make_config("@SOCK@", policy_xml=POLICY), name="eav")
    wit = {"part": "refused-delivery", "case": cid, "steps": []}
    cl = []
    try:
        if not d.started():
            part.inconclusive.append("refused-delivery part: daemon did not start")
            return
        O, S, R, X = (client.connect(d.sock) for _ in range(4))
        cl += [O, S, R, X]
        n_eaves = rng.randint(1, 3)
        eaves = []
        n_refused_eaves = 0
        for i in range(n_eaves):
            e = client.connect(d.sock)
            ifs = {IF_NOEAVES} if i == 0 else {rng.choice([IF_NOEAVES, IF_NOEAVES, IF_OK])}
            if rng.random() < 0.3:
                ifs.add(IF_OK)
            for f in sorted(ifs):
                e.bus_call(b"AddMatch", b"s", [b"eavesdrop='true',interface='%s'" % f])
            if IF_NOEAVES in ifs:
                n_refused_eaves += 1        # one refusal per connection, however many of its rules match
            eaves.append(e)
        cl += eaves
        n_list = rng.randint(1, 2)
        listeners = []
        for i in range(n_list):
            l = client.connect(d.sock)
            l.bus_call(b"AddMatch", b"s", [b"type='signal',interface='%s'" % IF_NORECV])
            listeners.append(l)
        cl += listeners
        mons = {"all": _monitor(d.sock, []),
                "to-sender": _monitor(d.sock, [b"destination='%s'" % S.unique]),
                "to-addressee": _monitor(d.sock, [b"destination='%s'" % R.unique]),
                "to-bystander": _monitor(d.sock, [b"destination='%s'" % X.unique])}
        cl += list(mons.values())
        target = {"to-sender": S.unique, "to-addressee": R.unique, "to-bystander": X.unique}
        O.barrier()
        starts = {}
        for name in ("to-sender", "to-addressee", "to-bystander"):
            starts[name] = O.signal(b"/m", b"com.example.Marker", b"Start", b"s", [name.encode()], dest=target[name])
        O.barrier()
        # ---- traffic
        sent = []      # (serial, kind, expected number of bus-built AccessDenied errors)
        for step in range(rng.randint(4, 9)):
            kind = rng.choice(["eavesdropped-unicast-signal", "eavesdropped-unicast-signal", "eavesdropped-unicast-call",
                               "refused-broadcast", "fine-unicast", "fine-broadcast"])
            if kind == "eavesdropped-unicast-signal":
                s = S.signal(b"/r", IF_NOEAVES, b"Sig", b"s", [b"x"], dest=R.unique)
                sent.append((s, kind, n_refused_eaves))
            elif kind == "eavesdropped-unicast-call":
                s = S.call_async(R.unique, b"/r", IF_NOEAVES, b"Call", b"s", [b"x"], flags=1)
                sent.append((s, kind, n_refused_eaves))
            elif kind == "refused-broadcast":
                s = S.signal(b"/r", IF_NORECV, b"Bc", b"s", [b"x"])
                sent.append((s, kind, n_list))
            elif kind == "fine-unicast":
                s = S.signal(b"/r", IF_OK, b"Sig", b"s", [b"x"], dest=rng.choice([R.unique, X.unique]))
                sent.append((s, kind, 0))
            else:
                s = S.signal(b"/r", IF_OK, b"Bc", b"s", [b"x"])
                sent.append((s, kind, 0))
            wit["steps"].append("%s serial=%d" % (kind, s))
            part.count("refused-delivery:op:" + kind)
        S.barrier()
        for c in [R, X] + eaves + listeners:
            c.barrier()
        # ---- end markers: one per selective monitor (addressed to its target), the unfiltered one stops at the last
        ends = {}
        for name in ("to-sender", "to-addressee", "to-bystander"):
            ends[name] = O.signal(b"/m", b"com.example.Marker", b"End", b"s", [name.encode()], dest=target[name])
        O.barrier()
        ref = _stream(mons["all"], starts["to-bystander"], ends["to-bystander"], O.unique)
        if ref is None:
            part.inconclusive.append("refused-delivery case %d: the unfiltered monitor never saw the start marker" % cid)
            return
        part.evaluations += 1
        part.count("refused-delivery:cases")
        # ---- the reference itself: one bus-built AccessDenied per refused match-rule recipient
        for serial, kind, want in sent:
            errs = [r for r in ref if r.msg.type == 3 and r.msg.known().get(7) == BUS and r.msg.known().get(5) == serial
                    and r.msg.known().get(4) == DENIED]
            part.count("refused-delivery:synthesized-errors-seen", len(errs))
            if len(errs) != want:
                part.violation("%s:refused-delivery:synthesized-error-count:%s" % (PROP, kind),
                               "%s (serial %d): the unfiltered monitor was shown %d bus-built AccessDenied errors, %d match-rule "
                               "recipients were refused" % (kind, serial, len(errs), want), dict(wit))
            for r in errs:
                if r.msg.known().get(6) != S.unique:
                    part.violation("%s:refused-delivery:synthesized-error-addressed-to-other-than-sender:%s" % (PROP, kind),
                                   "the AccessDenied the bus built for a refused %s is addressed to %r, its sender is %r"
                                   % (kind, r.msg.known().get(6), S.unique), dict(wit))
        # ---- the selective monitors
        for name in ("to-sender", "to-addressee", "to-bystander"):
            st = _stream(mons[name], starts[name], ends[name], O.unique)
            if st is None:
                part.violation("%s:refused-delivery:filter-mismatch:%s:missing:marker" % (PROP, name),
                               "monitor with destination='<%s>' was not shown the start marker addressed to that name" % name, dict(wit))
                continue
            got = [_key(r) for r in st]
            want = [_key(r) for r in ref if r.msg.known().get(6) == target[name]
                    and not (r.msg.type == 4 and r.msg.known().get(7) == O.unique and r.msg.known().get(3) in (b"Start", b"End"))]
            part.count("refused-delivery:selective-streams-compared")
            part.count("refused-delivery:selective-messages-compared", len(want))
            part.sig("refused-delivery", name, len(want), tuple(sorted(set(k for _, k, _ in sent))))
            if got != want:
                missing = [x for x in want if x not in got]
                extra = [x for x in got if x not in want]
                cls = "missing" if missing and not extra else ("unwanted" if extra and not missing else ("both" if missing else "order"))
                what = (missing or extra or got)[0]
                mkind = {1: "call", 2: "return", 3: "error", 4: "signal"}.get(what[0], "other")
                part.violation("%s:refused-delivery:filter-mismatch:%s:%s:%s" % (PROP, name, cls, mkind),
                               "monitor with destination='<%s>': %d message(s) of the unfiltered monitor's stream that are addressed to it "
                               "are missing, %d it was shown are not addressed to it; first: %r"
                               % (name, len(missing), len(extra), what), dict(wit, missing=repr(missing[:4]), extra=repr(extra[:4])))
    except (client.Timeout, client.Closed) as e:
        part.inconclusive.append("refused-delivery case %d aborted: %s" % (cid, type(e).__name__))
    finally:
        for c in cl:
            try:
                c.close()
            except Exception:
                pass
        d.stop()
        for cls, site, text in d.problems():
            part.violation("%s:%s:%s" % (PROP, cls, site), "daemon reported %s (refused-delivery part)" % cls, dict(wit, stderr=text[-2000:]))
        shutil.rmtree(rundir, ignore_errors=True)
